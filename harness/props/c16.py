"""C16 — oneshot() / as_dict() change speed, never answers; safe across threads.

Model: lean/PsutilModel/Model/C16.lean (sequential), Model/C16Conc.lean (small-step, threads),
Model/C16Gen.lean (instantiated with the translator's facts); Spec: Spec/C16.lean; theorems:
Props/C16.lean. Translator: harness/props/c16_facts.py. Scheduler: harness/props/c16_sched.py.

Correspondence
  sequential: histories of enter / exit (normal, by exception) / nested enter / call m /
    world change (new content version, EACCES on a file, zombie, gone) / as_dict on a REAL
    `psutil.Process` over a fake procfs; every open of /proc/<pid>/{stat,status,smaps,statm,
    cmdline,io} is counted (attributed to this object's read routines or to a cache-bypassing
    probe); returned values are decoded back to the content version they were computed from.
  concurrent: two real threads driven at bytecode granularity through
    memoize_when_activated.wrapper / cache_activate / cache_deactivate / oneshot by a
    settrace scheduler following schedules executed first on the Lean step model.
"""
import itertools
import os
import shutil
import threading

from harness.common import fakeproc
from harness.common.shrink import ddmin
from harness.props import c16_act, c16_facts, c16_rec

PROP = "C16"
DRIVER_MODULES = ["PsutilModel.Model.C16Gen", "PsutilModel.Spec.C16", "PsutilModel.Model.C16RecGen", "PsutilModel.Spec.C16Rec",
                  "PsutilModel.Model.C16ActGen", "PsutilModel.Spec.C16Act"]
NEEDS_EXT = True
TRUSTED = [
    "C16 world model: contents are abstracted to version numbers (decoding is C06/C13's business); /proc/<pid>/stat is always readable; a gone process never comes back and a zombie never revives (PID reuse: C01/C02); a zombie's smaps and cmdline are empty files (measured, DESIGN A.8); both worlds are run: with smaps_rollup (Meth.alt/eff, round 3) and without it (the documented fallback to smaps)",
    "C16 concurrent models: one object's `_cache` (Model/C16Conc.lean, instantiated for the front-end object with 4 activations and for the platform object with 3, incl. the pre-repair wrapper shapes) and both `_cache` attributes together (Model/C16Conc2.lean: front-end wrapper over platform wrapper, activation/deactivation order from the facts actOrder/deactOrder, repaired wrapper shape only, the re-entrant lock with every thread's stack of open levels: nested blocks and as_dict() = acquire · test · calls · exit are runs of this model; fact lockReentrant); methods reading two sources and several Process objects at once are not steps of these models (several objects: only the lock-order remark that no library code takes a second object's lock while holding one); CPython executes each of LOAD_ATTR / BINARY_SUBSCR / STORE_SUBSCR / STORE_ATTR / DELETE_ATTR atomically under the GIL (free-threaded builds out of scope)",
    "C16 scheduler (harness/props/c16_sched.py): sys.settrace with f_trace_opcodes hands a baton between real threads at the shared-state bytecodes; the schedule space is sampled (quick) or enumerated for one plain call against one enter/exit pair (thorough, one-level programs); for the two-level model the parks of both objects are level-tagged and the schedules are sampled in both tiers (10 families, incl. nested blocks, as_dict() as / inside / against a block, as_dict() in both threads: a thread whose acquire is disabled in the model is simply not granted); in the sequential runs and under this scheduler `Process._lock` is wrapped so that an acquire that would block raises SelfDeadlock instead of hanging the check",
    "C16 record objects (Model/C16Rec.lean, harness/props/c16_rec.py): a kernel record is a line of non-negative integers (position 1 printed as one of the state letters R S D T I, starttime constant within one history, the process alive and stat readable); the dict built by _parse_stat_file is modelled as an association list and a platform method as the list of things it does to the dict object it is handed (translator: subscript / .get / .pop / del / item store of a constant / .clear(); anything else is an unknown token that fails the obligation rcfg_good); _psposix.get_terminal_map is replaced (every device number has a name) so that terminal() can be decoded; cpu_percent() is compared by outcome kind only (its value depends on the clock); create_time() is no route (kept for the object's lifetime); the failing-input oracle of this family is the real method's own answer OUTSIDE any block on a fresh object over the same files (no translator fact involved), the Lean specification/model are compared on top of it",
    "C16 bounded-pre-emption explorer (harness/props/c16_preempt.py): model-independent; every bytecode of memoize_when_activated's closures, Process.oneshot and oneshot_enter/exit that is not frame-local (FRAME_LOCAL_OPS: LOAD_FAST, POP_TOP, jumps …: invisible to and blind for other threads, so pre-empting before one equals pre-empting before the next visible bytecode) is a scheduling point; 25 programs (explicit blocks, as_dict as the owner, nested block, exit by exception, callers on another source, methods crossing both cache levels, three threads, and — with `Process._lock` replaced by a cooperative stand-in that parks a thread whose acquire fails — as_dict() against another thread's open block, as_dict() / oneshot() / psutil.process_iter(attrs) from two threads on ONE shared Process object, three threads with two as_dict(); a state in which every unfinished thread waits for the lock is reported as a deadlock); schedules with <= 2 pre-emptions (sampled in quick; all in thorough for the original programs, capped per new program; all during a failing-input search) and the 3-pre-emption schedules where a plain call straddles two program items of the block owner; oracle = the property's clauses on content versions (no spurious error; in-block value read in that block; plain value from the call's duration or an overlapping block)",
]
MANIFEST = {
    "level_text": "Machine-checked Lean 4 proofs over a model of memoize_when_activated / oneshot() / as_dict(): for EVERY sequential history (enter, exit normally or by exception, nested blocks, calls, content changes, EACCES, zombie, gone, as_dict anywhere) the model refines a specification that freezes the first successful read of each block-cached source (C16_value_at_first_read), each of stat/status/smaps is read at most once per outermost block (C16_read_at_most_once), the next call after the block is fresh (C16_fresh_after_exit), nesting is a no-op (C16_nested_noop), as_dict validates before reading, returns exactly the requested keys and applies the AccessDenied/ZombieProcess/NoSuchProcess/NotImplementedError policy (C16_as_dict_*); and over ALL interleavings of any number of threads of a bytecode-granularity step model no AttributeError/KeyError escapes (C16_no_spurious_error) and every returned value was the source's content at an instant between the activation of the block whose cache served it (or the start of the call) and the return (C16_value_valid_at_some_moment). The same two theorems are proved for a model of BOTH cache levels together (front-end `_cache` over `_proc._cache`, activated in the order oneshot() does it, with the re-entrant lock and every thread's nested levels as steps — nested blocks and as_dict() from any thread are runs of this model: C16_no_spurious_error_two_level, C16_value_valid_at_some_moment_two_level, C16_lock_protocol_two_level, C16_nested_noop_two_level: a re-entered level never activates or deactivates anything, C16_no_deadlock_two_level: the lock holder always has an own enabled step that brings it strictly closer to the release, so another thread's as_dict()/oneshot() on the same object only waits for a thread that can finish by itself), C16_reads_characterised states exactly which reads go through the block cache (cached routines: at most once) and which are fresh by design (identity probe of ppid(), zombie probe), and C16_as_dict_per_name_policy the per-name exception policy. The literal cross-thread clause (valid at a moment of the call itself) is false of oneshot's design and is a recorded finding with a replayed schedule; so is the stability of the owner's first-read value against a concurrent plain caller's later store (C16_owner_first_read_counterexample). Both findings have one cause (the block's dict is shared with plain callers of other threads); for the candidate repair that serves the cache to the activating thread only (fact cacheOwnerOnly, false today; fixes/C16-cache-owner-only.diff) both clauses are proved at full strength (C16_value_valid_Literal_two_level_owner_only, C16_entries_write_once_owner_only). Records are objects: for kernel records with an independent value in every position and every public route to the dict of _parse_stat_file (through the front-end memoisation or around it, as cpu_percent() -> _proc.cpu_times()), in every order and every history, each method returns inside a block what it returns outside the block on the record first read in the block (C16_record_answers_at_first_read, C16_record_call_after_any_call) provided no platform method changes the dict it is handed — the translator-fed obligation rcfg_good (facts helperReturns, statParse, recConsumers, recRoutes); a popping / overwriting consumer breaks it (C16_record_mutating_consumer_counterexample). The model is tied to the code by translator facts (decorator placement, activate/deactivate lists and order, nesting test, finally, wrapper shape incl. owner tag, RLock, method→file map, as_dict policy) feeding the proof obligation cfg_good, and by differential runs of the real Process over a fake procfs with per-file open counting and of real threads under a deterministic bytecode scheduler.",
    "level_note": "Partial w.r.t. threads: the theorems cover every interleaving of the MODELS' step relations (one level; two levels); the implementation is exercised on sampled (quick) / enumerated one-call-vs-one-block (thorough, one level) schedules under the model-following scheduler and on bounded-pre-emption schedules of 25 programs under the model-independent explorer (thorough: complete for the three original programs on both cache levels, a recorded budget of 600 plans for each other program). No deadlock: proved for ONE object's lock; across several objects the library never takes a second Process object's lock while holding one (as_dict/process_iter/__str__ are the only internal users of oneshot()), user code nesting blocks of different objects in opposite orders is outside the property. Trusted: Lean kernel + {propext, Classical.choice, Quot.sound}; translator; harness; GIL atomicity of single bytecodes; world model as listed.",
    "technique": "Lean 4 refinement proof by simulation over histories + invariant proof over a small-step interleaving semantics + translator-fed proof obligation + differential correspondence (fake procfs with open counting; settrace bytecode scheduler)",
    "design_ref": "DESIGN.md §5 C16",
}
ASSUMPTIONS = [
    "kernel events are interleaved between psutil's OS accesses, not inside one",
    "PYTHONHASHSEED fixed: the iteration order of set(attrs) computed by the harness is the one as_dict sees",
]



def facts(snap, F):
    c16_facts.facts(snap, F)
    c16_rec.facts(snap, F)          # record objects: helperReturns, statParse, recConsumers, recRoutes
    c16_act.facts(snap, F)          # calls of any shape: cacheOpSites


SRCS = ["stat", "status", "smaps", "statm", "cmdline", "io", "smaps_rollup"]      # order = Driver/C16.lean allSrc
BLOCK_CACHED = ["stat", "status", "smaps"]
MODELLED = c16_facts.MODELLED
PID = 424242
UID_OFF = 1000000
GID_OFF = 2000000


FINDING_PROBE = "C16-probe-rereads-stat"
FINDING_STATM = "C16-statm-reread-in-block"
FINDING_GONE = "C16-guard-reports-gone-now"

# docs/index.rst, Process.oneshot(), column "Linux": methods "efficiently grouped together internally" (= Spec.docGroups)
DOC_GROUPS = {
    "stat": ["cpu_num", "cpu_percent", "cpu_times", "create_time", "name", "ppid", "status", "terminal"],
    "status": ["gids", "num_ctx_switches", "num_threads", "uids", "username"],
    "smaps": ["memory_full_info", "memory_maps"],
}
# Process.oneshot()'s own comments: "cached in case memory_percent() is used" (front-end memory_info)
FRONT_STATM = ["memory_info", "memory_percent"]
# = Spec.notGetters (as_dict()'s documentation: "all public (read only) attributes")
NOT_GETTERS = ["send_signal", "suspend", "resume", "terminate", "kill", "wait", "is_running", "as_dict", "parent", "parents",
               "children", "rlimit", "connections", "oneshot"]


class Boom(Exception):
    """the exception thrown in a block's body"""


class SelfDeadlock(Exception):
    """Process._lock could not be taken although no OTHER thread can hold it: the calling thread would block forever on a
    lock it holds itself (nested oneshot() / as_dict() inside a block with a lock that is not re-entrant)"""


class GuardLock:
    """Stand-in for `Process._lock` in the sequential runs and under the model-following scheduler (which grants an
    `acquire` only when the model says it is enabled): an acquire that would block is reported instead of hanging the check."""

    def __init__(self, real):
        self.real = real

    def acquire(self, blocking=True, timeout=-1):
        if self.real.acquire(blocking=False):
            return True
        if not blocking:
            return False
        raise SelfDeadlock("Process._lock would block")

    def release(self):
        self.real.release()

    def __enter__(self):
        self.acquire()
        return self

    def __exit__(self, *a):
        self.real.release()


OPAQUE = object()
ADV = object()


# ------------------------------------------------------------------------------ implementation side


class Impl:
    """A real psutil.Process over a fake procfs whose files encode a content version."""

    def __init__(self, ctx):
        self.ps = ctx.psutil
        self.plat = self.ps._psplatform
        self.fp = fakeproc.FakeProc(self.ps, prefix="psv-c16-")
        self.root = self.fp.root
        self.piddir = os.path.join(self.root, str(PID))
        self.real_open = open
        self.saved_open = {}
        for mod in (self.ps._common, self.plat):
            self.saved_open[mod] = mod.__dict__.get("open", None)
            mod.open = self._open
        self.fp.write("stat", "cpu  1 1 1 1 1 1 1 1 1 1\nbtime 1700000000\n")
        self.tck = self.plat.CLOCK_TICKS
        self.page = self.plat.PAGESIZE
        # memory_percent() = rss / total * 100: with total = 100 pages the percentage IS the statm version
        self.saved_phymem = getattr(self.ps, "_TOTAL_PHYMEM", None)
        self.ps._TOTAL_PHYMEM = 100 * self.page
        # the smaps_rollup path of memory_full_info() is taken whenever the module saw the file at import (every kernel
        # >= 4.14); the fake procfs offers / withdraws the file per history (op setabsent)
        self.saved_rollup = self.plat.HAS_PROC_SMAPS_ROLLUP
        if hasattr(self.plat.Process, "_parse_smaps_rollup"):
            self.plat.HAS_PROC_SMAPS_ROLLUP = True
        self.absent = {"smaps_rollup": False}
        self.valid = list(self.ps._as_dict_attrnames)      # iteration order of the module's set
        self.p = None
        self.dirty = set()
        self.stat_line = None          # c16_rec: a kernel record with an independent value in every position
        self.reset()

    def close(self):
        for mod, old in self.saved_open.items():
            if old is None:
                mod.__dict__.pop("open", None)
            else:
                mod.open = old
        self.ps._TOTAL_PHYMEM = self.saved_phymem
        self.plat.HAS_PROC_SMAPS_ROLLUP = self.saved_rollup
        self.fp.close()

    # ---- world
    def _content(self, src):
        v = self.ver[src]
        z = self.state == "zombie"
        if src == "stat" and self.stat_line is not None and not z:
            return c16_rec.render_stat(PID, self.stat_line)
        if src == "stat":
            f = ["0"] * 50
            f[0] = "Z" if z else "S"
            f[1] = str(v)
            f[4] = "0"
            f[11] = f[12] = f[13] = f[14] = str(v * self.tck)
            f[19] = "1000"
            f[36] = str(v)
            f[39] = "0"
            return "%d (v%d) %s\n" % (PID, v, " ".join(f))
        if src == "status":
            return ("Name:\tv\nState:\tS (sleeping)\nUid:\t{u}\t{u}\t{u}\t{u}\nGid:\t{g}\t{g}\t{g}\t{g}\n"
                    "Threads:\t{v}\nvoluntary_ctxt_switches:\t{v}\nnonvoluntary_ctxt_switches:\t{v}\n"
                    ).format(u=UID_OFF + v, g=GID_OFF + v, v=v)
        if src == "smaps":
            if z:
                return ""
            return ("00400000-00401000 r-xp 00000000 08:01 123                        /bin/v\n"
                    "Size:                  4 kB\nRss:                  {v} kB\nPss:                   0 kB\n"
                    "Shared_Clean:          0 kB\nShared_Dirty:          0 kB\nPrivate_Clean:        {v} kB\n"
                    "Referenced:            0 kB\nAnonymous:             0 kB\nSwap:                  0 kB\n"
                    "VmFlags: rd ex mr mw me\n").format(v=v)
        if src == "smaps_rollup":
            return ("00400000-7ffd00000000 ---p 00000000 00:00 0                      [rollup]\n"
                    "Rss:                  {v} kB\nPss:                   0 kB\nPss_Dirty:             0 kB\n"
                    "Shared_Clean:          0 kB\nShared_Dirty:          0 kB\nPrivate_Clean:        {v} kB\n"
                    "Private_Dirty:         0 kB\nReferenced:            0 kB\nAnonymous:             0 kB\n"
                    "Swap:                  0 kB\nSwapPss:               0 kB\nLocked:                0 kB\n").format(v=v)
        if src == "statm":
            return "%d %d 0 0 0 0 0\n" % (v, v)
        if src == "cmdline":
            return "" if z else "v%d\x00" % v
        if src == "io":
            return "rchar: 0\nwchar: 0\nsyscr: %d\nsyscw: 0\nread_bytes: 0\nwrite_bytes: 0\ncancelled_write_bytes: 0\n" % v
        raise KeyError(src)

    def _write(self, src):
        if self.state == "gone":
            return
        if self.absent.get(src):
            try:
                os.remove(os.path.join(self.piddir, src))
            except FileNotFoundError:
                pass
            return
        # atomic: a thread that runs freely (after a drift the scheduler lets every worker finish on its own) must never
        # read a half-written file
        path = os.path.join(self.piddir, src)
        tmp = os.path.join(self.root, ".w-%s-%d" % (src, threading.get_ident()))
        with self.real_open(tmp, "w", encoding="utf-8") as f:
            f.write(self._content(src))
        os.replace(tmp, path)

    def reset_light(self):
        """fresh Process object over the same (alive, nothing denied) world, every content back to version 1; the files are
        rewritten lazily, right before the implementation opens them (explorer runs: thousands of short schedules)"""
        if self.state != "alive" or any(self.denied.values()) or any(self.absent.values()):
            return self.reset()
        self.ver = {s: 1 for s in SRCS}
        self.dirty = set(SRCS)
        self.total_probes = getattr(self, "total_probes", 0) + getattr(self, "probes", 0)
        self.reads = {s: 0 for s in SRCS}
        self.probes = 0
        self.other_opens = 0
        self.cms = []
        fakeproc.reset_psutil_state(self.ps)
        self.ps._TOTAL_PHYMEM = 100 * self.page
        self.p = None
        self.counting = False
        self.p = self.ps.Process(PID)
        self.p._lock = GuardLock(self.p._lock)
        self.counting = True

    def reset(self):
        """fresh world, fresh Process object"""
        self.dirty = set()
        self.ver = {s: 1 for s in SRCS}
        self.denied = {s: False for s in SRCS}
        self.absent = {"smaps_rollup": False}
        self.state = "alive"
        self.total_probes = getattr(self, "total_probes", 0) + getattr(self, "probes", 0)
        self.reads = {s: 0 for s in SRCS}
        self.probes = 0
        self.other_opens = 0
        self.block_reads = None
        self.cms = []
        shutil.rmtree(self.piddir, ignore_errors=True)
        shutil.rmtree(self.piddir + ".gone", ignore_errors=True)
        os.makedirs(self.piddir)
        for s in SRCS:
            self._write(s)
        fakeproc.reset_psutil_state(self.ps)
        self.ps._TOTAL_PHYMEM = 100 * self.page
        self.p = None
        self.counting = False
        self.p = self.ps.Process(PID)
        self.p._lock = GuardLock(self.p._lock)
        self.counting = True

    # ---- counting / fault injection
    def _open(self, file, *a, **kw):
        path = os.fspath(file) if not isinstance(file, int) else ""
        if isinstance(path, bytes):
            path = os.fsdecode(path)
        src = None
        if path.startswith(self.piddir + "/"):
            rest = path[len(self.piddir) + 1:]
            if rest in self.denied:
                src = rest
        if src is not None and src in self.dirty:
            self.dirty.discard(src)
            self._write(src)                 # lazily materialised content (see reset_light / the explorer's version bumps)
        if src == "smaps_rollup" and self.state != "gone":
            if self.absent[src]:
                raise FileNotFoundError(2, "No such file or directory", path)
            if self.state == "zombie":
                # a zombie has no mm: the kernel answers ESRCH for smaps_rollup (the "weird" case of _parse_smaps_rollup's comment)
                raise ProcessLookupError(3, "No such process", path)
        if src is not None and self.state != "gone" and self.denied[src]:
            raise PermissionError(13, "Permission denied", path)
        f = self.real_open(file, *a, **kw)
        if src is not None and self.counting:
            if self._by_target_routine():
                self.reads[src] += 1
            elif src == "stat":
                self.probes += 1
            else:
                self.other_opens += 1
        return f

    def _by_target_routine(self):
        """Is this open performed by a read routine of the object under test (not by
        `_is_zombie`, not by another Process object)?"""
        import sys
        fr = sys._getframe(2)
        target = self.p._proc if self.p is not None else None
        while fr is not None:
            if fr.f_code.co_filename.endswith("_pslinux.py") and "self" in fr.f_code.co_varnames:
                slf = fr.f_locals.get("self")
                if isinstance(slf, self.plat.Process):
                    return slf is target and fr.f_code.co_name != "_is_zombie"
            fr = fr.f_back
        return False

    # ---- decoding values back to content versions
    def decode(self, m, r):
        if m == "name":
            return [int(r[1:])]
        if m in ("ppid", "cpu_num", "num_threads"):
            return [int(r)]
        if m == "cpu_times":
            vals = {int(round(x)) for x in (r.user, r.system, r.children_user, r.children_system)}
            if len(vals) != 1 or abs(r.user - round(r.user)) > 1e-9:
                raise ValueError("inconsistent cpu_times %r" % (r,))
            return [vals.pop()]
        if m == "uids":
            if len({r.real, r.effective, r.saved}) != 1:
                raise ValueError("inconsistent uids")
            return [r.real - UID_OFF]
        if m == "gids":
            return [r.real - GID_OFF]
        if m == "username":
            return [int(r) - UID_OFF]
        if m == "num_ctx_switches":
            if r.voluntary != r.involuntary:
                raise ValueError("inconsistent ctx switches")
            return [r.voluntary]
        if m == "memory_info":
            if r.rss != r.vms or r.rss % self.page:
                raise ValueError("inconsistent memory_info")
            return [r.rss // self.page]
        if m == "memory_full_info":
            return [None if r.uss == 0 else r.uss // 1024, r.rss // self.page]
        if m == "memory_maps":
            if r == []:
                return [None]
            if len(r) != 1:
                raise ValueError("unexpected maps")
            return [r[0].rss // 1024]
        if m == "cmdline":
            if r == []:
                return [None]
            return [int(r[0][1:])]
        if m == "io_counters":
            return [r.read_count]
        raise KeyError(m)

    def outcome(self, m, fn):
        try:
            r = fn()
        except BaseException as e:  # noqa: BLE001
            if isinstance(e, (KeyboardInterrupt, SystemExit)):
                raise
            return {"kind": "exc", "exc": type(e).__name__}
        try:
            return {"kind": "ok", "value": self.decode(m, r)}
        except Exception as e:  # noqa: BLE001
            return {"kind": "undecodable", "repr": repr(r)[:200], "why": "%s: %s" % (type(e).__name__, e)}

    # ---- ops
    def do(self, op):
        out = self._do(op)
        return {"out": out, "reads": [self.reads[s] for s in SRCS], "probes": self.probes}

    def _do(self, op):
        k = op["op"]
        if k == "enter":
            try:
                cm = self.p.oneshot()
                cm.__enter__()
            except Exception as e:  # noqa: BLE001
                self.cms.append(None)
                return {"kind": "exc", "exc": type(e).__name__}
            self.cms.append(cm)
            return {"kind": "unit"}
        if k == "exit":
            cm = self.cms.pop() if self.cms else None
            if cm is None:
                return {"kind": "exc", "exc": "NoBlockEntered"}
            try:
                if op["exc"]:
                    b = Boom()
                    try:
                        raise b
                    except Boom:
                        import sys
                        suppressed = cm.__exit__(*sys.exc_info())
                    if suppressed:
                        return {"kind": "suppressed"}
                else:
                    cm.__exit__(None, None, None)
            except Boom:
                pass
            except Exception as e:  # noqa: BLE001
                return {"kind": "exc", "exc": type(e).__name__}
            return {"kind": "unit"}
        if k == "call":
            m = op["m"]
            return self.outcome(m, lambda: getattr(self.p, m)())
        if k == "setver":
            self.ver[op["src"]] = op["v"]
            self._write(op["src"])
            return {"kind": "unit"}
        if k == "setdenied":
            if op["src"] != "stat":
                self.denied[op["src"]] = op["b"]
            return {"kind": "unit"}
        if k == "setabsent":
            if op["src"] == "smaps_rollup":
                self.absent[op["src"]] = op["b"]
                self._write(op["src"])
            return {"kind": "unit"}
        if k == "setstate":
            new = op["st"]
            if self.state == "gone" or (self.state == "zombie" and new == "alive"):
                return {"kind": "unit"}
            old = self.state
            self.state = new
            if new == "gone":
                if old != "gone":
                    os.rename(self.piddir, self.piddir + ".gone")
            else:
                for s in SRCS:
                    self._write(s)
            return {"kind": "unit"}
        if k == "asdict":
            return self._asdict(op)
        raise ValueError(op)

    def _asdict(self, op):
        env = dict(op["env"])
        scripted = []
        for n in self.valid:
            if n in MODELLED or n == "pid":
                continue
            scripted.append(n)
        for n in scripted:
            setattr(self.p, n, self._scripted(env.get(n, "ok")))
        try:
            kind = op["kind"]
            if kind == "none":
                args = {} if op.get("omit") else {"attrs": None}
            elif kind == "noncoll":
                args = {"attrs": {"str": "name", "int": 5, "dict": {"name": 1}, "gen": iter(["name"]), "bytes": b"name",
                                  "range": range(2), "keys": {"name": 1}.keys(), "genexp": (n for n in ["name"]),
                                  "deque": __import__("collections").deque(["name"])}[op.get("nc", "str")]}
            else:
                ctor = {"list": list, "tuple": tuple, "set": set, "frozenset": frozenset}[op.get("ctor", "list")]
                args = {"attrs": ctor(op["raw"])}
            try:
                d = self.p.as_dict(ad_value=ADV, **args)
            except BaseException as e:  # noqa: BLE001
                if isinstance(e, (KeyboardInterrupt, SystemExit)):
                    raise
                if isinstance(e, ValueError) and kind == "names":
                    # the message must name exactly the invalid names (documented: "invalid attr name(s) 'x', 'y'")
                    import re
                    named = set(re.findall(r"'([^']*)'", str(e)))
                    want = set(op["raw"]) - set(self.valid)
                    if named != want:
                        return {"kind": "exc", "exc": "ValueError", "message_names": sorted(named), "invalid": sorted(want)}
                return {"kind": "exc", "exc": type(e).__name__}
            items = []
            for n, v in d.items():
                if v is ADV:
                    items.append([n, "ad"])
                elif v is OPAQUE or n == "pid":
                    items.append([n, "opaque"])
                elif n in MODELLED:
                    try:
                        items.append([n, {"v": self.decode(n, v)}])
                    except Exception as e:  # noqa: BLE001
                        items.append([n, {"undecodable": repr(v)[:100]}])
                else:
                    items.append([n, {"unexpected": repr(v)[:100]}])
            return {"kind": "dict", "items": items}
        finally:
            for n in scripted:
                try:
                    delattr(self.p, n)
                except AttributeError:
                    pass

    def _scripted(self, what):
        ps, pid = self.ps, PID

        def f():
            if what == "ok":
                return OPAQUE
            if what == "ad":
                raise ps.AccessDenied(pid)
            if what == "zombie":
                raise ps.ZombieProcess(pid)
            if what == "nsp":
                raise ps.NoSuchProcess(pid)
            if what == "notimpl":
                raise NotImplementedError("scripted")
            raise ValueError(what)
        return f

    def set_order(self, raw, ctor="list"):
        """iteration order of `set(attrs)` as as_dict will see it"""
        c = {"list": list, "tuple": tuple, "set": set, "frozenset": frozenset}[ctor](raw)
        return list(set(c))


def driver_line(op, impl):
    """the line sent to the Lean driver for one op"""
    if op["op"] == "asdict":
        attrs = impl.set_order(op["raw"], op.get("ctor", "list")) if op["kind"] == "names" else []
        return {"op": "asdict", "kind": op["kind"], "attrs": attrs, "all": impl.valid,
                "env": [[k, v] for k, v in op["env"]]}
    return {k: v for k, v in op.items()}


def run_histories(ctx, impl, hists):
    lines = []
    for h in hists:
        lines.append({"op": "reset"})
        lines.extend(driver_line(o, impl) for o in h)
    outs = ctx.driver().batch(lines)
    res = []
    i = 0
    for h in hists:
        i += 1
        impl.reset_light()
        rows = []
        for o in h:
            m = outs[i]
            i += 1
            if "bad" in m:
                raise RuntimeError("driver rejected %r: %s" % (o, m))
            rows.append((o, impl.do(o), m["model"], m["spec"]))
        res.append(rows)
    return res, len(lines)


# ------------------------------------------------------------------------------ generators

STAT_M = ["name", "ppid", "cpu_times", "cpu_num"]
STATUS_M = ["uids", "gids", "username", "num_threads", "num_ctx_switches"]
SMAPS_M = ["memory_maps", "memory_full_info"]
OTHER_M = ["memory_info", "cmdline", "io_counters"]
DENIABLE = ["status", "smaps", "statm", "cmdline", "io", "smaps_rollup"]
UNMODELLED_SAMPLE = ["nice", "exe", "cwd", "num_fds", "threads", "open_files", "environ", "ionice",
                     "cpu_affinity", "terminal", "status", "create_time", "cpu_percent", "memory_percent",
                     "net_connections"]


NONCOLL = ["str", "int", "dict", "gen", "bytes", "range", "keys", "genexp", "deque"]
ENUM_UNIVERSE = ["name", "ppid", "nice", "cmdline", "bogus"]      # cached stat / guarded+front-memoised / scripted / zombie-probing / invalid


def asdict_enumeration(orders):
    """as_dict(attrs) for every subset (orders=False) or every ordered arrangement without repetition (orders=True) of a
    5-name universe × every scripted outcome of the un-modelled name × process state alive / zombie / gone, as one-op
    histories (plus the state change); + every non-collection argument kind"""
    subsets = []
    for k in range(len(ENUM_UNIVERSE) + 1):
        it = itertools.permutations(ENUM_UNIVERSE, k) if orders else itertools.combinations(ENUM_UNIVERSE, k)
        subsets += [list(x) for x in it]
    for raw in subsets:
        outs = ["ok", "ad", "zombie", "nsp", "notimpl"] if "nice" in raw or not raw else ["ok"]
        for out in outs:
            for st in ("alive", "zombie", "gone"):
                h = [] if st == "alive" else [{"op": "setstate", "st": st}]
                for ctor in (("list", "set") if not orders and len(raw) == 2 else ("list",)):
                    yield h + [{"op": "asdict", "kind": "names", "raw": raw, "env": [["nice", out]], "ctor": ctor}]
    # several invalid names at once: ValueError whose message names every one of them
    for raw in (["bogus", "oneshot"], ["name", "bogus", "kill"], ["_cache", "Name", "as_dict", "ppid"], ["bogus", "bogus"]):
        for ctor in ("list", "tuple", "set", "frozenset"):
            yield [{"op": "asdict", "kind": "names", "raw": raw, "env": [], "ctor": ctor}, {"op": "call", "m": "name"}]
    for nc in NONCOLL:
        yield [{"op": "asdict", "kind": "noncoll", "raw": [], "env": [], "nc": nc}, {"op": "call", "m": "name"}]
    for out in ["ok", "ad", "zombie", "nsp", "notimpl"]:
        for omit in (False, True):
            yield [{"op": "asdict", "kind": "none", "raw": [], "env": [["nice", out], ["exe", "ad"]], "omit": omit}]


def gen_asdict(rng, impl, flavour=None):
    flavour = flavour or rng.choice(["names", "names", "names", "none", "empty", "invalid", "noncoll", "policy"])
    env = []
    if flavour in ("policy", "none") or rng.random() < 0.3:
        for n in rng.sample(UNMODELLED_SAMPLE, rng.randrange(0, 4)):
            env.append([n, rng.choice(["ad", "zombie", "nsp", "notimpl", "notimpl", "ok"])])
    if flavour == "none":
        return {"op": "asdict", "kind": "none", "raw": [], "env": env, "omit": rng.random() < 0.5}
    if flavour == "noncoll":
        return {"op": "asdict", "kind": "noncoll", "raw": [], "env": env, "nc": rng.choice(NONCOLL)}
    ctor = rng.choice(["list", "tuple", "set", "frozenset"])
    if flavour == "empty":
        return {"op": "asdict", "kind": "names", "raw": [], "env": env, "ctor": ctor}
    pool = MODELLED + ["pid"] + UNMODELLED_SAMPLE
    raw = [rng.choice(pool) for _ in range(rng.randrange(1, 7))]
    if flavour == "invalid":
        for bad in rng.sample(["bogus", "oneshot", "kill", "as_dict", "_cache", "Name"], rng.randrange(1, 4)):
            raw.insert(rng.randrange(len(raw) + 1), bad)
    if flavour == "policy":
        raw += [e[0] for e in env]
    return {"op": "asdict", "kind": "names", "raw": raw, "env": env, "ctor": ctor}


def gen_history(rng, impl, family):
    h = []
    depth = 0
    ver = {s: 1 for s in SRCS}
    n_ops = rng.randrange(4, 16) if family != "long" else rng.randrange(16, 40)

    def call(pool=None):
        h.append({"op": "call", "m": rng.choice(pool or MODELLED)})

    def bump(src=None):
        src = src or rng.choice(SRCS)
        ver[src] += rng.randrange(1, 4)
        h.append({"op": "setver", "src": src, "v": ver[src]})

    def enter():
        nonlocal depth
        h.append({"op": "enter"})
        depth += 1

    def leave(exc=None):
        nonlocal depth
        if depth:
            h.append({"op": "exit", "exc": rng.random() < 0.3 if exc is None else exc})
            depth -= 1

    if family == "first_read":
        src = rng.choice(BLOCK_CACHED)
        if src == "smaps" and rng.random() < 0.5:
            h.append({"op": "setabsent", "src": "smaps_rollup", "b": True})
        pool = {"stat": STAT_M, "status": STATUS_M, "smaps": SMAPS_M}[src]
        if rng.random() < 0.5:
            call(pool)
        enter()
        for _ in range(n_ops):
            r = rng.random()
            if r < 0.45:
                call(pool)
            elif r < 0.8:
                bump(src)
            else:
                call()
        leave()
        call(pool)
    elif family == "nested":
        enter()
        for _ in range(n_ops):
            r = rng.random()
            if r < 0.25:
                enter()
            elif r < 0.45 and depth > 1:
                leave()
            elif r < 0.75:
                call()
            else:
                bump()
        while depth:
            leave()
            if rng.random() < 0.5:
                call()
    elif family == "exc_exit":
        for _ in range(rng.randrange(1, 4)):
            enter()
            for _ in range(rng.randrange(1, 5)):
                call() if rng.random() < 0.6 else bump()
            leave(exc=True)
            bump()
            call()
            call()
    elif family == "denied":
        enter() if rng.random() < 0.8 else None
        for _ in range(n_ops):
            r = rng.random()
            if r < 0.3:
                h.append({"op": "setdenied", "src": rng.choice(DENIABLE), "b": rng.random() < 0.6})
            elif r < 0.8:
                call(STATUS_M + SMAPS_M + OTHER_M)
            elif r < 0.9:
                bump()
            elif depth:
                leave()
            else:
                enter()
    elif family in ("zombie", "gone"):
        enter() if rng.random() < 0.7 else None
        at = rng.randrange(0, n_ops)
        for i in range(n_ops):
            if i == at:
                h.append({"op": "setstate", "st": family})
            r = rng.random()
            if r < 0.6:
                call(SMAPS_M + ["cmdline", "name", "ppid"] if family == "zombie" else None)
            elif r < 0.75:
                bump()
            elif r < 0.85 and depth:
                leave()
            elif r < 0.95:
                enter()
            else:
                h.append({"op": "setstate", "st": "gone"})
    elif family == "asdict":
        for _ in range(rng.randrange(1, 5)):
            r = rng.random()
            if r < 0.4:
                enter()
            if rng.random() < 0.5:
                call()
            h.append(gen_asdict(rng, impl))
            if rng.random() < 0.4:
                bump()
            if rng.random() < 0.5:
                call()
            if rng.random() < 0.3:
                h.append({"op": "setdenied", "src": rng.choice(DENIABLE), "b": rng.random() < 0.6})
            if rng.random() < 0.1:
                h.append({"op": "setstate", "st": rng.choice(["zombie", "gone"])})
            if depth and rng.random() < 0.5:
                leave()
    elif family == "rollup":
        # memory_full_info() on kernels with and without smaps_rollup (and the file coming / going inside a block)
        pool = ["memory_full_info", "memory_full_info", "memory_maps", "memory_info"]
        if rng.random() < 0.4:
            h.append({"op": "setabsent", "src": "smaps_rollup", "b": True})
        if rng.random() < 0.3:
            call(pool)
        for _ in range(n_ops):
            r = rng.random()
            if r < 0.4:
                call(pool)
            elif r < 0.6:
                bump(rng.choice(["smaps_rollup", "smaps", "statm"]))
            elif r < 0.7:
                h.append({"op": "setabsent", "src": "smaps_rollup", "b": rng.random() < 0.5})
            elif r < 0.78:
                h.append({"op": "setdenied", "src": rng.choice(["smaps_rollup", "smaps"]), "b": rng.random() < 0.6})
            elif r < 0.83:
                h.append({"op": "setstate", "st": rng.choice(["zombie", "gone"])})
            elif r < 0.92 or not depth:
                enter()
            else:
                leave()
    else:  # mixed / long
        if rng.random() < 0.3:
            h.append({"op": "setabsent", "src": "smaps_rollup", "b": True})
        for _ in range(n_ops):
            r = rng.random()
            if r < 0.12:
                enter()
            elif r < 0.24 and depth:
                leave()
            elif r < 0.6:
                call()
            elif r < 0.8:
                bump()
            elif r < 0.87:
                h.append({"op": "setdenied", "src": rng.choice(DENIABLE), "b": rng.random() < 0.5})
            elif r < 0.9:
                h.append({"op": "setstate", "st": rng.choice(["zombie", "zombie", "gone"])})
            else:
                h.append(gen_asdict(rng, impl))
    while depth and rng.random() < 0.8:
        leave()
    if rng.random() < 0.7:
        call()
    return h


FAMILIES = ["first_read", "nested", "exc_exit", "denied", "zombie", "gone", "asdict", "mixed", "long", "rollup"]


def exhaustive_histories(maxlen):
    """all well-nested histories up to maxlen over a small alphabet"""
    alphabet = [{"op": "enter"}, {"op": "exit", "exc": False}, {"op": "exit", "exc": True},
                {"op": "call", "m": "name"}, {"op": "call", "m": "ppid"}, {"op": "bump"}]
    for n in range(1, maxlen + 1):
        for combo in itertools.product(alphabet, repeat=n):
            depth, ok, v, h = 0, True, 1, []
            for o in combo:
                if o["op"] == "enter":
                    depth += 1
                elif o["op"] == "exit":
                    depth -= 1
                    if depth < 0:
                        ok = False
                        break
                if o["op"] == "bump":
                    v += 1
                    h.append({"op": "setver", "src": "stat", "v": v})
                else:
                    h.append(o)
            if ok:
                yield h


def history_features(h):
    feats = set()
    depth = 0
    for o in h:
        k = o["op"]
        if k == "enter":
            feats.add("nested" if depth else "block")
            depth += 1
        elif k == "exit":
            depth -= 1
            feats.add("exit_exc" if o["exc"] else "exit_normal")
        elif k == "setver" and depth:
            feats.add("change_in_block")
        elif k == "setdenied" and o["b"]:
            feats.add("denied")
        elif k == "setstate":
            feats.add(o["st"])
        elif k == "setabsent":
            feats.add("rollup_absent" if o["b"] else "rollup_back")
        elif k == "asdict":
            feats.add("asdict_" + ("in_block" if depth else "top"))
            feats.add("asdict:" + o["kind"])
        elif k == "call" and depth:
            feats.add("call_in_block")
    return feats


# ------------------------------------------------------------------------------ correspondence


def block_read_check(rows):
    """Direct check of the at-most-once clause on the implementation's counters."""
    depth = 0
    base = None
    for i, (o, im, _, _) in enumerate(rows):
        if o["op"] == "enter":
            if depth == 0:
                base = list(im["reads"])
            depth += 1
        elif o["op"] == "exit":
            depth -= 1
        if depth > 0 and base is not None:
            for j, s in enumerate(SRCS):
                if s in BLOCK_CACHED and im["reads"][j] - base[j] > 1:
                    return i, s
    return None


def compare(rows, res, source, known=None):
    hist = [r[0] for r in rows]
    for i, (o, im, mo, sp) in enumerate(rows):
        inp = {"history": hist[:i + 1], "source": source}
        if im["out"] != sp["out"] or im["reads"] != sp["reads"]:
            res.disagree("spec", inp, im, mo, sp,
                         note="step %d: implementation differs from the specification (%s)" % (
                             i, "outcome" if im["out"] != sp["out"] else "read counts"))
            return True
        if im != mo:
            res.disagree("model", inp, im, mo, sp, note="step %d: implementation differs from the Lean model" % i)
            return True
    # region of the known finding: stat opened more than once inside a block, probes included
    depth, base = 0, None
    for (o, im, _, _) in rows:
        if o["op"] == "enter":
            if depth == 0:
                base = im["reads"][0] + im["probes"]
            depth += 1
        elif o["op"] == "exit":
            depth -= 1
        if depth > 0 and base is not None and im["reads"][0] + im["probes"] - base > 1:
            res.known_seen[FINDING_PROBE] = res.known_seen.get(FINDING_PROBE, 0) + 1
            break
    for fid in finding_regions(rows):
        res.known_seen[fid] = res.known_seen.get(fid, 0) + 1
    bad = block_read_check(rows)
    if bad:
        res.disagree("spec", {"history": hist[:bad[0] + 1], "source": source}, rows[bad[0]][1], rows[bad[0]][2],
                     rows[bad[0]][3], note="%s read more than once inside one outermost block" % bad[1])
        return True
    return False


def finding_regions(rows):
    """regions of the two recorded deviations from the literal wording of clause 1 (both followed by model AND spec)"""
    seen = set()
    depth = 0
    statm_first = None        # statm version memory_info() was given in the open outermost block
    stat_read = False         # a stat-backed method answered in the open outermost block
    for (o, im, _, _) in rows:
        k = o["op"]
        if k == "enter":
            if depth == 0:
                statm_first, stat_read = None, False
            depth += 1
        elif k == "exit":
            depth = max(0, depth - 1)
        elif k == "call" and depth > 0:
            out = im["out"]
            if out.get("kind") == "ok":
                if o["m"] == "memory_info" and statm_first is None:
                    statm_first = out["value"][0]
                elif o["m"] == "memory_full_info" and statm_first is not None and out["value"][-1] != statm_first:
                    seen.add(FINDING_STATM)
                if o["m"] in STAT_M:
                    stat_read = True
            elif o["m"] == "ppid" and out.get("exc") == "NoSuchProcess" and stat_read:
                seen.add(FINDING_GONE)
    return seen


# ------------------------------------------------------------------------------ every valid as_dict name, nothing stubbed


def _raw(fn):
    try:
        return ("ok", repr(fn()))
    except BaseException as e:  # noqa: BLE001
        if isinstance(e, (KeyboardInterrupt, SystemExit)):
            raise
        return ("exc", type(e).__name__)


WARM = ["name", "num_threads", "memory_maps", "memory_info", "cpu_times", "ppid", "uids"]


def all_names_one(impl, n):
    """`with p.oneshot(): <one reader of every cached record>; <everything changes>; r1 = p.n(); <everything changes>;
    r2 = p.n()` on the REAL method n (nothing stubbed, value not decoded). Oracle, from the statement and the docs only:
    the three records are read by this object's read routines at most once in the block whatever n is; for a method the
    documentation groups with one of them (DOC_GROUPS) or that oneshot() names as cached (FRONT_STATM) the two answers
    are equal (and, where the value can be decoded, equal to the block's first read; fresh again after the block).
    Returns (violated clause or None, details, known finding seen or None)."""
    impl.reset()
    p = impl.p
    det = {"name": n}
    known = None

    def bump_all():
        for s_ in SRCS:
            impl.ver[s_] += 1
            impl._write(s_)
    cm = p.oneshot()
    cm.__enter__()
    try:
        det["warm"] = [_raw(getattr(p, m))[0] for m in WARM]
        bump_all()
        r1 = _raw(getattr(p, n))
        bump_all()
        r2 = _raw(getattr(p, n))
        reads = {s_: impl.reads[s_] for s_ in BLOCK_CACHED}
    finally:
        try:
            cm.__exit__(None, None, None)
        except BaseException as e:  # noqa: BLE001
            return "oneshot().__exit__ raised %s" % type(e).__name__, det, None
    bump_all()
    r3 = _raw(getattr(p, n))
    det.update(first=r1, second=r2, after_exit=r3, reads_in_block=reads)
    if det["warm"] != ["ok"] * len(WARM):
        return "a warm-up call failed in the fake world: %r" % (det["warm"],), det, None
    for s_ in BLOCK_CACHED:
        if reads[s_] > 1:
            return ("%s() made this object's read routines read %s again inside a block in which it had been read "
                    "(%d reads)" % (n, s_, reads[s_])), det, None
    grouped = [g for g, ns in DOC_GROUPS.items() if n in ns] or (["statm"] if n in FRONT_STATM else [])
    if grouped:
        if r1[0] != "ok" or r2[0] != "ok":
            return "%s() (documented as served by the %s record) failed inside the block: %r / %r" % (n, grouped[0], r1, r2), det, None
        if r1 != r2:
            if n == "memory_full_info":
                known = FINDING_STATM          # statm is read again by the platform memory_info(): recorded deviation
            else:
                return ("%s() gave two different answers inside ONE block although its record (%s) was read before both "
                        "calls: %s then %s" % (n, grouped[0], r1[1], r2[1])), det, None
    if n == "memory_percent":
        vals = []
        for r in (r1, r2, r3):
            vals.append(round(float(r[1]), 6) if r[0] == "ok" else None)
        det["decoded"] = vals
        if vals[0] != 1.0 or vals[1] != 1.0:
            return "memory_percent() inside the block is not the block's first statm read (version 1): %r" % (vals,), det, None
        if vals[2] != float(impl.ver["statm"]):
            return "memory_percent() after the block is not fresh: %r at version %d" % (vals[2], impl.ver["statm"]), det, None
    return None, det, known


def all_names_runs(ctx, impl, res):
    bad = sorted(set(impl.valid) & set(NOT_GETTERS))
    res.count("family:valid_names_check")
    if bad:
        res.disagree("spec", {"valid_names": bad}, {"valid": sorted(impl.valid)}, None,
                     {"clause": "as_dict() calls only read-only getters"},
                     note="psutil._as_dict_attrnames contains %r: `p.as_dict()` would CALL it (as_dict()'s documentation: "
                          "'all public (read only) attributes')" % (bad,))
    for n in sorted(impl.valid):
        if n == "pid" or n in NOT_GETTERS:
            continue
        why, det, known = all_names_one(impl, n)
        res.count("family:allnames")
        res.count("allnames_outcome:" + det.get("first", ("?",))[0])
        res.case(("allnames", n), nontrivial=True, sample=det if n in ("status", "memory_percent") else None)
        if known:
            res.known_seen[known] = res.known_seen.get(known, 0) + 1
        if why:
            res.disagree("spec", {"allnames": n}, det, None, {"clause": why},
                         note="every valid as_dict name, real method, twice in one block: " + why)
    impl.reset()


CORPUS = [
    # the at-first-read clause, two sources, a nested block and an exceptional exit
    [{"op": "call", "m": "name"}, {"op": "enter"}, {"op": "call", "m": "name"},
     {"op": "setver", "src": "stat", "v": 5}, {"op": "call", "m": "ppid"}, {"op": "call", "m": "cpu_times"},
     {"op": "enter"}, {"op": "call", "m": "cpu_num"}, {"op": "exit", "exc": False},
     {"op": "setver", "src": "status", "v": 7}, {"op": "call", "m": "username"}, {"op": "call", "m": "gids"},
     {"op": "exit", "exc": True}, {"op": "call", "m": "name"}, {"op": "call", "m": "uids"}],
    # a failed read caches nothing
    [{"op": "enter"}, {"op": "setdenied", "src": "smaps", "b": True}, {"op": "call", "m": "memory_maps"},
     {"op": "setdenied", "src": "smaps", "b": False}, {"op": "setver", "src": "smaps", "v": 3},
     {"op": "call", "m": "memory_full_info"}, {"op": "setver", "src": "smaps", "v": 4},
     {"op": "call", "m": "memory_maps"}, {"op": "exit", "exc": False}, {"op": "call", "m": "memory_maps"}],
    # memory_full_info(): smaps_rollup where the kernel has it (not block-cached: re-read), smaps otherwise (cached helper)
    [{"op": "call", "m": "memory_full_info"}, {"op": "enter"}, {"op": "call", "m": "memory_full_info"},
     {"op": "setver", "src": "smaps_rollup", "v": 4}, {"op": "setver", "src": "smaps", "v": 6},
     {"op": "call", "m": "memory_full_info"}, {"op": "call", "m": "memory_maps"},
     {"op": "setabsent", "src": "smaps_rollup", "b": True}, {"op": "setver", "src": "smaps", "v": 8},
     {"op": "call", "m": "memory_full_info"}, {"op": "exit", "exc": False}, {"op": "call", "m": "memory_full_info"},
     {"op": "setabsent", "src": "smaps_rollup", "b": False}, {"op": "setver", "src": "smaps_rollup", "v": 9},
     {"op": "call", "m": "memory_full_info"}, {"op": "setdenied", "src": "smaps_rollup", "b": True},
     {"op": "call", "m": "memory_full_info"}, {"op": "setstate", "st": "zombie"}, {"op": "call", "m": "memory_full_info"}],
    # zombie inside a block; as_dict policy
    [{"op": "enter"}, {"op": "call", "m": "name"}, {"op": "setstate", "st": "zombie"},
     {"op": "call", "m": "memory_maps"}, {"op": "call", "m": "cmdline"},
     {"op": "asdict", "kind": "names", "raw": ["name", "cmdline", "nice", "pid"], "env": [["nice", "ad"]], "ctor": "list"},
     {"op": "exit", "exc": False}, {"op": "setstate", "st": "gone"}, {"op": "call", "m": "name"},
     {"op": "asdict", "kind": "none", "raw": [], "env": []}],
    # as_dict validation precedes any read
    [{"op": "asdict", "kind": "noncoll", "raw": [], "env": [], "nc": "str"},
     {"op": "asdict", "kind": "names", "raw": ["name", "bogus"], "env": [], "ctor": "tuple"},
     {"op": "asdict", "kind": "names", "raw": [], "env": [["nice", "notimpl"]], "ctor": "list"},
     {"op": "asdict", "kind": "names", "raw": ["nice", "name"], "env": [["nice", "notimpl"]], "ctor": "list"},
     {"op": "asdict", "kind": "names", "raw": ["exe", "name"], "env": [["exe", "nsp"]], "ctor": "set"}],
]


def correspond(ctx, res):
    import time
    from harness.props import c16_sched
    t_start = time.time()
    phase = res.extra.setdefault("phase_wall_s", {})
    impl = Impl(ctx)
    try:
        res.rule = ("sequential: histories from 9 clause-directed families (PRNG from VERIF_SEED) + corpus + an "
                    "exhaustive sweep of all well-nested short histories over {enter, exit, exit-by-exception, "
                    "name(), ppid(), new stat content}; non-trivial = the history has a call inside a block "
                    "after a content change, a nested block, an exceptional exit, a failing read, a zombie/gone "
                    "transition or an as_dict; concurrent: schedules of two real threads (one plain caller, one "
                    "block owner) executed on the step model and on the implementation under the bytecode "
                    "scheduler; distinct = distinct op sequences / schedules")
        hists, tags = [], []
        for h in CORPUS:
            hists.append(h)
            tags.append("corpus")
        n = ctx.n(800, 8000)
        for i in range(n):
            fam = FAMILIES[i % len(FAMILIES)]
            hists.append(gen_history(ctx.rng, impl, fam))
            tags.append(fam)
        n_rand = len(hists)
        maxlen = 4 if ctx.tier == "quick" else 6
        for h in exhaustive_histories(maxlen):
            hists.append(h)
            tags.append("exhaustive")
        n_exh = len(hists) - n_rand
        for h in asdict_enumeration(orders=(ctx.tier == "thorough")):
            hists.append(h)
            tags.append("asdict_enum")
        n_enum = len(hists) - n_rand - n_exh
        total_lines = 0
        CH = 3000
        for a in range(0, len(hists), CH):
            chunk = hists[a:a + CH]
            results, nl = run_histories(ctx, impl, chunk)
            total_lines += nl
            for j, rows in enumerate(results):
                tag = tags[a + j]
                h = chunk[j]
                feats = history_features(h)
                res.count("family:" + tag)
                for f in feats:
                    res.count("feature:" + f)
                res.count("ops", len(h))
                for (o, im, _, _) in rows:
                    if o["op"] in ("call", "asdict"):
                        res.count("outcome:" + (im["out"].get("exc") or im["out"]["kind"]))
                res.case(h, nontrivial=bool(feats - {"block", "exit_normal"}),
                         sample={"family": tag, "history": h, "impl_last": rows[-1][1]} if (a + j) in (0, 3, 6, 9, 12) else None)
                compare(rows, res, tag)
        all_names_runs(ctx, impl, res)
        t_rec = time.time()
        c16_rec.correspond_records(ctx, impl, res)
        phase["records"] = round(time.time() - t_rec, 1)
        t_act = time.time()
        c16_act.correspond_act(ctx, impl, res)
        phase["call_shapes"] = round(time.time() - t_act, 1)
        res.count("probe_opens_total", impl.total_probes + impl.probes)
        res.exhaustive = ("all %d well-nested histories of length <= %d over {enter, exit, exit-by-exception, name(), "
                          "ppid(), new stat content}; as_dict(attrs) for all %d combinations of {every %s of the universe %s} x "
                          "{scripted outcome ok/AccessDenied/ZombieProcess/NoSuchProcess/NotImplementedError of the un-modelled name} x "
                          "{alive, zombie, gone}, every non-collection kind %s and attrs=None/omitted; the random families and the "
                          "schedules are samples"
                          % (n_exh, maxlen, n_enum, "ordered arrangement" if ctx.tier == "thorough" else "subset",
                             ENUM_UNIVERSE, NONCOLL))
        if res.extra.get("rec_exhaustive"):
            res.exhaustive += "; records: " + res.extra["rec_exhaustive"]
        if res.extra.get("act_exhaustive"):
            res.exhaustive += "; call shapes: " + res.extra["act_exhaustive"]
        res.extra["driver_lines"] = total_lines
    finally:
        impl.close()
    phase["sequential"] = round(time.time() - t_start, 1)
    t1 = time.time()
    c16_sched.correspond_concurrent(ctx, res)
    phase["model_following_scheduler"] = round(time.time() - t1, 1)
    t1 = time.time()
    # model-independent bounded-pre-emption exploration (the failing-input search when the bytecode scheduler drifts):
    # a sample on every quick run, every schedule in the thorough tier and during a failing-input search
    from harness.props import c16_preempt
    c16_preempt.explore(ctx, res, full=(ctx.tier == "thorough" or ctx.budget_factor > 1), budget=120)
    phase["explorer"] = round(time.time() - t1, 1)


def search(ctx, res, broken):
    correspond(ctx, res)


def _fails(ctx, impl, hist):
    results, _ = run_histories(ctx, impl, [hist])
    rows = results[0]
    if any(im["out"] != sp["out"] or im["reads"] != sp["reads"] for _, im, _, sp in rows):
        return True
    return block_read_check(rows) is not None


def _well_nested(h):
    d = 0
    for o in h:
        if o["op"] == "enter":
            d += 1
        elif o["op"] == "exit":
            d -= 1
            if d < 0:
                return False
    return True


def shrink(ctx, d):
    from harness.props import c16_sched
    if "preempt" in d["input"]:
        return d
    if "schedule" in d["input"]:
        return c16_sched.shrink(ctx, d)
    if "rec" in d["input"]:
        impl = Impl(ctx)
        try:
            return c16_rec.shrink(ctx, impl, d)
        finally:
            impl.close()
    if "pair_sweep" in d["input"]:
        return d
    if "act" in d["input"]:
        impl = Impl(ctx)
        try:
            return c16_act.shrink(ctx, impl, d)
        finally:
            impl.close()
    hist = d["input"].get("history")
    if not hist:
        return d
    impl = Impl(ctx)
    try:
        small = ddmin(hist, lambda h: _well_nested(h) and _fails(ctx, impl, h), max_tests=80)
        results, _ = run_histories(ctx, impl, [small])
        for i, (o, im, mo, sp) in enumerate(results[0]):
            if im["out"] != sp["out"] or im["reads"] != sp["reads"]:
                return dict(d, input={"history": small[:i + 1], "source": "shrunk"}, impl=im, model=mo, spec=sp)
    finally:
        impl.close()
    return d


def replay(ctx, rp, res):
    from harness.props import c16_sched
    if "preempt" in rp["input"]:
        from harness.props import c16_preempt
        return c16_preempt.replay(ctx, rp, res)
    if "schedule" in rp["input"]:
        return c16_sched.replay(ctx, rp, res)
    if "rec" in rp["input"] or "pair_sweep" in rp["input"]:
        impl = Impl(ctx)
        try:
            if "pair_sweep" in rp["input"]:
                return c16_rec.replay_pair(ctx, impl, rp["input"])
            r = rp["input"]["rec"]
            if not isinstance(r, dict):
                return True
            return c16_rec.fails(ctx, impl, r["line"], r["hist"])[0]
        finally:
            impl.close()
    if "act" in rp["input"]:
        impl = Impl(ctx)
        try:
            a = rp["input"]["act"]
            return c16_act.fails(ctx, impl, a["w"], a["hist"])[0]
        finally:
            impl.close()
    if "allnames" in rp["input"] or "valid_names" in rp["input"]:
        impl = Impl(ctx)
        try:
            if "valid_names" in rp["input"]:
                return bool(set(impl.valid) & set(NOT_GETTERS))
            return all_names_one(impl, rp["input"]["allnames"])[0] is not None
        finally:
            impl.close()
    hist = rp["input"].get("history")
    if not hist:
        return True
    impl = Impl(ctx)
    try:
        return _fails(ctx, impl, hist)
    finally:
        impl.close()


def check_finding(ctx, fnd):
    from harness.props import c16_sched
    w = fnd["witness"]
    if w.get("kind") == "schedule":
        return c16_sched.check_finding(ctx, fnd)
    if "expect" in w:
        # sequential witness with recorded outcomes: reproduces iff the implementation still answers exactly that
        impl = Impl(ctx)
        try:
            impl.reset()
            got = [impl.do(o)["out"] for o in w["history"]]
            return "reproduces" if got == w["expect"] else "gone"
        finally:
            impl.close()
    # sequential witness: total opens of /proc/<pid>/stat inside one block
    impl = Impl(ctx)
    try:
        impl.reset()
        base = None
        worst = 0
        for o in w["history"]:
            r = impl.do(o)
            tot = r["reads"][0] + r["probes"]
            if o["op"] == "enter" and base is None:
                base = tot
            if base is not None:
                worst = max(worst, tot - base)
        return "reproduces" if worst >= w["stat_opens_in_block"] else "gone"
    finally:
        impl.close()
