"""C17 — the C extension is memory-safe and decodes OS records faithfully (level: partial).

Model: lean/PsutilModel/Model/C17.lean (+C17Gen), Spec: Spec/C17.lean, theorems: Props/C17.lean.
Correspondence: the freshly built extension (normal build; in the thorough tier also a clang
ASan+UBSan build) is driven in SUB-PROCESSES (harness/props/c17_worker.py) on crafted utmp files
(utmpname() through ctypes), crafted mounts + filesystems files, an LD_PRELOAD shim that makes
sched_getaffinity() answer EINVAL, and an argument fuzzer over every entry point; decoded records
and exception classes are compared with the Lean model (and the Lean spec); a worker that dies
(signal, sanitizer abort, hang) is an observable and its last input is the replay.
"""
import re

from harness.common.build import InfraError
from harness.common.shrink import ddmin
from harness.props import c17_cases as G
from harness.props import c17_facts
from harness.props import c17_facts_ext
from harness.props import c17_facts_py
from harness.props import c17_facts_r3
from harness.props import c17_facts_thr
from harness.props import c17_ext as X
from harness.props import c17_py as Y
from harness.props import c17_r3 as Z
from harness.props import c17_thr as T
from harness.props import c17_util as U

PROP = "C17"
DRIVER_MODULES = ["PsutilModel.Model.C17Gen", "PsutilModel.Spec.C17", "PsutilModel.Spec.C17Ext", "PsutilModel.Spec.C17Py",
                  "PsutilModel.Spec.C17R3", "PsutilModel.Spec.C17Thr"]
NEEDS_EXT = True
TRUSTED = [
    "C17 is PARTIAL: the theorems are about a Lean model of the decoders (struct utmp layout, C-string reads, the Python filters) and of the bounds arithmetic (PSUTIL_STRNCPY, MAC formatting, affinity loop, CPU_SET, pid range, ioprio packing); memory safety of the COMPILED code is supported by differential testing of the real extension in sub-processes, in the thorough tier under clang AddressSanitizer + UBSan — testing, not proof",
    "regex facts from C (users.c decode calls, PSUTIL_STRNCPY, guards in proc.c, flag table) and system headers (<net/if.h>, <netdb.h> NI_MAXHOST, <bits/cpu-set.h>): a shape the regex does not recognise is skipped (baseline kept) and then only the correspondence ties it — EXCEPT the users.c decode shape (round 2: total extractor, any other shape changes the fact and ushape_good fails)",
    "round 2: RootFsDeviceFinder, net_if_stats() and net_if_addrs() are modelled on ASCII text ('\\r'-free files, str.isdigit()+int() on ASCII digits); the kernel-consistent tree of C17_rootfs_* is a definition (Spec.Consistent: one device list rendered through the kernel's three printf formats, unique device numbers); os.stat('/'), glob order and os.path.exists are inputs of the model",
    "glibc (getutent record chunking, getmntent escape decoding and 4095-byte line cut, CPU_SET bounds check, strncpy, sprintf) and CPython's PyArg_ParseTuple format units are modelled/independently re-implemented in the harness and validated by the correspondence, not verified",
    "extension round: libc's getnameinfo(NI_NUMERICHOST) text, fgets/getmntent line handling and va_arg widths behind Py_BuildValue are modelled explicitly (oracle / named definitions) and validated by the shim-driven correspondence; the shim (harness/props/c17_util.py SHIM2_C) stands in for the kernel's getifaddrs/ioctl/sysinfo answers",
    "threads (seeded round 5): the static object is modelled as ONE whole record (a torn read of a half-parsed buffer is not modelled: the model is kinder to the code than the machine); the GIL is the only lock and a thread owns it from entry to return except inside the windows the translator finds (CPython 3.12: allocations do not run the garbage collector, so no Python code runs inside the decoders); the list of libc functions that answer through a static object (Thr.nonReentrant, attributes(7)) is a definition; the scripted schedules rely on /proc/<pid>/task/<tid>/syscall and on CPython handing the GIL to a waiter that has asked for it when the owner opens a window (switch interval 0.3 ms); the users() side is only stressed (its file position lives in libc, a pipe cannot stand in for utmp)",
    "PYTHONUTF8=1: bytes <-> str through surrogateescape is a bijection (modelled as identity on bytes); mnt_type / mnt_opts go through strict UTF-8 ('s' format): invalid UTF-8 there is a UnicodeDecodeError (an exception, allowed by the property), checked but outside the Lean model",
]
ASSUMPTIONS = [
    "getifaddrs(3) contract (glibc ifaddrs.c): every sockaddr of the list lives in an object large enough for its family (16 / 28 bytes; link level: 12 + sll_halen), netmask / broadcast / destination have the family of the address they belong to, numeric host texts are shorter than NI_MAXHOST; mounts lines longer than 4095 bytes are cut by libc (measured buffer: mntLibcBuf)",
    "struct utmp layout of glibc on x86-64 (384 bytes, 32-bit ut_tv); /proc/filesystems lines are '[nodev]\\t<name>' with names free of whitespace and, for disk-backed types, not starting with 'nodev' (otherwise line.split('\\t')[1] raises IndexError — proved as the model's behaviour, no such type exists)",
    "mounts files without NUL bytes for the exact comparison (a NUL makes glibc's getmntent drop the rest of the line and the next line); NUL/garbage files are still fed under the no-crash oracle",
]
MANIFEST = {
    "level_text": "PARTIAL. Machine-checked Lean 4 theorems over a byte-level MODEL of the extension's decoders and bounds logic: C17_users_fields_cut (users() over every utmp file = the USER_PROCESS records with user/terminal/host cut at the first NUL or at the field width, ':0'/':0.0' as localhost, start time, PID) and C17_users_read_in_record (every string read stays inside the 384-byte record) for the size-bounded decode, both DISPROVED for the unbounded PyUnicode_DecodeFSDefault decode by the full-width record (lead L14: 341-char name; the code as found, fixed in /repo by a15d2eb); C17_filesystems_parse + C17_partitions_filter (+ _kept_iff, _all); C17_strncpy_terminated; C17_mac_fits; C17_affinity_no_overflow (loop never multiplies past INT_MAX and terminates, any kernel answers); C17_cpuset_in_bounds / C17_affinity_set_in_bounds (CPU_SET on any C long); C17_pid_range; C17_ioprio_no_overflow, C17_ioprio_entry_defined, C17_ioprio_reach (no ioclass reaches an undefined shift once a range check exists; counterexample ionice(2**18, 0) without it, lead L15, fixed in /repo by f6216f8); C17_iff_table / C17_iff_flag_names / C17_iff_documented. Which variant the source uses is re-extracted on every run (regex over users.c, proc.c, _psutil_common.h, _psutil_posix.c; ast over _pslinux.py) and feeds the proof obligations ucfg_good … icfg_safe. Memory safety of the COMPILED C is NOT proved: it is supported by a differential run of the real extension in sub-processes — crafted utmp files via utmpname(), crafted mounts/filesystems files, a sched_getaffinity EINVAL shim, exhaustive ioprio/pid edge grids and an argument fuzzer over every entry point — compared with the model's decoding, where a crash, hang or sanitizer report is a violation; the thorough tier repeats it on a clang -fsanitize=address,undefined build. That part is testing. EXTENSION ROUND (Model/C17Ext.lean, 22 more theorems): C17_ifaddrs_rows (net_if_addrs over every getifaddrs() list honouring libc's object contract = getifaddrs(3)'s reading: broadcast iff IFF_BROADCAST, ptp iff IFF_POINTOPOINT and not broadcast, NULL / unshowable addresses dropped) and C17_ifaddrs_reads_in_object; C17_ifr_name_bounded (the NIC name reaches ifr_name[IFNAMSIZ] cut to 15 bytes and terminated, for the four ifreq entry points) and C17_ifr_running; C17_mntent_line_whole (every mounts line of up to 4095 bytes reaches the field decoder whole when the getmntent buffer in effect is >= 4096; the 1024-byte getmntent_r buffer of seeded change C17-1 is the proved counterexample) and C17_mntent_tuple (the render->decode round trip of the fields, C17_mntent_roundtrip_Full, is PROVED in round 2); C17_sysinfo_tuple (every Py_BuildValue unit of linux_sysinfo matches the width of its struct sysinfo member: no truncation for any value); C17_getpriority_errno_independent (with errno cleared before getpriority(2) the result is the kernel's answer for EVERY errno value on entry; counterexample without the reset = seeded C18-1) plus the obligation that no other Linux entry point uses errno as a discriminator. These are tied to the real code by an LD_PRELOAD shim that scripts getifaddrs(), the SIOCGIF*/SIOCETHTOOL ioctls (logging the ifr_name bytes each call carried) and sysinfo(), by nice values set on a sacrificial child, and by a stale errno poisoned into the thread's errno before every fuzzed call. ROUND 2 (Model/C17Py.lean, 30 more theorems; incl. C17_ioprio_applied_is_passed: the ioprio word handed to the kernel is built from the ints the caller passed, with the format units of EVERY PyArg_ParseTuple call pinned by parse_formats_good - counterexample for the unchecked unit I = seeded C17-3): C17_mntent_roundtrip (render -> getmntent decode is the identity for EVERY mount entry, the escaped characters space/tab/newline/backslash included) and C17_mac_text (the sprintf/ptr loop as transcribed yields xx:xx:...:xx, two lower-case hex digits per byte, 3n-1 characters, for every address of up to 255 bytes) are now proved instead of tested; the decode SHAPE of users.c is a total translator fact (the text of the expression behind each string slot, every call touching ut_user/ut_line/ut_host, char locals) with the obligation ushape_good, so that any decoding other than PyUnicode_DecodeFSDefaultAndSize(ut->F, strnlen(ut->F, sizeof(ut->F))) stops the build (seeded C17-2), and C17_users_fields_cut_shape is the users() theorem for exactly that shape; the Python-side wrappers are modelled and proved: C17_rootfs_strategies_agree / C17_rootfs_find (RootFsDeviceFinder: on every tree in which /proc/partitions, /sys/dev/block/M:m/uevent and /sys/class/block/*/dev show the same devices the three strategies give the same answer, and find() returns the root device's /dev path iff it exists), C17_netifstats_rows (net_if_stats() for every list of NICs and every success/errno combination of the three ioctls: ENODEV NICs left out, other errors raised, isup = IFF_RUNNING, documented duplex, 32-bit speed, mtu, comma-joined flag names; an undefined duplex byte gives KeyError - stated as the code's behaviour), C17_netifaddrs_mac_padding and C17_netifaddrs_grouping (psutil.net_if_addrs(): per NIC its rows, stable sort by family, AF_LINK text completed to 6 groups). Each is driven on the REAL code path: RootFsDeviceFinder over scripted /proc + /sys trees (glob order scripted), psutil.net_if_stats() over a scripted /proc/net/dev with per-NIC, per-ioctl scripted answers, psutil.net_if_addrs() over scripted getifaddrs() lists. THREADS (seeded round 5, Model/C17Thr.lean): C17_thread_rows_own — a small-step model of any number of threads inside a loop that decodes records handed out through ONE process-wide static object of libc (getmntent, getutent), the GIL being the only lock: for every number of threads, every file per thread and every schedule, with no GIL window around the static-result call and none between the call and the decode, what a call has built is always a beginning of ITS OWN file's records and, once returned, exactly those records (schedule independence: C17_thread_schedule_independent); both window placements are DISPROVED on two-thread schedules (C17_thread_released_call_counterexample = seeded C17-5, C17_thread_window_counterexample). Which placement the source has is a total translator fact: every call made inside a GIL window of any C function of the Linux build, whatever the spelling of the window and through psutil helpers (gil_released_calls_good: none of them is in the MT-Unsafe static-object set), and the release/acquire/produce/use events of every function that makes such a call (gil_loops_good). Tied to the real extension by n threads inside cext.disk_partitions() at once, each on its own pipe, fed line by line under scripted schedules with a quiescence rendezvous (every thread of the worker asleep in a system call, read from /proc) and a thread that owns the GIL on command, plus a k-thread stress of disk_partitions() / users().",
    "level_note": "Trusted: Lean kernel + {propext, Classical.choice, Quot.sound}; regex/ast translator; glibc/CPython semantics re-implemented in the harness (getmntent decoding, PyArg format units); the struct utmp layout; sanitizer coverage is only as good as the inputs explored. net_if_addrs()/net_if_stats() vs /sys/class/net and socket.if_nameindex() on the live interfaces is a supporting check (the sandbox has 4 NICs). Extension round: getnameinfo's numeric text is an oracle of the model (independent rendering in the harness); socket struct sizes and C type widths are ABI tables in the translator; libc's getmntent line buffer (4096) is MEASURED by a probe at translation time; the getifaddrs shim replaces the kernel, so libc's allocation contract for the sockaddr objects (Spec.SockWF) is an assumption.",
    "technique": "Lean 4 proofs over byte-level decoder/bounds models + translator-fed proof obligations + sub-process differential testing of the compiled extension (ASan+UBSan in the thorough tier)",
    "design_ref": "DESIGN.md §5 C17",
}


def facts(snap, F):
    c17_facts.facts(snap, F)
    c17_facts_ext.facts(snap, F, c17_facts.c_source, c17_facts.c_function, c17_facts.LINUX_C)
    c17_facts_py.facts(snap, F, c17_facts.c_source, c17_facts.c_function)
    c17_facts_r3.facts(snap, F, c17_facts.c_source, c17_facts.LINUX_C)
    c17_facts_thr.facts(snap, F, c17_facts.c_source, c17_facts.LINUX_C)


# ====================================================================== entry-point formats (harness-level, from the C source)

def entry_formats(snap):
    """entry point name -> PyArg_ParseTuple format ('*' = arguments ignored), from the method tables."""
    out = {}
    srcs = {}
    for rel in c17_facts.LINUX_C:
        try:
            srcs[rel] = c17_facts.c_source(snap, rel)
        except OSError:
            pass
    allsrc = "\n".join(srcs.values())
    for mod, rel in (("linux", "_psutil_linux.c"), ("posix", "_psutil_posix.c")):
        for name, cfn in re.findall(r"\{\s*\"(\w+)\"\s*,\s*(\w+)\s*,\s*METH_VARARGS", srcs.get(rel, "")):
            try:
                body = c17_facts.c_function(allsrc, cfn)
            except Exception:
                continue
            m = re.search(r"PyArg_ParseTuple\s*\(\s*args\s*,\s*((?:_Py_PARSE_PID|\"[^\"]*\"|\s)+),", body)
            if not m:
                out[(mod, name)] = "*"
                continue
            toks = re.findall(r"_Py_PARSE_PID|\"[^\"]*\"", m.group(1))
            fmt = "".join("i" if t == "_Py_PARSE_PID" else t.strip('"') for t in toks)
            out[(mod, name)] = fmt
    return out


INTLIKE = {"int", "bool", "idx", "intsub", "pid", "pidplus"}
# PyArg_ParseTuple integer units: (lo, hi) of the CHECKED converters, (None, None) for the unchecked ones
INT_UNITS = {"i": (-2**31, 2**31 - 1), "l": (-2**63, 2**63 - 1), "L": (-2**63, 2**63 - 1), "n": (-2**63, 2**63 - 1),
             "h": (-2**15, 2**15 - 1), "b": (0, 255),
             "I": (None, None), "k": (None, None), "K": (None, None), "H": (None, None), "B": (None, None)}


def arg_int(a):
    if a["t"] == "bool":
        return 1 if a["v"] else 0
    if a["t"] == "pidplus":
        return {"child": 1000, "nopid": 4194304 + 77}[a["v"]] + int(a["k"])
    if a["t"] == "pid":
        return {"child": 1000, "self": 1000, "zero": 0, "nopid": 4194304 + 77}[a["v"]]   # magnitude class only
    return int(a["v"])


def predict_parse(fmt, args):
    """Exception class PyArg_ParseTuple raises for these arguments, or None when parsing succeeds."""
    if fmt == "*":
        return None
    units = list(fmt)
    if len(args) != len(units):
        return "TypeError"
    for u, a in zip(units, args):
        if u in INT_UNITS:
            if a["t"] not in INTLIKE:
                return "TypeError"
            v = arg_int(a)
            lo, hi = INT_UNITS[u]
            if lo is not None and (v > hi or v < lo):
                return "OverflowError"         # checked converters only; B H I k K reduce the value silently
        elif u == "s":
            if a["t"] != "str":
                return "TypeError"
            if "\0" in a["v"]:
                return "ValueError"
            if any(0xD800 <= ord(ch) <= 0xDFFF for ch in a["v"]):
                return "UnicodeEncodeError"
    return None


def seq_items(a):
    """items of a Python argument as cpu_affinity_set iterates it: list of ints/None, or an exception class"""
    t = a["t"]
    if t in ("list", "tuple"):
        return [(arg_int(x) if x["t"] in ("int", "bool", "idx", "intsub") else None) for x in a["v"]]
    if t == "range":
        return list(range(int(a["v"])))
    if t == "bytes":
        return list(bytes.fromhex(a["v"]))
    if t == "str":
        return [None] * len(a["v"])
    if t == "badseq":
        return "KeyError" if int(a["v"]) > 0 else []
    return "TypeError"


# ====================================================================== comparison of one case

class Run:
    """One correspondence pass over a build (normal or sanitizer)."""

    def __init__(self, ctx, res, pkg_parent, env_extra, tag):
        self.ctx, self.res, self.tag = ctx, res, tag
        # every worker runs with the shim2 preload (scripted getifaddrs / ioctl / sysinfo; inactive without a script file)
        env = dict(env_extra or {})
        pre = env.get("LD_PRELOAD")
        env["LD_PRELOAD"] = (pre + ":" if pre else "") + U.build_shim2()
        self.pkg_parent, self.env_extra = pkg_parent, env
        self.w = U.Worker(pkg_parent, env, timeout=60 if env_extra else 30)
        self.crashes = 0
        self.crash_sites = {}

    def close(self):
        self.w.close()

    def ask(self, cmd, inp, finding=None, note=None):
        """Worker reply, or None after recording the crash as a spec disagreement (tagged with `finding` when the caller
        knows the model of the current source is undefined on this input because of a listed finding)."""
        try:
            return self.w.ask(cmd)
        except U.Crash as c:
            self.crashes += 1
            self.res.count("crash:" + self.tag)
            rep = [l for l in c.stderr_tail.split("\n") if "runtime error" in l or "ERROR: AddressSanitizer" in l or "SUMMARY" in l][:4]
            site = (rep[0] if rep else c.status)[:160]
            self.crash_sites[site] = self.crash_sites.get(site, 0) + 1
            self.res.extra.setdefault("crash_sites", {})[self.tag + ": " + site] = self.crash_sites[site]
            if finding is not None:
                self.res.known_seen[finding] = self.res.known_seen.get(finding, 0) + 1
            if self.crash_sites[site] > 2 and finding is None:
                return None          # same report again: counted, not listed again (keeps exploring other sites)
            self.res.disagree("spec", dict(inp, build=self.tag), {"kind": "crash", "status": c.status, "sanitizer": rep,
                                                                 "stderr_tail": c.stderr_tail[-600:]},
                              None, {"kind": "value-or-python-exception"},
                              note=(note + "; " if note else "") + "the extension killed / hung the interpreter on this input (%s build)" % self.tag,
                              finding=finding)
            return None


def canon_users_case(case):
    return {"family": case["family"], "recs": [U.ut_json(r) for r in case["recs"]], "trail": case["trail"].hex()}


def users_line(case, emit=False):
    d = {"op": "users", "recs": [U.ut_json(r) for r in case["recs"]], "trail": case["trail"].hex(), "beyond": ""}
    if emit:
        d["emit"] = True
    return d


def rows_from_json(rows):
    out = []
    for r in rows:
        out.append([(None if v is None else (v["s"] if "s" in v else v["i"])) for v in r])
    return out


def compare_users(run, case, m):
    """m = driver answer for users_line(case)."""
    res = run.res
    inp = dict(canon_users_case(case), kind="users")
    file = b"".join(U.ut_pack(r) for r in case["recs"]) + case["trail"]
    if "file" in m["model"] and m["model"]["file"] != file.hex():
        res.disagree("model", inp, file.hex()[:80], m["model"]["file"][:80], None,
                     note="Lean Spec.render differs from struct.pack of the same record (renderer validation)")
        return
    rep = run.ask({"cmd": "users", "file": file.hex()}, inp)
    if rep is None:
        return
    model_rows = rows_from_json(m["model"]["rows"])
    spec_rows = rows_from_json(m["spec"]["rows"])
    overrun = any(s > 384 for s in m["model"]["reads"])
    impl = rep["rows"]
    feats = set()
    for r in case["recs"]:
        if r["typ"] == 7:
            for k, w in (("user", 32), ("line", 32), ("host", 256)):
                if b"\0" not in r[k]:
                    feats.add("full_" + k)
            if r["host"].split(b"\0")[0] in (b":0", b":0.0"):
                feats.add("localhost")
            if r["line"][:1] == b"\0":
                feats.add("empty_tty")
        else:
            feats.add("other_type")
    if case["trail"]:
        feats.add("partial_tail")
    for f in feats:
        res.count("users:" + f)
    res.count("users_family:" + case["family"])
    res.case(("users", file), nontrivial=bool(feats), sample=None)
    if impl != spec_rows:
        note = "users() differs from the specification (fields cut at their width, ':0'/':0.0' -> localhost, USER_PROCESS only)"
        if overrun:
            note += "; the model of the current source reads past the record (max read index %d > 384)" % max(m["model"]["reads"])
        res.disagree("spec", inp, impl, model_rows, spec_rows, note=note)
        return
    if overrun:
        # impl == spec although the model says the source reads past the record: only possible when
        # the bytes behind the record happen to be NUL — still a read outside the record
        res.disagree("spec", inp, impl, model_rows, spec_rows,
                     note="model of the current source: string read runs past the 384-byte record (index %d)" % max(m["model"]["reads"]))
        return
    if impl != model_rows:
        res.disagree("model", inp, impl, model_rows, spec_rows, note="users() differs from the Lean model")
        return
    if isinstance(rep.get("raw"), list) and len(rep["raw"]) != len(impl):
        res.disagree("model", inp, rep["raw"], model_rows, spec_rows, note="cext.users() and psutil.users() row counts differ")


def part_lines(case, decoded):
    mn = [[a.hex(), b.hex(), c.hex(), d.hex()] for a, b, c, d in decoded]
    fsents = [[bool(nd), n.hex()] for nd, n in (case["fsents"] or [])]
    root = None if case["root"] is None else case["root"].hex()
    return [{"op": "partitions", "all": al, "fs": case["filesystems"].hex(), "fsents": fsents, "root": root, "mnts": mn}
            for al in (False, True)]


def canon_part_case(case):
    return {"kind": "partitions", "family": case["family"], "mounts": case["mounts"].hex(), "filesystems": case["filesystems"].hex(),
            "fsents": None if case["fsents"] is None else [[bool(nd), n.hex()] for nd, n in case["fsents"]],
            "root": None if case["root"] is None else case["root"].hex()}


def compare_partitions(run, case, decoded, m_phys, m_all, m_mnt=None, m_e2e=None):
    res = run.res
    inp = canon_part_case(case)
    rep = run.ask({"cmd": "partitions", "mounts": case["mounts"].hex(), "filesystems": case["filesystems"].hex(), "all": [False, True],
                   "root": inp["root"]}, inp)
    if rep is None:
        return
    res.count("part_family:" + case["family"])
    exact = decoded is not None
    nontriv = False
    if exact:
        bad_utf8 = any(not (U.utf8_ok(t) and U.utf8_ok(o)) for _, _, t, o in decoded)
        want_raw = [[a.hex(), b.hex(), t.hex(), o.hex()] for a, b, t, o in decoded]
        if bad_utf8:
            res.count("part:nonutf8")
            ok = isinstance(rep["raw"], dict) and rep["raw"].get("exc") == "UnicodeDecodeError"
            if not ok:
                res.disagree("model", inp, rep["raw"], {"kind": "exc", "exc": "UnicodeDecodeError"}, None,
                             note="mnt_type/mnt_opts with invalid UTF-8: expected UnicodeDecodeError from the 's' format")
            res.case(("part", case["mounts"], case["filesystems"]), nontrivial=True)
            return
        if rep["raw"] != want_raw:
            res.disagree("spec", inp, rep["raw"] if isinstance(rep["raw"], dict) else rep["raw"][:6], want_raw[:6], want_raw[:6],
                         note="cext.disk_partitions() differs from the independent decoding of the same mounts file")
            return
        if m_mnt is not None:
            res.count("part:lean_getmntent")
            if m_mnt["model"] != want_raw:
                bad = [i for i, (a, b) in enumerate(zip(m_mnt["model"], want_raw)) if a != b][:1] or [min(len(m_mnt["model"]), len(want_raw))]
                res.disagree("model", inp, rep["raw"][bad[0]:bad[0] + 2], m_mnt["model"][bad[0]:bad[0] + 2], want_raw[bad[0]:bad[0] + 2],
                             note="Lean model of disk.c over getmntent (Model/C17Ext §13) differs from cext.disk_partitions() at entry %d" % bad[0])
                return
        for key, m in (("phys", m_phys), ("all", m_all)):
            im = rep[key]
            mo, sp = m["model"], m["spec"]
            if case["fsents"] is None and key == "phys":
                sp = None            # malformed /proc/filesystems: no kernel-format entries to define the spec from
            if sp is not None and (im.get("kind") != "ok" or im["rows"] != sp["rows"]):
                res.disagree("spec", dict(inp, all=(key == "all")), _short(im), _short(mo), _short(sp),
                             note="disk_partitions(all=%s) differs from the specification" % (key == "all"))
                return
            if im.get("kind") != mo.get("kind") or (im.get("kind") == "ok" and im["rows"] != mo["rows"]) \
                    or (im.get("kind") == "exc" and im.get("exc") != mo.get("exc")):
                res.disagree("model", dict(inp, all=(key == "all")), _short(im), _short(mo), _short(sp),
                             note="disk_partitions(all=%s) differs from the Lean model" % (key == "all"))
                return
        if m_e2e is not None:
            res.count("part:lean_end_to_end")
            for key, m in (("phys", m_e2e[0]), ("all", m_e2e[1])):
                im, mo = rep[key], m["model"]
                if im.get("kind") != mo.get("kind") or (im.get("kind") == "ok" and im["rows"] != mo["rows"]) \
                        or (im.get("kind") == "exc" and im.get("exc") != mo.get("exc")):
                    res.disagree("model", dict(inp, all=(key == "all")), _short(im), _short(mo), None,
                                 note="disk_partitions(all=%s) differs from the Lean text-to-rows model (diskPartitionsPy: /proc/filesystems text + "
                                      "mounts lines through getmntent, the 4-tuple unpack and the filter)" % (key == "all"))
                    return
        nontriv = len(decoded) > 0
        if any(d[0] in (b"/dev/root", b"rootfs") for d in decoded):
            res.count("part:rootalias")
        if any(d[0] == b"none" for d in decoded):
            res.count("part:none_device")
        if b"\\" in case["mounts"]:
            res.count("part:escapes")
        if any(len(l) > 4095 for l in case["mounts"].split(b"\n")):
            res.count("part:long_line")
        if m_phys["model"].get("kind") == "exc":
            res.count("part:IndexError")
        res.count("part:entries", len(decoded))
    else:
        res.count("part:hostile_nocrash")
    res.case(("part", case["mounts"], case["filesystems"], case["root"]), nontrivial=nontriv)


def _short(o):
    if isinstance(o, dict) and isinstance(o.get("rows"), list) and len(o["rows"]) > 8:
        return dict(o, rows=o["rows"][:8] + ["… %d rows" % len(o["rows"])])
    return o


def outcome_class(rep):
    if rep.get("kind") == "exc":
        return "OSError" if rep.get("oserror") and not rep.get("psutil") else rep["exc"]
    return "value"


def compare_call(run, call, pred, lean):
    """pred: exception class expected from argument parsing (or None); lean: driver answer or None."""
    res = run.res
    inp = {"kind": "call", "call": call}
    rep = run.ask(dict(call, cmd="call"), inp)
    if rep is None:
        return
    got = outcome_class(rep)
    fn = call["fn"]
    res.count("fuzz:" + fn)
    res.count("fuzz_outcome:" + got)
    res.case(("call", repr(call)), nontrivial=True)
    if rep.get("kind") == "bad-arg":
        raise InfraError("C17 worker could not build argument: %r" % rep)
    # every integer parameter of the Linux extension is a pid_t / C int: a Python int outside that range must end in an
    # exception — a call that RETURNS for such an argument has silently reduced it (unchecked converter)
    fmt_units = call.get("units")
    if fmt_units and got == "value" and len(fmt_units) == len(call["args"]):
        for k, (u, a) in enumerate(zip(fmt_units, call["args"])):
            if u in INT_UNITS and a["t"] in ("int", "idx", "intsub", "pidplus") and not (-2**31 <= arg_int(a) <= 2**31 - 1):
                res.disagree("spec", inp, rep, lean["model"] if lean else None,
                             {"kind": "exc", "exc": "OverflowError", "why": "argument %d = %s is outside the C int range" % (k, arg_int(a))},
                             note="%s(%s): integer argument %d is outside the range of its C type, yet the call returned: the value was silently "
                                  "reduced (format unit %r) and applied%s" % (
                                      fn, ", ".join(str(x.get("v")) for x in call["args"]), k, u,
                                      "; kernel state read back: ioprio (class, data) = %r" % (rep.get("ioprio"),) if "ioprio" in rep else
                                      ("; nice read back = %r" % (rep.get("nice"),) if "nice" in rep else "")))
                return
    if pred is not None:
        if got != pred:
            res.disagree("model", inp, rep, {"kind": "exc", "exc": pred}, {"kind": "value-or-python-exception"},
                         note="argument parsing: expected %s" % pred)
        return
    if lean is None:
        return
    mo = lean["model"]
    sp = lean.get("spec") or {}
    if isinstance(sp, dict) and sp.get("applied_is_passed") is False:
        res.disagree("spec", inp, rep, mo, {"applied_is_passed": True},
                     note="model of the current source: %s hands the kernel a class/data pair that is NOT the pair the caller passed (the Python int is "
                          "reduced modulo 2**32 by an unchecked format unit and then passes the range check); kernel state read back: %r" % (fn, rep.get("ioprio")))
        return
    if mo.get("kind") == "ub":
        res.disagree("spec", inp, rep, mo, {"kind": "value-or-python-exception, no undefined behaviour"},
                     note="model of the current source: this call evaluates a signed left shift whose result is not representable in int (undefined behaviour; UBSan reports it)")
        return
    if mo.get("kind") == "oob":
        res.disagree("spec", inp, rep, mo, None, note="model of the current source: store outside cpu_set_t")
        return
    if mo.get("kind") == "exc":
        if got != mo["exc"]:
            res.disagree("model", inp, rep, mo, None, note="%s: exception class differs from the Lean model" % fn)
        return
    if mo.get("kind") == "none":
        if got != "value":
            res.disagree("model", inp, rep, mo, None, note="%s: model says None is returned" % fn)
        return
    if mo.get("kind") == "syscall":
        if got not in ("value", "OSError"):
            res.disagree("model", inp, rep, mo, None, note="%s: expected a value or OSError after a successful parse" % fn)
        elif got == "value" and isinstance(rep.get("ioprio"), list) and call["args"][0].get("v") == "child":
            cls = mo["packed"] >> 13
            if cls in (1, 2, 3) and rep["ioprio"][0] != cls:
                res.disagree("model", inp, rep, mo, None, note="%s returned, but the I/O class read back from the kernel is not the class the model packed" % fn)
            else:
                res.count("fuzz:ioprio_readback")
        return
    if mo.get("kind") == "mask":
        first = call["args"][0]
        if first.get("t") == "pid" and first["v"] == "child":
            allc = rep.get("all_cpus", [])
            want = sorted(set(mo["cpus"]) & set(allc))
            if not want:
                if got != "OSError":
                    res.disagree("model", inp, rep, mo, None, note="empty effective CPU mask: expected OSError(EINVAL)")
            elif got != "value" or rep.get("affinity") != want:
                res.disagree("model", inp, rep, dict(mo, effective=want), None,
                             note="cpu_affinity_set: resulting affinity differs from the model's mask ∩ online CPUs")
        elif got not in ("value", "OSError"):
            res.disagree("model", inp, rep, mo, None, note="expected a value or OSError")


# ====================================================================== the correspondence

def lean_for_call(call, fmt):
    """Driver line that models this call beyond argument parsing (or None)."""
    fn, args = call["fn"], call["args"]

    def j(a):
        return arg_int(a) if a["t"] in INTLIKE else None
    if fn == "check_pid_range" and len(args) == 1:
        return {"op": "pid", "arg": j(args[0])}
    if fn == "proc_ioprio_set" and len(args) == 3:
        return {"op": "ioprio_ext", "pid": j(args[0]), "cls": j(args[1]), "data": j(args[2])}
    if fn == "proc_cpu_affinity_set" and len(args) == 2:
        it = seq_items(args[1])
        if isinstance(it, str):
            return {"_pred": it}
        return {"op": "affset", "items": it}
    return None


def grids():
    cls = [2**18, -2**31 - 1, -2**31, -2, -1, 0, 1, 2, 3, 4, 7, 8, 9, 2**13, 2**17, 2**18 - 1, 2**18 + 1, 2**30, 2**31 - 1, 2**31, 2**63, 2**64]
    val = [None, -2**31 - 1, -1, 0, 1, 3, 7, 8, 8191, 8192, 2**31 - 1, 2**31]
    pid = [-2**64, -2**63, -2**31 - 1, -2**31, -2**31 + 1, -2, -1, 0, 1, 2, 2**15, 2**22, 2**31 - 2, 2**31 - 1, 2**31, 2**31 + 1, 2**32, 2**63, 2**64]
    return cls, val, pid


def correspond(ctx, res):
    res.rule = ("crafted utmp files (7 clause families + corpus incl. the L14 witness), crafted mounts/filesystems files "
                "(9 families), n threads inside cext.disk_partitions() at once on pipes fed by scripted schedules with quiescence rendezvous "
                "(structured + random + all 4-step scripts) and a k-thread stress of disk_partitions()/users(), exhaustive ioprio class×value and pid edge grids, sched_getaffinity EINVAL shim, argument fuzzer "
                "over every entry point of both extension modules, live NICs vs sysfs; all in sub-processes. "
                "non-trivial = users file with a USER_PROCESS/full-width/localhost/partial feature, mounts file with ≥1 entry, "
                "every fuzz call; distinct = distinct file bytes / call tuples")
    builds = [("std", ctx.snap.dir, None)]
    san_parent = None
    if ctx.tier == "thorough":
        san_parent, cached = U.sanitizer_package(ctx.snap)
        builds.append(("asan+ubsan", san_parent, U.sanitizer_env()))
        res.extra["sanitizer_build_cached"] = cached
        res.extra["sanitizer_build"] = {"cc": "clang", "cflags": U.SAN_CFLAGS, "env": {k: v for k, v in U.sanitizer_env().items()},
                                        "extension_objects": sorted(f for f in __import__("os").listdir(__import__("os").path.join(san_parent, "psutil")) if f.endswith(".so"))}
    fmts = entry_formats(ctx.snap)
    res.extra["entry_formats"] = {"%s.%s" % k: v for k, v in sorted(fmts.items())}
    try:
        for tag, parent, env in builds:
            run = Run(ctx, res, parent, env, tag)
            try:
                one_build(ctx, res, run, fmts, first=(tag == "std"))
            finally:
                run.close()
            res.extra.setdefault("crashes", {})[tag] = run.crashes
            res.extra.setdefault("worker_restarts", {})[tag] = run.w.restarts
    finally:
        if san_parent:
            import shutil
            shutil.rmtree(san_parent, ignore_errors=True)


def one_build(ctx, res, run, fmts, first):
    rng = ctx.rng
    drv = ctx.driver()
    lines, todo = [], []          # todo: (kind, payload, line indices)

    def add(line):
        lines.append(line)
        return len(lines) - 1

    # ---------------------------------------------------------------- users
    ucases = G.users_corpus()
    n_u = ctx.n(700, 6000) if first else ctx.n(700, 3000)
    for i in range(n_u):
        ucases.append(G.gen_users_case(rng, G.USERS_FAMILIES[i % len(G.USERS_FAMILIES)]))
    for i, c in enumerate(ucases):
        todo.append(("users", c, add(users_line(c, emit=(i < 25)))))
    # ---------------------------------------------------------------- partitions
    pcases = G.part_corpus()
    n_p = ctx.n(300, 2500) if first else ctx.n(300, 1200)
    for i in range(n_p):
        pcases.append(G.gen_part_case(rng, G.PART_FAMILIES[i % len(G.PART_FAMILIES)]))
    for c in pcases:
        dec = U.getmntent_decode(c["mounts"]) if b"\0" not in c["mounts"] else None
        if dec is None:
            todo.append(("part", (c, None), None))
        else:
            pl = part_lines(c, dec)
            mi = add(X.mnt_line_for(c["mounts"])) if len(c["mounts"]) <= MNT_MODEL_MAX else None
            ei = None
            if len(c["mounts"]) <= Z.E2E_MAX and all(U.utf8_ok(t) and U.utf8_ok(o) for _, _, t, o in dec):
                el = Z.e2e_lines(c, X.mnt_line_for)
                ei = (add(el[0]), add(el[1]))
            todo.append(("part", (c, dec), (add(pl[0]), add(pl[1]), mi, ei)))
    # ---------------------------------------------------------------- seeded round 5: several threads inside the extension at once
    for c in T.sched_cases(ctx):
        ln, _ = T.model_sched(c)
        todo.append(("mt_sched", c, add(ln)))
    for c in T.stress_cases(ctx):
        todo.append(("mt_stress", c, None))
    eps = run.ask({"cmd": "entrypoints"}, {"kind": "entrypoints"}) or {}
    names = [(m, f) for m in ("linux", "posix") for f in eps.get(m, [])]
    res.extra["entry_points"] = ["%s.%s" % x for x in names]
    unknown = [x for x in names if x not in fmts]
    if unknown:
        res.notes.append("entry points without a recognised PyArg_ParseTuple format (fuzzed under the no-crash oracle only): %s" % unknown)
    # wrap-around family: for every integer parameter of every entry point, values congruent modulo 2**32 / 2**64 to valid and
    # boundary values, and the powers of two ± 1; outcome compared with the model, kernel state read back and restored
    for call in G.wrap_calls(names, fmts):
        m, f = call["mod"], call["fn"]
        fmt = fmts.get((m, f))
        ll = lean_for_call(call, fmt)
        todo.append(("call_fuzz", (call, fmt), add(ll) if ll is not None and "_pred" not in ll else None))
    # ---------------------------------------------------------------- grids (exhaustive)
    cls, val, pid = grids()
    child = {"t": "pid", "v": "child"}
    for c in cls:
        for v in val:
            todo.append(("ionice", (c, v), add({"op": "ionice_py", "cls": c, "value": v})))
            if v is not None:
                call = {"mod": "linux", "fn": "proc_ioprio_set", "args": [child, G.a_int(c), G.a_int(v)], "post": "ioprio",
                        "units": fmts.get(("linux", "proc_ioprio_set"))}
                todo.append(("call", call, add({"op": "ioprio_ext", "pid": 1000, "cls": c, "data": v})))
    for p in pid:
        call = {"mod": "linux", "fn": "check_pid_range", "args": [G.a_int(p)]}
        todo.append(("call", call, add({"op": "pid", "arg": p})))
    res.exhaustive = "ioprio grid %d classes × %d values (front end + entry point), %d pid edge values; the other families are samples" % (len(cls), len(val), len(pid))
    # ---------------------------------------------------------------- pure model-vs-spec ops
    n_b = ctx.n(400, 3000)
    for _ in range(n_b):
        src = bytes(rng.choice([0, 65, 97, 255, rng.randrange(256)]) for _ in range(rng.choice([0, 1, 14, 15, 16, 17, 40, 300])))
        todo.append(("strncpy", src, add({"op": "strncpy", "src": src.hex(), "n": rng.choice([1, 2, 16, 16, 16, 32, 64])})))
        data = bytes(rng.randrange(256) for _ in range(rng.choice([1, 6, 6, 8, 20, 32, 254, 255])))
        todo.append(("mac", data, add({"op": "mac", "data": data.hex()})))
    flagset = list(range(65536)) if ctx.tier == "thorough" and first else \
        sorted({0, 65535, 1 << 16, (1 << 16) | 1, 0x1043, 0x11043} | {1 << k for k in range(18)} | {rng.randrange(1 << 18) for _ in range(600)})
    for f in flagset:
        todo.append(("iff", f, add({"op": "iff", "flags": f})))
    halves = [0, 1, 10, 100, 1000, 10000, 0x7FFF, 0x8000, 0xFFFE, 0xFFFF]
    for hi in halves:
        for lo in halves:
            todo.append(("ethspeed", (hi, lo), add({"op": "ethspeed", "hi": hi, "lo": lo})))
    for _ in range(ctx.n(100, 2000)):
        hi, lo = rng.randrange(65536), rng.randrange(65536)
        todo.append(("ethspeed", (hi, lo), add({"op": "ethspeed", "hi": hi, "lo": lo})))
    needs = [None, 1, 64, 65, 128, 129, 1024, 4096, 2**20] + ([2**27, 2**30] if ctx.tier == "thorough" else [])
    for nd in needs:
        todo.append(("affget", nd, add({"op": "affget", "need": nd})))
    # ---------------------------------------------------------------- extension round: scripted OS answers on the real entry points
    for i in range(ctx.n(210, 2100)):
        c = X.gen_ifaddrs_case(rng, X.IF_FAMILIES[i % len(X.IF_FAMILIES)])
        todo.append(("ifaddrs", (c, rng.choice(X.ERRNOS)), add(X.ifaddrs_line(c))))
    for _ in range(ctx.n(160, 1600)):
        c = X.gen_ifr_case(rng)
        ls = X.ifr_lines(c)
        todo.append(("ifr", c, (add(ls[0]), add(ls[1]))))
    for _ in range(ctx.n(120, 1200)):
        c = X.gen_sysinfo_case(rng)
        todo.append(("sysinfo", c, add({"op": "sysinfo", "vals": c["vals"]})))
    for c in X.getprio_grid():
        todo.append(("getprio", c, add(X.getprio_line(c))))
    for _ in range(ctx.n(120, 1200)):
        e = X.gen_mnt_entry(rng)
        todo.append(("mntrt", e, add({"op": "mntrt", "mnt": [b.hex() for b in e]})))
    # ---------------------------------------------------------------- round 2: the Python-side wrappers on the real code path
    for i in range(ctx.n(240, 2400)):
        c = Y.gen_rootfs_case(rng, Y.ROOT_FAMILIES[i % len(Y.ROOT_FAMILIES)])
        todo.append(("rootfs", c, add(Y.rootfs_line(c))))
    for _ in range(ctx.n(200, 2000)):
        c = Y.gen_netifstats_case(rng)
        todo.append(("netifstats", c, add({"op": "netifstats", "nics": c["nics"]})))
    for i in range(ctx.n(140, 1400)):
        c = X.gen_ifaddrs_case(rng, X.IF_FAMILIES[i % len(X.IF_FAMILIES)])
        todo.append(("netifaddrs_front", c, add(Y.netifaddrs_line(c))))
    # ---------------------------------------------------------------- round 3: failure paths + plumbing on the real code path
    for c in Z.fail_cases():
        todo.append(("ifaddrs_fail", c, add(Z.fail_line(c))))
    for c in Z.sockfail_cases():
        todo.append(("ifr_sockfail", c, None))
    for c in Z.errmsg_cases():
        todo.append(("ifr_errmsg", c, tuple(add(l) for l in Z.errmsg_lines(c))))
    for c in Z.mtab_cases(rng):
        todo.append(("parts_mtab", c, None))
    # ---------------------------------------------------------------- argument fuzzer
    n_f = ctx.n(6000, 40000) if first else ctx.n(6000, 25000)
    for i in range(n_f):
        m, f = names[i % len(names)]
        fmt = fmts.get((m, f))
        call = G.gen_call(rng, m, f, fmt if fmt is not None else "*")
        call["errno"] = rng.choice(X.ERRNOS)          # stale errno poisoned in right before the call
        if fmt not in (None, "*"):
            call["units"] = fmt
        ll = lean_for_call(call, fmt) if fmt is not None else None
        if ll is not None and "_pred" in ll:
            todo.append(("call_pred", (call, fmt, ll["_pred"]), None))
        else:
            todo.append(("call_fuzz", (call, fmt), add(ll) if ll is not None else None))
    # ---------------------------------------------------------------- run the model once
    import time
    t0 = time.time()
    outs = drv.batch(lines) if lines else []
    res.extra.setdefault("driver_s", []).append(round(time.time() - t0, 1))
    res.extra["driver_lines"] = (res.extra.get("driver_lines") or 0) + len(lines)
    for o, l in zip(outs, lines):
        if "bad" in o:
            raise InfraError("C17 driver rejected %r: %s" % (str(l)[:300], o))
    # ---------------------------------------------------------------- run the implementation, compare
    shim = None
    for kind, payload, idx in todo:
        if len([d for d in res.disagreements if d["kind"] == "spec"]) >= 12:
            break
        if kind == "users":
            compare_users(run, payload, outs[idx])
        elif kind == "part":
            c, dec = payload
            if idx is None:
                compare_partitions(run, c, None, None, None)
            else:
                compare_partitions(run, c, dec, outs[idx[0]], outs[idx[1]], outs[idx[2]] if idx[2] is not None else None,
                                   (outs[idx[3][0]], outs[idx[3][1]]) if idx[3] is not None else None)
        elif kind == "ifaddrs":
            X.compare_ifaddrs(run, payload[0], payload[1], outs[idx])
        elif kind == "ifr":
            X.compare_ifr(run, payload, outs[idx[0]], outs[idx[1]])
        elif kind == "sysinfo":
            X.compare_sysinfo(run, payload, outs[idx])
        elif kind == "getprio":
            X.compare_getprio(run, payload, outs[idx])
        elif kind == "mntrt":
            compare_mntrt(run, payload, outs[idx])
        elif kind == "rootfs":
            Y.compare_rootfs(run, payload, outs[idx])
        elif kind == "netifstats":
            Y.compare_netifstats(run, payload, outs[idx])
        elif kind == "netifaddrs_front":
            Y.compare_netifaddrs_front(run, payload, outs[idx])
        elif kind == "ifaddrs_fail":
            Z.compare_ifaddrs_fail(run, payload, outs[idx])
        elif kind == "ifr_sockfail":
            Z.compare_sockfail(run, payload)
        elif kind == "ifr_errmsg":
            Z.compare_errmsg(run, payload, [outs[i] for i in idx])
        elif kind == "parts_mtab":
            Z.compare_mtab(run, payload)
        elif kind == "mt_sched":
            T.compare_sched(run, payload, outs[idx])
        elif kind == "mt_stress":
            T.compare_stress(run, payload)
        elif kind == "call":
            compare_call(run, payload, predict_parse(fmts.get((payload["mod"], payload["fn"]), "*"), payload["args"]), outs[idx])
        elif kind == "call_fuzz":
            call, fmt = payload
            pred = predict_parse(fmt, call["args"]) if fmt is not None else None
            if fmt == "O" and call["args"] and len(call["args"]) == 1 and call["args"][0]["t"] == "badbool":
                pred = "RuntimeError"
            compare_call(run, call, pred, outs[idx] if idx is not None else None)
        elif kind == "call_pred":
            call, fmt, p2 = payload
            pred = predict_parse(fmt, call["args"]) or p2
            compare_call(run, call, pred, None)
        elif kind == "ionice":
            compare_ionice(run, payload, outs[idx])
        elif kind == "ethspeed":
            m = outs[idx]
            res.case((kind, payload), nontrivial=True)
            res.count("bounds:ethspeed")
            if m["model"] != m["spec"]:
                res.disagree("spec", {"kind": "ethspeed", "hi": payload[0], "lo": payload[1], "line": lines[idx]}, m["model"], m["model"], m["spec"],
                             note="model of the current source: a NIC whose driver reports ethtool speed halves (speed_hi=%d, speed=%d) makes net_if_duplex_speed()/net_if_stats() evaluate speed_hi << 16 in a C int: %s" % (
                                 payload[0], payload[1], "not representable (undefined behaviour; UBSan reports it on such a NIC)" if m["model"].get("kind") == "ub" else "wrong value"))
        elif kind in ("strncpy", "mac", "iff"):
            m = outs[idx]
            res.case((kind, payload), nontrivial=True)
            res.count("bounds:" + kind)
            mo, sp = m["model"], m["spec"]
            same = (mo == sp) if kind == "iff" else all(mo.get(k) == v for k, v in sp.items())
            if not same:
                res.disagree("spec", {"kind": kind, "input": payload.hex() if isinstance(payload, bytes) else payload,
                                      "line": lines[idx]}, mo, mo, sp,
                             note=("net_if_flags() can return a flag name that docs/index.rst (net_if_stats) does not list: %s" % mo.get("undocumented")
                                   if kind == "iff" and mo.get("names") == sp.get("names") else
                                   "model of the current source violates the specification of %s" % kind))
        elif kind == "affget":
            if shim is None:
                shim = U.build_shim()
            compare_affget(run, shim, payload, outs[idx])
    if first:
        live_netif(run, drv)


MNT_MODEL_MAX = 40000          # mounts files up to this size also go through the Lean getmntent model


def compare_mntrt(run, entry, m):
    """A mount entry rendered the way the kernel prints it (Lean spec), decoded by the Lean model AND by the real extension."""
    res = run.res
    inp = {"kind": "mntrt", "mnt": [b.hex() for b in entry]}
    res.case(("mntrt", tuple(entry)), nontrivial=True)
    res.count("mntrt")
    want = [[b.hex() for b in entry]]
    if m["model"]["rows"] != m["spec"]["rows"]:
        res.disagree("spec", inp, m["model"], m["model"], m["spec"], note="Lean model of getmntent does not give back the entry the line was rendered from")
        return
    line = bytes.fromhex(m["spec"]["line"])
    rep = run.ask({"cmd": "partitions", "mounts": (line + b"\n").hex(), "filesystems": "", "all": [], "root": None}, inp)
    if rep is None:
        return
    if rep["raw"] != want:
        res.disagree("spec", inp, rep["raw"], m["model"]["rows"], want, note="cext.disk_partitions() does not give back the mount entry this line was rendered from")


def compare_ionice(run, payload, m):
    c, v = payload
    inp = {"kind": "ionice", "cls": c, "value": v}
    rep = run.ask({"cmd": "ionice", "cls": c, "value": v}, inp)
    if rep is None:
        return
    res = run.res
    res.case(("ionice", c, v), nontrivial=True)
    res.count("ionice_grid")
    mo = m["model"]
    got = outcome_class(rep)
    if mo["kind"] == "ub":
        res.disagree("spec", inp, rep, mo, {"kind": "value-or-python-exception, no undefined behaviour"},
                     note="Process.ionice(%r, %r): every Python-side check passes and the extension evaluates %r << 13 in a C int (undefined behaviour; UBSan: 'left shift of %r by 13 places cannot be represented in type int')" % (c, v, c, c))
    elif mo["kind"] == "exc":
        if got != mo["exc"]:
            res.disagree("model", inp, rep, mo, None, note="ionice(): exception class differs from the Lean model")
    elif got not in ("value", "OSError", "AccessDenied", "NoSuchProcess"):
        res.disagree("model", inp, rep, mo, None, note="ionice(): expected None or an OS error")


def compare_affget(run, shim, need, m):
    res = run.res
    env = dict(run.env_extra or {})
    pre = env.get("LD_PRELOAD")
    env["LD_PRELOAD"] = (pre + ":" if pre else "") + shim
    if need is not None or True:
        env["C17_NEED_BITS"] = "never" if need is None else str(need)
    inp = {"kind": "affget", "need": need, "build": run.tag}
    w = U.Worker(run.pkg_parent, env, timeout=90)
    try:
        try:
            rep = w.ask({"cmd": "call", "mod": "linux", "fn": "proc_cpu_affinity_get", "args": [{"t": "pid", "v": "self"}], "want": True})
        except U.Crash as c:
            res.count("crash:" + run.tag)
            res.disagree("spec", inp, {"kind": "crash", "status": c.status, "stderr_tail": c.stderr_tail[-600:]}, m["model"],
                         {"kind": "value-or-python-exception"},
                         note="cpu_affinity_get with a kernel that answers EINVAL below %s bits: interpreter killed / hung" % need)
            return
    finally:
        w.close()
    res.case(("affget", need), nontrivial=True)
    res.count("affget_shim")
    mo = m["model"]
    got = outcome_class(rep)
    if mo["kind"] in ("ub", "loop"):
        res.disagree("spec", inp, rep, mo, {"kind": "value-or-OverflowError"},
                     note="model of the current source: the doubling loop overflows int / does not terminate")
    elif mo["kind"] == "exc":
        if got != mo["exc"]:
            res.disagree("model", inp, rep, mo, None, note="cpu_affinity_get: expected %s" % mo["exc"])
    elif got != "value" or not isinstance(rep.get("value"), list) or not rep["value"]:
        res.disagree("model", inp, rep, mo, None, note="cpu_affinity_get: expected the CPU list")


def live_netif(run, drv):
    """Supporting check: net_if_addrs()/net_if_stats() vs /sys/class/net and socket.if_nameindex()."""
    import os
    import socket
    res = run.res
    names = sorted(n for _, n in socket.if_nameindex())
    rep = run.ask({"cmd": "netif", "names": names}, {"kind": "netif"})
    if rep is None:
        return
    inp = {"kind": "netif", "names": names}
    sysfs = {}
    for n in names:
        d = {}
        for k in ("address", "mtu", "flags", "operstate", "addr_len"):
            try:
                with open("/sys/class/net/%s/%s" % (n, k)) as f:
                    d[k] = f.read().strip()
            except OSError:
                d[k] = None
        sysfs[n] = d
    lines = []
    for n in names:
        a = sysfs[n]["address"]
        lines.append({"op": "mac", "data": (a or "").replace(":", "")})
        lines.append({"op": "iff", "flags": int(sysfs[n]["flags"] or "0", 16)})
    outs = drv.batch(lines) if lines else []
    if isinstance(rep["stats"], dict) and "kind" not in rep["stats"]:
        if sorted(rep["stats"]) != names:
            res.disagree("spec", inp, sorted(rep["stats"]), None, names, note="net_if_stats() keys differ from socket.if_nameindex()")
    if isinstance(rep["addrs"], dict) and "kind" not in rep["addrs"]:
        extra = sorted(set(rep["addrs"]) - set(names))
        if extra:
            res.disagree("spec", inp, extra, None, names, note="net_if_addrs() lists interfaces the kernel does not")
    for i, n in enumerate(names):
        mac_m, iff_m = outs[2 * i], outs[2 * i + 1]
        res.case(("netif", n), nontrivial=True)
        res.count("netif_live")
        st = rep["stats"].get(n) if isinstance(rep["stats"], dict) else None
        if st is not None and sysfs[n]["mtu"] is not None and st["mtu"] != int(sysfs[n]["mtu"]):
            res.disagree("spec", dict(inp, nic=n), st, None, sysfs[n], note="MTU differs from /sys/class/net/%s/mtu" % n)
        # sysfs `flags` shows dev->flags: IFF_RUNNING (0x40) and the volatile bits are computed separately
        static = [x for x in iff_m["model"]["names"] if x != "running"]
        fl = rep["flags"].get(n)
        if isinstance(fl, list):
            if [x for x in fl if x != "running"] != static:
                res.disagree("spec", dict(inp, nic=n), fl, iff_m["model"]["names"], iff_m["spec"]["names"], note="net_if_flags() differs from the names of the bits of /sys/class/net/%s/flags" % n)
            if st is not None and st["flags"] != ",".join(fl):
                res.disagree("model", dict(inp, nic=n), st, fl, None, note="net_if_stats().flags is not ','.join(net_if_flags())")
            if st is not None and st["isup"] != ("running" in fl):
                res.disagree("model", dict(inp, nic=n), st, fl, None, note="isup is not 'running' in flags")
        macs = [a for a in (rep["addrs"].get(n) or []) if a[0] == rep["af_link"]] if isinstance(rep["addrs"], dict) else []
        want = mac_m["model"]["text"]
        if macs and want is not None:
            got = macs[0][1].encode().hex()
            # front end pads an address shorter than 6 bytes with :00
            if got != want and not (bytes.fromhex(got).startswith(bytes.fromhex(want))):
                res.disagree("spec", dict(inp, nic=n), macs[0], mac_m["model"], sysfs[n], note="AF_LINK address differs from /sys/class/net/%s/address" % n)


def search(ctx, res, broken):
    correspond(ctx, res)


# ====================================================================== shrink / replay

def _replay_case(ctx, res, inp):
    """Re-run one recorded input; disagreements land in `res`."""
    k = inp.get("kind")
    builds = [("std", ctx.snap.dir, None)]
    san_parent = None
    if inp.get("build") == "asan+ubsan":
        san_parent, _ = U.sanitizer_package(ctx.snap)
        builds = [("asan+ubsan", san_parent, U.sanitizer_env())]
    fmts = entry_formats(ctx.snap)
    drv = ctx.driver()
    try:
        for tag, parent, env in builds:
            run = Run(ctx, res, parent, env, tag)
            try:
                if k == "users":
                    recs = [{kk: (bytes.fromhex(v) if isinstance(v, str) else v) for kk, v in r.items()} for r in inp["recs"]]
                    case = {"family": inp.get("family", "replay"), "recs": recs, "trail": bytes.fromhex(inp["trail"])}
                    compare_users(run, case, drv.batch([users_line(case)])[0])
                elif k == "partitions":
                    case = {"family": inp.get("family", "replay"), "mounts": bytes.fromhex(inp["mounts"]),
                            "filesystems": bytes.fromhex(inp["filesystems"]),
                            "fsents": None if inp["fsents"] is None else [[nd, bytes.fromhex(n)] for nd, n in inp["fsents"]],
                            "root": None if inp["root"] is None else bytes.fromhex(inp["root"])}
                    if b"\0" in case["mounts"]:
                        compare_partitions(run, case, None, None, None)
                    else:
                        dec = U.getmntent_decode(case["mounts"])
                        o = drv.batch(part_lines(case, dec) + ([X.mnt_line_for(case["mounts"])] if len(case["mounts"]) <= MNT_MODEL_MAX else []))
                        e2e = None
                        if len(case["mounts"]) <= Z.E2E_MAX and all(U.utf8_ok(t) and U.utf8_ok(oo) for _, _, t, oo in dec):
                            e2e = tuple(drv.batch(Z.e2e_lines(case, X.mnt_line_for)))
                        compare_partitions(run, case, dec, o[0], o[1], o[2] if len(o) > 2 else None, e2e)
                elif k == "call":
                    call = inp["call"]
                    fmt = fmts.get((call["mod"], call["fn"]))
                    ll = lean_for_call(call, fmt) if fmt is not None else None
                    pred = predict_parse(fmt, call["args"]) if fmt is not None else None
                    if ll is not None and "_pred" in ll:
                        compare_call(run, call, pred or ll["_pred"], None)
                    else:
                        compare_call(run, call, pred, drv.batch([ll])[0] if ll is not None else None)
                elif k == "ionice":
                    compare_ionice(run, (inp["cls"], inp["value"]), drv.batch([{"op": "ionice_py", "cls": inp["cls"], "value": inp["value"]}])[0])
                elif k == "affget":
                    compare_affget(run, U.build_shim(), inp["need"], drv.batch([{"op": "affget", "need": inp["need"]}])[0])
                elif k == "ethspeed":
                    m = drv.batch([inp["line"]])[0]
                    if m["model"] != m["spec"]:
                        res.disagree("spec", inp, m["model"], m["model"], m["spec"], note="speed_hi << 16 in a C int is not representable / wrong")
                elif k in ("strncpy", "mac", "iff"):
                    m = drv.batch([inp["line"]])[0]
                    mo, sp = m["model"], m["spec"]
                    same = (mo == sp) if k == "iff" else all(mo.get(kk) == v for kk, v in sp.items())
                    if not same:
                        res.disagree("spec", inp, mo, mo, sp, note="model of the current source violates the specification of %s" % k)
                elif k == "netif":
                    live_netif(run, drv)
                elif k == "ifaddrs":
                    X.replay_ifaddrs(run, drv, inp)
                elif k == "ifr":
                    c = dict(inp["case"], name=bytes.fromhex(inp["case"]["name"]))
                    o = drv.batch(X.ifr_lines(c))
                    X.compare_ifr(run, c, o[0], o[1])
                elif k == "sysinfo":
                    X.compare_sysinfo(run, inp, drv.batch([{"op": "sysinfo", "vals": inp["vals"]}])[0])
                elif k == "getprio":
                    X.compare_getprio(run, inp["case"], drv.batch([X.getprio_line(inp["case"])])[0])
                elif k == "mntrt":
                    compare_mntrt(run, [bytes.fromhex(x) for x in inp["mnt"]], drv.batch([{"op": "mntrt", "mnt": inp["mnt"]}])[0])
                elif k == "rootfs":
                    ln = inp["line"]
                    c = {"family": inp.get("family", "replay"), "major": ln["major"], "minor": ln["minor"],
                         "partitions": None if ln["partitions"] is None else bytes.fromhex(ln["partitions"]),
                         "uevents": [(a, b, bytes.fromhex(t)) for a, b, t in ln["uevents"]],
                         "classdevs": [(bytes.fromhex(n), None if t is None else bytes.fromhex(t)) for n, t in ln["classdevs"]],
                         "exists": [bytes.fromhex(x) for x in ln["exists"]],
                         "devs": None if ln["devs"] is None else [(a, b, cc, bytes.fromhex(n)) for a, b, cc, n in ln["devs"]]}
                    Y.compare_rootfs(run, c, drv.batch([Y.rootfs_line(c)])[0])
                elif k == "netifstats":
                    Y.compare_netifstats(run, inp["case"], drv.batch([{"op": "netifstats", "nics": inp["case"]["nics"]}])[0])
                elif k == "netifaddrs_front":
                    Y.replay_netifaddrs_front(run, drv, inp)
                elif k == "ifaddrs_fail":
                    Z.compare_ifaddrs_fail(run, inp["case"], drv.batch([Z.fail_line(inp["case"])])[0])
                elif k == "ifr_sockfail":
                    Z.compare_sockfail(run, inp["case"])
                elif k == "ifr_errmsg":
                    Z.compare_errmsg(run, inp["case"], drv.batch(Z.errmsg_lines(inp["case"])))
                elif k == "parts_mtab":
                    Z.compare_mtab(run, inp["case"])
                elif k == "mt_sched":
                    T.replay_sched(run, drv, inp)
                elif k == "mt_stress":
                    T.replay_stress(run, inp)
                else:
                    return None
            finally:
                run.close()
    finally:
        if san_parent:
            import shutil
            shutil.rmtree(san_parent, ignore_errors=True)
    return True


def _still_fails(ctx, inp):
    from harness.common.runner import Result
    r = Result()
    ok = _replay_case(ctx, r, inp)
    if ok is None:
        return True
    return any(d["kind"] == "spec" for d in r.disagreements), r


def shrink(ctx, d):
    inp = d["input"]
    if inp.get("kind") == "users" and len(inp.get("recs", [])) > 1:
        def fails(recs):
            return _still_fails(ctx, dict(inp, recs=recs, trail=""))[0]
        small = ddmin(inp["recs"], fails, max_tests=24)
        f, r = _still_fails(ctx, dict(inp, recs=small, trail=""))
        if f:
            dd = [x for x in r.disagreements if x["kind"] == "spec"][0]
            return dict(d, input=dd["input"], impl=dd["impl"], model=dd["model"], spec=dd["spec"], note=dd["note"])
    if inp.get("kind") == "partitions" and inp.get("mounts"):
        ls = bytes.fromhex(inp["mounts"]).split(b"\n")
        if 1 < len(ls) <= 400:
            def fails(sub):
                return _still_fails(ctx, dict(inp, mounts=(b"\n".join(sub) + b"\n").hex()))[0]
            small = ddmin(ls, fails, max_tests=24)
            f, r = _still_fails(ctx, dict(inp, mounts=(b"\n".join(small) + b"\n").hex()))
            if f:
                dd = [x for x in r.disagreements if x["kind"] == "spec"][0]
                return dict(d, input=dd["input"], impl=dd["impl"], model=dd["model"], spec=dd["spec"], note=dd["note"])
    if inp.get("kind") == "mt_sched" and len(inp["case"]["steps"]) > 1:
        def fails(steps):
            return _still_fails(ctx, dict(inp, case=dict(inp["case"], steps=steps)))[0]
        small = ddmin(inp["case"]["steps"], fails, max_tests=16)
        f, r = _still_fails(ctx, dict(inp, case=dict(inp["case"], steps=small)))
        if f:
            dd = [x for x in r.disagreements if x["kind"] == "spec"][0]
            return dict(d, input=dd["input"], impl=dd["impl"], model=dd["model"], spec=dd["spec"], note=dd["note"])
    return d


def replay(ctx, rp, res):
    inp = rp.get("input")
    if not isinstance(inp, dict) or "kind" not in inp:
        return True
    ok = _replay_case(ctx, res, inp)
    if ok is None:
        return True
    return any(d["kind"] == "spec" for d in res.disagreements)


def check_finding(ctx, fnd):
    from harness.common.runner import Result
    w = fnd.get("witness") or {}
    if "input" not in w:
        return "unknown"
    r = Result()
    _replay_case(ctx, r, w["input"])
    return "reproduces" if any(d["kind"] == "spec" for d in r.disagreements) else "gone"
