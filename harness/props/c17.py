"""C17 skeleton (facts only) — replaced below."""
from harness.props import c17_facts
PROP = "C17"
DRIVER_MODULES = ["PsutilModel.Model.C17Gen", "PsutilModel.Spec.C17"]
NEEDS_EXT = True
def facts(snap, F):
    c17_facts.facts(snap, F)
