"""C12 — cmdline/environ/exe/cwd and extended name() decode what the kernel exposes.

Model: lean/PsutilModel/Model/C12.lean (+C12Gen), Spec: Spec/C12.lean, theorems: Props/C12.lean.
Correspondence: the real `psutil.Process(pid).cmdline()/environ()/exe()/cwd()/name()/username()/terminal()`, each
in one of ten call modes and on objects from the constructor or from process_iter(), over a fake
procfs (files with arbitrary bytes, exe/cwd as real symlinks where the target can be stored in one,
`os.readlink` answered from a table otherwise; OS errors on single files/links injected at
`psutil._common.open` / `os.readlink`; `os.stat`/`os.access` of paths *outside* procfs answered from the
case's table — exists / ENOENT / EACCES / fails with ANY other errno —, or by a real temporary tree and a real
directory whose names really fail with ENOTDIR / ELOOP / ENAMETOOLONG) compared call by call with the Lean model and with the
byte-level specification the driver prints alongside.
"""
import ast
import builtins
import errno
import fnmatch
import itertools
import os
import random
import shutil
import tempfile
import time

from harness.common import extract
from harness.common.extract import NotRecognised
from harness.common.fakeproc import FakeProc, reset_psutil_state
from harness.common.shrink import ddmin

PROP = "C12"
DRIVER_MODULES = ["PsutilModel.Model.C12Gen", "PsutilModel.Spec.C12"]
NEEDS_EXT = True
TRUSTED = [
    "C12 strings: psutil's str values are UTF-8+surrogateescape decodings (PYTHONUTF8=1 pinned by ./check), a bijection with byte strings; the ASCII-literal operations (split/endswith/find/in/rfind('/')) are modelled on bytes; the two places where the code as found is not byte-transparent (universal-newline translation in open_text; len()/startswith() of name() on code points) are modelled explicitly (nlTranslate, chars) and switched by translator facts",
    "C12 world: one PID; `_parse_stat_file`'s parsing of /proc/<pid>/stat (comm between the first '(' and the last ')') is C06's subject and enters here as `comm`; `_is_zombie`'s OWN parser of the same file (byte 2 after the last ')' compared with 'Z') is pinned by the facts isZombieLastParen / isZombieStateWindow / isZombieLetter (cfg_zombie_parser) and exercised with names containing ')' (PAREN_COMMS); the world says separately whether /proc/<pid>, /proc/<pid>/stat exist and whether stat is readable; os.stat/os.access/os.path.isfile of paths outside procfs are a parameter (`fs`) of model and theorems, with six answers: absent (ENOENT), denied (EACCES/EPERM), dir, file, executable file, and `unstatable errno class` (any other errno, raised as the OSError subclass CPython maps it to: the harness asks the running interpreter for the class, the model knows PEP 3151's hierarchy)",
    "C12 identity: the real uid of /proc/<pid>/status and tty_nr of /proc/<pid>/stat enter as `uid`/`tty`; pwd.getpwuid and glob('/dev/tty*')+os.stat().st_rdev are answered from the case's tables (`users`, `ttys`)",
    "C12 modes: the harness predicts what a oneshot() block has cached from the warm-up calls it made itself (which front-end methods read stat / status is listed in STAT_READERS / STATUS_READERS); ppid()/is_running() are only run while /proc/<pid> exists (their `_gone` memory is C01/C02's subject); as_dict(attrs=[call, extras]) uses extras that cannot raise NoSuchProcess while /proc/<pid> exists",
]
MANIFEST = {
    "level_text": "Machine-checked Lean 4 proofs over a model of _pslinux.Process.cmdline/environ/exe/cwd (+ readlink, _readlink, wrap_exceptions), _common.parse_environ_block and the front ends psutil.Process.exe()/name()/username()/terminal(): for EVERY byte string / world, the model equals a byte-level specification written from the property statement (C12_cmdline_spec, C12_environ_spec, C12_file_errors for OS errors on the files themselves, C12_link_cleanup, C12_link_withheld, C12_exe_fallback, C12_exe_refines over all call histories incl. memoisation, one closed-form theorem per documented branch of exe(): C12_exe_native / _native_error / _denied / _withheld / _eacces_link, C12_name_rule, C12_name_when_cmdline_raises and C12_name_zombie_or_denied (a zombie or a process with an unreadable cmdline keeps the kernel's name; NoSuchProcess propagates), C12_cwd_exe_zombie, C12_zombie_identity (a zombie still has an owner and a terminal), C12_call_refines), plus kernel-layout round-trips for every argv without NUL (C12_cmdline_roundtrip, under the stated hypothesis about a single space-containing argument, with the counterexample showing the hypothesis is needed) and every environment (C12_environ_roundtrip), C12_oneshot_same_answers (inside oneshot() every call answers as outside for the world 'block-cached stat/status as first read, everything else as now'), and proved counterexamples for the two defects re-found (name() testing code points instead of bytes; open_text translating CR). Characterisations of what is returned for files a rewritten title leaves behind (C12_cmdline_setproctitle: from the memory layout of the nginx/sshd/postgres way of writing a title through the kernel's get_mm_cmdline rule to the returned list; C12_cmdline_padded_title: title + k+2 NULs = the title unsplit + k+1 empty strings; C12_cmdline_title_leftover; C12_cmdline_unterminated: a file cut by a one-page kernel is read as a space-separated title with the NULs inside the strings) and for environment blocks (C12_environ_unterminated_tail: a block cut at 4096 bytes loses exactly the cut entry; C12_environ_not_assignment_ignored: 'B', '=x'; C12_environ_any_value: newlines etc.; C12_environ_duplicates). Tied to the code by translator facts (all separator literals, the 'exactly one trailing separator is removed' shape of cmdline() with the proved counterexample C12_cmdline_strip_one_needed for rstrip, ' (deleted)', 10, 15, bytes-vs-str test in name(), newline mode of open_text, and the except clauses of name() around cmdline() and of exe() around _proc.exe() / guess_it() in source order with what their bodies do, read with Python's first-matching-clause and subclass rules: cfg_except_clauses, C12_except_clause_order_matters) feeding the proof obligation cfg_good, and by a differential run of the real methods over a fake procfs in which every call is made in one of ten call modes (plain, oneshot, nested, warm block cache filled in an earlier world, after a block, as_dict with one/many attrs, as_dict inside oneshot, twice, re-fetched from process_iter) on objects from the constructor, process_iter() and process_iter(attrs=...). Round 3 (audit): the world separates '/proc/<pid> exists' / 'stat exists' / 'stat readable' (C12_vanishing_process: directory still listed, stat gone = NoSuchProcess, psutil #2418, pinned by cfg_gone_test; C12_stat_unreadable; C12_link_withheld_unknown_liveness is a characterisation); branch-free invariants about the world only, not going through the spec's exception arms (C12_exe_result_invariant: a returned string is the clean link target, a guessable argv[0], or '' for a withheld link of a process not known to be a zombie; C12_exe_remembers_only_what_it_returned for every configuration; C12_exe_denied_never_remembered; C12_zombie_never_empty_string); C12_exe_withheld_link (the withheld branch stated on the world); the silent region of the specification delimited exactly (C12_silent_region, C12_call_refines_outside_silent); further obligations cfg_block_cached_sources (translator's list of @memoize_when_activated methods and of what oneshot_enter / Process.oneshot activate: none of C12's methods is block-cached), cfg_zombie_parser, cfg_text_decoding (open_text decodes with the file-system encoding and error handler). Seeded round 5: the errno / OSError class with which os.stat of a name outside procfs fails is a dimension of the world (FsEnt.unstatable): C12_exists_strict_answer (for any errno and class path_exists_strict answers what the specification's `named` says; only PermissionError leaves it), C12_stat_errno_never_matters (for every world, object state, call, history and oneshot block the answer is that of the world where every failing stat is plain ENOENT / EACCES: no OSError leaks, nothing else is returned or remembered), C12_unstatable_deleted_is_stale (link 'p (deleted)' whose stat fails with any errno but a refusal: cwd() = p, exe() returns and remembers p), the proved counterexample C12_exists_strict_needs_catch_all for a helper narrowed to FileNotFoundError, and the obligation cfg_exists_strict (the except clauses of path_exists_strict around os.stat read with Python's first-matching-clause and subclass rules over OSError's subclasses, and that readlink() asks that helper). HONEST LABELS: the theorems comparing model and spec on exception arms (C12_file_errors, C12_exe_denied/_withheld/_eacces_link, C12_name_when_cmdline_raises, C12_link_withheld) and on NUL-padded titles / cut files are characterisations of the code (the spec's arms there are a declarative transcription of what the front end documents, see the header of Spec/C12.lean); C12_exe_cached, C12_zombie_identity and C12_oneshot_same_answers are facts about the model whose weight is the correspondence.",
    "level_note": "Trusted: Lean kernel + {propext, Classical.choice, Quot.sound}; the translator; the correspondence harness; str<->bytes bijection under PYTHONUTF8=1; stat/status parsing (C06) enters as comm/zombie/tty_nr/real uid; the user database and the terminal map are parameters; ENOENT on the cmdline/environ file of a live process whose /proc/<pid> exists and a denied existence test, and a withheld link while stat is missing/unreadable are outside the statement (model-vs-code only; exactly the predicate `Silent` of C12_silent_region); a cached source outliving /proc/<pid> inside a block is C16's; a single argument containing a space is indistinguishable from a rewritten title in the bytes the kernel exposes (hypothesis of the round-trip).",
    "technique": "Lean 4 case analysis and list induction (model = byte-level spec for all inputs; renderer round-trips; history refinement for the exe() memo; block-view lemma for oneshot) + inversion lemmas for the branch-free invariants + an exact characterisation of where the spec is silent + translator-fed proof obligations (cfg_good, cfg_except_clauses, cfg_block_cached_sources, cfg_gone_test, cfg_zombie_parser, cfg_text_decoding, cfg_exists_strict; every extractor total where a value can describe the new shape, each fact extracted on its own) + differential correspondence on a fake procfs across call modes and object sources, with exhaustive sweeps around the 15-byte name boundary, over the branches of exe(), over modes x calls x objects, over stat {missing, unreadable} x {S, Z} x file/link states x 7 calls, over names containing ')' x {S, Z} x 8 situations decided by the zombie test, over every errno of the host (except ENOENT/EACCES/EPERM) and three REAL un-stat-able names (parent is a file, symlink loop, component longer than NAME_MAX) x the six places where exe()/cwd() stat a name outside procfs, and over ALL environ files on {A,=,NUL,LF} up to 7 bytes and ALL cmdline files on {a,SP,NUL} up to 8 bytes; cmdline files of the random families also come from a simulator of the kernel's get_mm_cmdline / one-page proc_pid_cmdline applied to real setproctitle memory layouts (checked against Spec.kernelCmdline on every run)",
    "design_ref": "DESIGN.md §5 C12",
}
ASSUMPTIONS = [
    "byte rules not fixed by the statement and chosen to agree with the code (code-derived, Spec/C12.lean header): only ONE trailing space of a NUL-less title is ignored; a cmdline file whose last byte is not NUL keeps its NULs inside the returned strings; an unterminated last environ entry is dropped; an entry with an empty NAME ('=x') is not an assignment",
    "a title followed by two or more NULs is read under the statement's FIRST rule (it is the kernel layout of the argv [title, '', '', ...]: C12_padded_title_is_an_argv), so it comes back unsplit followed by empty strings; 'split on spaces' applies to a single piece without NUL separators (characterisation of the code, integrator decision)",
    "PYTHONUTF8=1 (pinned by ./check): filesystem encoding utf-8 + surrogateescape, so decoding is byte-transparent",
    "the argv round-trip needs: at least two arguments, or a single argument without a space (otherwise the bytes equal those of a rewritten title)",
]

PID = 31337

# ------------------------------------------------------------------------------ translator


class _Keys(dict):
    """facts of one function, each extracted on its own: a key whose extraction fails holds the exception (raised
    only when THAT fact is asked for), so that one unrecognised literal does not take its neighbours with it"""

    def put(self, key, thunk):
        try:
            self[key] = thunk()
        except Exception as e:  # noqa: BLE001 — stored, re-raised for this key only
            self[key] = e

    def want(self, key):
        if key not in self:
            raise NotRecognised("%s: not found in the source" % key)
        v = self[key]
        if isinstance(v, Exception):
            raise v if isinstance(v, NotRecognised) else NotRecognised("%s: %s" % (type(v).__name__, v))
        return v


def _one_char(n, what):
    v = extract.const(n)
    if not isinstance(v, str) or len(v) != 1 or ord(v) > 127:
        raise NotRecognised("%s is not a one-character ASCII literal: %r" % (what, v))
    return ord(v)


def _cmdline_facts(tree):
    fn = extract.find_def(tree, "cmdline", cls="Process")
    out = _Keys()
    for n in ast.walk(fn):
        if isinstance(n, ast.Assign) and len(n.targets) == 1 and extract.dotted(n.targets[0]) == "sep" \
                and isinstance(n.value, ast.IfExp):
            t = n.value.test

            def test_char(t=t):
                if not (isinstance(t, ast.Call) and extract.dotted(t.func) == "data.endswith" and len(t.args) == 1):
                    raise NotRecognised("sep test is %s" % extract.unparse(t))
                return _one_char(t.args[0], "sep test")
            out.put("test", test_char)
            out.put("nul", lambda n=n: _one_char(n.value.body, "sep (then)"))
            out.put("space", lambda n=n: _one_char(n.value.orelse, "sep (else)"))
        if isinstance(n, ast.If) and isinstance(n.test, ast.BoolOp) and isinstance(n.test.op, ast.And):
            # the single-piece rule: its conjuncts are looked for independently, in any order
            hit = False
            for v in n.test.values:
                if isinstance(v, ast.Compare) and len(v.ops) == 1 and extract.dotted(v.left) == "sep" \
                        and isinstance(v.ops[0], ast.Eq):
                    out.put("r2sep", lambda v=v: _one_char(v.comparators[0], "rule-2 sep"))
                    hit = True
                if isinstance(v, ast.Compare) and len(v.ops) == 1 and isinstance(v.ops[0], ast.In) \
                        and extract.dotted(v.comparators[0]) == "data":
                    out.put("r2in", lambda v=v: _one_char(v.left, "rule-2 in"))
                    hit = True
            if hit:
                def r2split(n=n):
                    if not any(isinstance(v, ast.Compare) and extract.unparse(v) == "len(cmdline) == 1"
                               for v in n.test.values):
                        raise NotRecognised("rule 2 no longer tests len(cmdline) == 1: %s" % extract.unparse(n.test))
                    sp = [x for x in extract.calls_in(n, "split") if extract.dotted(x.func) == "data.split"]
                    if len(sp) != 1 or len(sp[0].args) != 1:
                        raise NotRecognised("rule-2 split not recognised")
                    return _one_char(sp[0].args[0], "rule-2 split")
                out.put("r2split", r2split)
        # how trailing separators are removed, between choosing `sep` and splitting
        if isinstance(n, ast.If) and isinstance(n.test, ast.Call) and extract.dotted(n.test.func) == "data.endswith" \
                and len(n.test.args) == 1 and extract.dotted(n.test.args[0]) == "sep":
            def strip_if(n=n):
                if not n.orelse and len(n.body) == 1 and extract.unparse(n.body[0]) == "data = data[:-1]":
                    return True
                raise NotRecognised("trailing-separator removal is %s" % extract.unparse(n)[:80])
            out.put("strip1", strip_if)
        if isinstance(n, ast.While) and isinstance(n.test, ast.Call) and extract.dotted(n.test.func) == "data.endswith" \
                and len(n.test.args) == 1 and extract.dotted(n.test.args[0]) == "sep" \
                and len(n.body) == 1 and extract.unparse(n.body[0]) == "data = data[:-1]":
            out["strip1"] = False                      # a loop removing them all = rstrip
        if isinstance(n, ast.Assign) and extract.unparse(n) in ("data = data.rstrip(sep)", "data = data.strip(sep)"):
            def strip_call(n=n):
                if extract.unparse(n) != "data = data.rstrip(sep)":
                    raise NotRecognised("trailing-separator removal is %s" % extract.unparse(n))
                return False
            out.put("strip1", strip_call)
    return out


def _environ_facts(tree):
    fn = extract.find_def(tree, "parse_environ_block")
    out = _Keys()
    for c in extract.calls_in(fn, "find"):
        if extract.dotted(c.func) != "data.find":
            continue
        if len(c.args) == 2 and extract.dotted(c.args[1]) == "pos":
            out.put("nul", lambda c=c: _one_char(c.args[0], "environ nul"))
        elif len(c.args) == 3 and extract.dotted(c.args[1]) == "pos" and extract.dotted(c.args[2]) == "next_pos":
            out.put("eq", lambda c=c: _one_char(c.args[0], "environ eq"))
    return out


def _readlink_facts(tree):
    fn = extract.find_def(tree, "readlink")
    out = _Keys()
    for n in ast.walk(fn):
        if isinstance(n, ast.Subscript) and isinstance(n.value, ast.Call) \
                and extract.dotted(n.value.func) == "path.split" and extract.const(n.slice) == 0:
            out.put("nul", lambda n=n: _one_char(n.value.args[0], "readlink nul"))
        if isinstance(n, ast.Call) and extract.dotted(n.func) == "path.endswith":
            def suffix(n=n):
                v = extract.const(n.args[0])
                if not isinstance(v, str) or not v.isascii():
                    raise NotRecognised("endswith literal")
                return v.encode()
            out.put("suffix", suffix)
        if isinstance(n, ast.Subscript) and extract.dotted(n.value) == "path" and isinstance(n.slice, ast.Slice) \
                and n.slice.lower is None and n.slice.upper is not None:
            def cut(n=n):
                up = n.slice.upper
                # `path[:-10]`, or `path[:-len(' (deleted)')]` with the literal in place
                if isinstance(up, ast.UnaryOp) and isinstance(up.op, ast.USub) and isinstance(up.operand, ast.Call) \
                        and extract.dotted(up.operand.func) == "len" and len(up.operand.args) == 1 \
                        and isinstance(up.operand.args[0], ast.Constant) and isinstance(up.operand.args[0].value, str):
                    return len(up.operand.args[0].value)
                v = extract.const(up)
                if not isinstance(v, int) or v >= 0:
                    raise NotRecognised("path[:%r]" % (v,))
                return -v
            out.put("cut", cut)
    return out


def _stale_test(tree):
    """`readlink()`: the function F of `path.endswith(' (deleted)') and not F(path)` — total: another shape yields
    a string that describes it"""
    fn = extract.find_def(tree, "readlink")
    hits = []
    for n in ast.walk(fn):
        if isinstance(n, ast.BoolOp) and isinstance(n.op, ast.And) and any(
                isinstance(v, ast.Call) and extract.dotted(v.func) == "path.endswith" for v in n.values):
            hits.append(n)
    if len(hits) != 1:
        return "%d-endswith-conjunctions" % len(hits)
    rest = [v for v in hits[0].values
            if not (isinstance(v, ast.Call) and extract.dotted(v.func) == "path.endswith")]
    if len(rest) != 1:
        return "no-existence-test" if not rest else " and ".join(extract.unparse(v) for v in rest)
    v = rest[0]
    if isinstance(v, ast.UnaryOp) and isinstance(v.op, ast.Not) and isinstance(v.operand, ast.Call) \
            and len(v.operand.args) == 1 and not v.operand.keywords and extract.dotted(v.operand.args[0]) == "path" \
            and extract.dotted(v.operand.func):
        return extract.dotted(v.operand.func)
    return extract.unparse(v)


def _stat_clause_tag(h):
    """what an `except` body of the stat helper does: "false" / "true" (`return False` / `return True`) | "raise"
    (bare re-raise / `raise <bound name>`) | "other" (anything else)"""
    body = [x for x in h.body if not (isinstance(x, ast.Expr) and isinstance(x.value, ast.Constant))]
    if len(body) == 1 and isinstance(body[0], ast.Return) and isinstance(body[0].value, ast.Constant) \
            and body[0].value.value in (True, False) and isinstance(body[0].value.value, bool):
        return "true" if body[0].value.value else "false"
    if len(body) == 1 and isinstance(body[0], ast.Raise) and body[0].cause is None \
            and (body[0].exc is None or (h.name and extract.dotted(body[0].exc) == h.name)):
        return "raise"
    return "other"


def _exists_strict_clauses(linux, common):
    """the `except` clauses, in source order, of the `try` around `os.stat(path)` in the helper `readlink()` asks
    whether the ` (deleted)` name exists (`path_exists_strict`): (sorted class names, false|true|raise|other).
    The helper must answer True exactly when `os.stat` succeeds (`else: return True` / `return True` after it)."""
    name = _stale_test(linux).split(".")[-1]
    fn = None
    for tree in (common, linux):
        try:
            fn = extract.find_def(tree, name)
            break
        except Exception:  # noqa: BLE001
            continue
    if fn is None:
        raise NotRecognised("the existence test of readlink(), %r, is not a function of _common.py / _pslinux.py" % name)
    tries = [n for n in ast.walk(fn) if isinstance(n, ast.Try)]
    stats = [n for n in ast.walk(fn) if isinstance(n, ast.Call)
             and extract.dotted(n.func).split(".")[-1] in ("stat", "lstat", "exists", "lexists", "access")]
    if len(tries) != 1 or len(stats) != 1 or extract.dotted(stats[0].func) != "os.stat" \
            or len(stats[0].args) != 1 or stats[0].keywords:
        raise NotRecognised("%s: not one try around one os.stat(path) (%d try, %d stat-like calls)"
                            % (name, len(tries), len(stats)))
    tr = tries[0]
    if tr.finalbody or len(tr.body) != 1 or not (isinstance(tr.body[0], ast.Expr) and tr.body[0].value is stats[0]):
        raise NotRecognised("%s: the try body is not the single statement os.stat(path)" % name)
    after = tr.orelse or (fn.body[fn.body.index(tr) + 1:] if tr in fn.body else [])
    if [extract.unparse(x) for x in after] != ["return True"]:
        raise NotRecognised("%s: a successful os.stat is not followed by `return True` alone" % name)
    return [(_clause_classes(h), _stat_clause_tag(h)) for h in tr.handlers]


def _is_bytes_expr(n, bytes_names):
    """`os.fsencode(x)` / `x.encode(...)` / a name assigned from one of those"""
    if isinstance(n, ast.IfExp):
        return _is_bytes_expr(n.body, bytes_names)
    if isinstance(n, ast.Call) and extract.dotted(n.func).split(".")[-1] in ("fsencode", "encode"):
        return True
    if isinstance(n, ast.Name) and n.id in bytes_names:
        return True
    return False


def _name_facts(tree):
    fn = extract.find_def(tree, "name", cls="Process")
    out = _Keys()
    bytes_names = set()
    for n in ast.walk(fn):
        if isinstance(n, ast.Assign) and len(n.targets) == 1 and isinstance(n.targets[0], ast.Name) \
                and _is_bytes_expr(n.value, set()):
            bytes_names.add(n.targets[0].id)
    tests = []
    for n in ast.walk(fn):
        if isinstance(n, ast.Compare) and len(n.ops) == 1:
            l, r, op = n.left, n.comparators[0], n.ops[0]
            if isinstance(r, ast.Call) and extract.dotted(r.func) == "len":     # `15 <= len(x)`
                flip = {ast.LtE: ast.GtE, ast.Lt: ast.Gt, ast.GtE: ast.LtE, ast.Gt: ast.Lt, ast.Eq: ast.Eq}
                if type(op) in flip:
                    l, r, op = r, l, flip[type(op)]()
            if isinstance(l, ast.Call) and extract.dotted(l.func) == "len" and len(l.args) == 1:
                tests.append((n, l, r, op))

    def min_len():
        if len(tests) != 1:
            raise NotRecognised("%d length tests in name()" % len(tests))
        n, l, r, op = tests[0]
        v = extract.const(r)
        if not isinstance(v, int) or v < 0:
            raise NotRecognised("length test is %s" % extract.unparse(n))
        if isinstance(op, ast.GtE):
            return v
        if isinstance(op, ast.Gt):                     # `len(x) > N` is `len(x) >= N + 1`: the model follows
            return v + 1
        raise NotRecognised("length test is %s" % extract.unparse(n))
    out.put("min", min_len)

    def on_bytes():
        if len(tests) != 1:
            raise NotRecognised("%d length tests in name()" % len(tests))
        len_on_bytes = _is_bytes_expr(tests[0][1].args[0], bytes_names)
        sw = [c for c in extract.calls_in(fn, "startswith")]
        if len(sw) != 1 or len(sw[0].args) != 1:
            raise NotRecognised("name(): %d startswith tests" % len(sw))
        recv_bytes = _is_bytes_expr(sw[0].func.value, bytes_names)
        arg_bytes = _is_bytes_expr(sw[0].args[0], bytes_names)
        if not (len_on_bytes == recv_bytes == arg_bytes):
            raise NotRecognised("name(): length and prefix tests are on different kinds of string")
        return len_on_bytes
    out.put("bytes", on_bytes)
    return out


def _open_text_raw(tree):
    fn = extract.find_def(tree, "open_text")
    calls = [c for c in extract.calls_in(fn, "open") if extract.dotted(c.func) == "open"]
    if len(calls) != 1:
        raise NotRecognised("open_text: open() call not found exactly once")
    for kw in calls[0].keywords:
        if kw.arg == "newline":
            v = extract.const(kw.value)
            if v in ("", "\n"):
                return True
            if v is None:
                return False
            raise NotRecognised("open_text: newline=%r" % (v,))
        if kw.arg is None:
            raise NotRecognised("open_text: **kwargs")
    return False


def _open_text_decoding(tree):
    """how `open_text` decodes: the expressions behind its `encoding=` and `errors=` keywords, a module-level name
    being followed to its (single) assignment — total: every shape yields a string"""
    out = _Keys()
    fn = extract.find_def(tree, "open_text")
    calls = [c for c in extract.calls_in(fn, "open") if extract.dotted(c.func) == "open"]

    def resolve(kwname):
        if len(calls) != 1:
            return "open-called-%d-times" % len(calls)
        kws = [kw for kw in calls[0].keywords if kw.arg == kwname]
        if not kws:
            return "**kwargs" if any(kw.arg is None for kw in calls[0].keywords) else "default"
        v = kws[0].value
        if isinstance(v, ast.Name):
            assigns = [n for n in tree.body if isinstance(n, ast.Assign) and len(n.targets) == 1
                       and extract.dotted(n.targets[0]) == v.id]
            assigns += [n for n in ast.walk(tree) if isinstance(n, (ast.AugAssign, ast.AnnAssign))
                        and extract.dotted(n.target) == v.id]
            if len(assigns) != 1 or not isinstance(assigns[0], ast.Assign):
                return "%s:assigned-%d-times" % (v.id, len(assigns))
            return extract.unparse(assigns[0].value)
        return extract.unparse(v)
    out.put("encoding", lambda: resolve("encoding"))
    out.put("errors", lambda: resolve("errors"))
    return out


KNOWN_EXC = ("AccessDenied", "ZombieProcess", "NoSuchProcess", "Error", "Exception", "BaseException",
             "OSError", "FileNotFoundError")


def _clause_classes(h):
    """sorted class names of one `except` clause (the order inside a tuple is immaterial)"""
    t = h.type
    if t is None:
        return ["BaseException"]
    elts = t.elts if isinstance(t, ast.Tuple) else [t]
    names = []
    for e in elts:
        # a class the model does not know (not in KNOWN_EXC) is kept under its own name: `catches` lets it catch
        # nothing, so the clause drops out of the table and the obligation shows the new clause list
        names.append(extract.dotted(e).split(".")[-1] or extract.unparse(e))
    return sorted(set(names))


def _clause_tag(h):
    """what an `except` body does: "pass" | "raise" (bare re-raise / `raise <bound name>`) | "guess"
    (`return guess_it(fallback=<bound name>)`) | "other" (anything else)"""
    body = [x for x in h.body if not (isinstance(x, ast.Expr) and isinstance(x.value, ast.Constant))]
    if body and all(isinstance(x, ast.Pass) for x in body):
        return "pass"
    if len(body) == 1 and isinstance(body[0], ast.Raise) and body[0].cause is None \
            and (body[0].exc is None or (h.name and extract.dotted(body[0].exc) == h.name)):
        return "raise"
    if len(body) == 1 and isinstance(body[0], ast.Return) and isinstance(body[0].value, ast.Call) \
            and extract.dotted(body[0].value.func) == "guess_it" and not body[0].value.args \
            and len(body[0].value.keywords) == 1 and body[0].value.keywords[0].arg == "fallback" \
            and h.name and extract.dotted(body[0].value.keywords[0].value) == h.name:
        return "guess"
    # anything else (logging + re-raise, a different return …): its own tag — the clause then handles its
    # exceptions neither with "pass" nor with "guess", and the obligation fails with the new clause list shown
    return "other"


def _guards(tr, pred):
    """does the BODY of this try consist of one statement for which `pred` holds?"""
    return len(tr.body) == 1 and pred(tr.body[0])


def _try_guarding(fn, what, pred):
    """the unique `try` in `fn` (nested defs excluded) whose body is the single statement selected by `pred`;
    that statement must not occur outside a try either"""
    tries = []
    stack = list(fn.body)
    while stack:
        n = stack.pop()
        if isinstance(n, (ast.FunctionDef, ast.AsyncFunctionDef, ast.Lambda, ast.ClassDef)):
            continue
        if isinstance(n, ast.Try) and _guards(n, pred):
            tries.append(n)
        stack.extend(ast.iter_child_nodes(n))
    if len(tries) != 1:
        raise NotRecognised("%s: %d try statements guard it, expected 1" % (what, len(tries)))
    tr = tries[0]
    if tr.finalbody:
        raise NotRecognised("%s: try has a finally" % what)
    return tr


def _clauses(tr):
    return [(_clause_classes(h), _clause_tag(h)) for h in tr.handlers]


def _is_assign_call(stmt, target, func, nargs=0, kw=None):
    if not (isinstance(stmt, ast.Assign) and len(stmt.targets) == 1 and extract.dotted(stmt.targets[0]) == target):
        return False
    c = stmt.value
    if not (isinstance(c, ast.Call) and extract.dotted(c.func) == func and len(c.args) == nargs):
        return False
    return [k.arg for k in c.keywords] == (kw or [])


def _front_clauses(tree):
    """the `except` clauses of psutil.Process.name() around `cmdline = self.cmdline()`, of psutil.Process.exe()
    around `exe = self._proc.exe()` and around `exe = guess_it(fallback=exe)`, and the class `guess_it` selects
    the fallbacks it raises with — four facts, extracted independently of each other"""
    out = _Keys()

    def name_clauses():
        nm = extract.find_def(tree, "name", cls="Process")
        cl = _clauses(_try_guarding(nm, "name(): self.cmdline()",
                                    lambda st: _is_assign_call(st, "cmdline", "self.cmdline")))
        # no other call of cmdline() in name() (an unguarded one would bypass the clauses)
        if sum(1 for c in extract.calls_in(nm, "cmdline") if extract.dotted(c.func) == "self.cmdline") != 1:
            raise NotRecognised("name(): self.cmdline() is called more than once")
        return cl
    out.put("name", name_clauses)
    out.put("native", lambda: _clauses(_try_guarding(extract.find_def(tree, "exe", cls="Process"),
                                                     "exe(): self._proc.exe()",
                                                     lambda st: _is_assign_call(st, "exe", "self._proc.exe"))))
    out.put("guess", lambda: _clauses(_try_guarding(extract.find_def(tree, "exe", cls="Process"),
                                                    "exe(): guess_it(fallback=exe)",
                                                    lambda st: _is_assign_call(st, "exe", "guess_it", kw=["fallback"]))))

    def reraise():
        ex = extract.find_def(tree, "exe", cls="Process")
        gi = [n for n in ex.body if isinstance(n, ast.FunctionDef) and n.name == "guess_it"]
        if len(gi) != 1:
            raise NotRecognised("exe(): guess_it not found")
        sel = []
        for n in ast.walk(gi[0]):
            if isinstance(n, ast.If) and isinstance(n.test, ast.Call) and extract.dotted(n.test.func) == "isinstance" \
                    and len(n.test.args) == 2 and extract.dotted(n.test.args[0]) == "fallback":
                if not (len(n.body) == 1 and isinstance(n.body[0], ast.Raise)
                        and extract.dotted(n.body[0].exc) == "fallback" and not n.orelse):
                    raise NotRecognised("guess_it: isinstance branch is not `raise fallback`")
                # an unknown class name is kept as it is: `catches` knows no exception of it, the obligation fails
                sel.append(extract.dotted(n.test.args[1]).split(".")[-1] or extract.unparse(n.test.args[1]))
        if len(sel) != 1:
            raise NotRecognised("guess_it: %d isinstance(fallback, …) tests" % len(sel))
        if [extract.unparse(x) for x in gi[0].body if isinstance(x, ast.Return)] != ["return fallback"]:
            raise NotRecognised("guess_it does not end in `return fallback`")
        return sel[0]
    out.put("reraise", reraise)
    return out


def _decorated_with(cls_node, deco):
    """the methods of a class carrying decorator `deco` — also those defined under a class-level `if POSIX:` /
    `if hasattr(…):` (psutil.Process.uids is), nested functions and nested classes excluded"""
    out = []
    stack = list(cls_node.body)
    while stack:
        n = stack.pop()
        if isinstance(n, (ast.FunctionDef, ast.AsyncFunctionDef)):
            if any(extract.dotted(d).split(".")[-1] == deco for d in n.decorator_list):
                out.append(n.name)
            continue
        if isinstance(n, (ast.ClassDef, ast.Lambda)):
            continue
        stack.extend(x for x in ast.iter_child_nodes(n) if isinstance(x, ast.stmt))
    return sorted(set(out))


def _activated_in(fn):
    """names X of the `self.X.cache_activate(self)` / `self._proc.X…` statements of a function"""
    out = []
    for c in extract.calls_in(fn, "cache_activate"):
        d = extract.dotted(c.func).split(".")
        if len(d) >= 3 and d[0] == "self":
            out.append(".".join(d[1:-1]))
    return sorted(out)


def _memo_facts(linux, init):
    """which methods answer from a per-block cache inside oneshot(): the `@memoize_when_activated` methods of the
    platform Process and of the front-end Process, and what `oneshot_enter` / `Process.oneshot` activate"""
    out = _Keys()
    out.put("linuxMemo", lambda: _decorated_with(extract.find_class(linux, "Process"), "memoize_when_activated"))
    out.put("linuxEnter", lambda: _activated_in(extract.find_def(linux, "oneshot_enter", cls="Process")))
    out.put("frontMemo", lambda: _decorated_with(extract.find_class(init, "Process"), "memoize_when_activated"))
    out.put("frontEnter", lambda: _activated_in(extract.find_def(init, "oneshot", cls="Process")))
    return out


def _wrap_facts(linux):
    """`wrap_exceptions`: which path the FileNotFoundError handler tests to tell "the process is gone" (#2418)"""
    out = _Keys()

    def gone_test():
        fn = extract.find_def(linux, "wrap_exceptions")
        hs = [h for n in ast.walk(fn) if isinstance(n, ast.Try) for h in n.handlers
              if h.type is not None and "FileNotFoundError" in extract.unparse(h.type)]
        if len(hs) != 1:
            raise NotRecognised("wrap_exceptions: %d FileNotFoundError handlers" % len(hs))
        tests = [c for c in ast.walk(hs[0]) if isinstance(c, ast.Call)
                 and extract.dotted(c.func) in ("os.path.exists", "os.path.lexists", "os.path.isdir", "os.path.isfile")]
        if len(tests) != 1 or len(tests[0].args) != 1:
            return "no-existence-test" if not tests else "several-existence-tests"
        a = tests[0].args[0]
        if isinstance(a, ast.JoinedStr) and a.values and isinstance(a.values[-1], ast.Constant):
            return str(a.values[-1].value)          # what follows `{pid}`: "/stat"
        if isinstance(a, ast.JoinedStr):
            return ""                               # the path ends with `{pid}`: the directory itself
        return extract.unparse(a)
    out.put("goneTest", gone_test)

    def zombie_first():
        fn = extract.find_def(linux, "wrap_exceptions")
        res = {}
        for n in ast.walk(fn):
            if isinstance(n, ast.Try):
                for h in n.handlers:
                    nm = extract.unparse(h.type) if h.type is not None else ""
                    first = h.body[0] if h.body else None
                    res[nm] = isinstance(first, ast.Expr) and isinstance(first.value, ast.Call) \
                        and extract.dotted(first.value.func) == "self._raise_if_zombie"
        return sorted(k for k, v in res.items() if v)
    out.put("zombieFirst", zombie_first)
    return out


def _is_zombie_facts(linux):
    """`Process._is_zombie` parses stat itself: which parenthesis, which bytes after it, which letter"""
    out = _Keys()
    fn = extract.find_def(linux, "_is_zombie", cls="Process")

    def last_paren():
        cs = [c for c in ast.walk(fn) if isinstance(c, ast.Call) and extract.dotted(c.func) in ("data.rfind", "data.find",
                                                                                               "data.rindex", "data.index")]
        if len(cs) != 1 or extract.const(cs[0].args[0]) != b")":
            raise NotRecognised("_is_zombie: the search for ')' is not recognised")
        return extract.dotted(cs[0].func) in ("data.rfind", "data.rindex")
    out.put("last", last_paren)

    def _off(e):
        if isinstance(e, ast.BinOp) and isinstance(e.op, ast.Add) and extract.dotted(e.left) == "rpar":
            v = extract.const(e.right)
            if isinstance(v, int) and v >= 0:
                return v
        if extract.dotted(e) == "rpar":
            return 0
        raise NotRecognised("_is_zombie: slice bound %s" % extract.unparse(e))

    def window():
        sl = [n for n in ast.walk(fn) if isinstance(n, ast.Subscript) and extract.dotted(n.value) == "data"
              and isinstance(n.slice, ast.Slice)]
        if len(sl) != 1 or sl[0].slice.lower is None or sl[0].slice.upper is None:
            raise NotRecognised("_is_zombie: state slice not recognised")
        return (_off(sl[0].slice.lower), _off(sl[0].slice.upper))
    out.put("window", window)

    def letter():
        cmp = [n for n in ast.walk(fn) if isinstance(n, ast.Compare) and len(n.ops) == 1 and isinstance(n.ops[0], ast.Eq)
               and isinstance(n.comparators[0], ast.Constant) and isinstance(n.comparators[0].value, bytes)]
        if len(cmp) != 1:
            raise NotRecognised("_is_zombie: comparison with the state letter not recognised")
        return extract.const(cmp[0].comparators[0])
    out.put("letter", letter)
    return out


def _lean_clauses(cl):
    return extract.lean_list(cl, lambda c: extract.lean_pair(extract.lean_list(c[0], extract.lean_str),
                                                             extract.lean_str(c[1])))


def facts(snap, F):
    memo = {}

    def mod(rel):
        """a module's AST, parsed once; a syntax error / missing file skips only the facts that need it"""
        if rel not in memo:
            try:
                memo[rel] = extract.parse_module(snap, rel)
            except Exception as e:  # noqa: BLE001
                memo[rel] = NotRecognised("%s: %s: %s" % (rel, type(e).__name__, e))
        if isinstance(memo[rel], Exception):
            raise memo[rel]
        return memo[rel]

    def get(key, fn, *rels):
        """the `_Keys` of one source function (computed once); only a vanished function skips all of its facts"""
        if key not in memo:
            try:
                memo[key] = fn(*[mod(r) for r in rels])
            except Exception as e:  # noqa: BLE001
                memo[key] = e if isinstance(e, NotRecognised) else NotRecognised("%s: %s" % (type(e).__name__, e))
        if isinstance(memo[key], Exception):
            raise memo[key]
        return memo[key]

    L, C, I = "_pslinux.py", "_common.py", "__init__.py"
    nat = extract.lean_nat
    strs = lambda xs: extract.lean_list(xs, extract.lean_str)  # noqa: E731
    F.try_add("cmdlineSepTest", "Nat", lambda: nat(get("c", _cmdline_facts, L).want("test")),
              "cmdline(): the character tested by `data.endswith(...)` when choosing the separator")
    F.try_add("cmdlineSepNul", "Nat", lambda: nat(get("c", _cmdline_facts, L).want("nul")),
              "cmdline(): the separator when the test holds")
    F.try_add("cmdlineSepSpace", "Nat", lambda: nat(get("c", _cmdline_facts, L).want("space")),
              "cmdline(): the separator otherwise")
    F.try_add("cmdlineRule2Sep", "Nat", lambda: nat(get("c", _cmdline_facts, L).want("r2sep")),
              "cmdline(): `sep == ...` in the single-piece rule")
    F.try_add("cmdlineRule2In", "Nat", lambda: nat(get("c", _cmdline_facts, L).want("r2in")),
              "cmdline(): `... in data` in the single-piece rule")
    F.try_add("cmdlineRule2Split", "Nat", lambda: nat(get("c", _cmdline_facts, L).want("r2split")),
              "cmdline(): `data.split(...)` in the single-piece rule")
    F.try_add("cmdlineStripsOneSep", "Bool", lambda: extract.lean_bool(get("c", _cmdline_facts, L).want("strip1")),
              "cmdline(): exactly one trailing separator is removed (`if data.endswith(sep): data = data[:-1]`: true) "
              "or all of them (`data = data.rstrip(sep)`: false)")
    F.try_add("environNul", "Nat", lambda: nat(get("e", _environ_facts, C).want("nul")),
              "parse_environ_block: the entry terminator searched from `pos`")
    F.try_add("environEq", "Nat", lambda: nat(get("e", _environ_facts, C).want("eq")),
              "parse_environ_block: the character separating name and value")
    F.try_add("readlinkNul", "Nat", lambda: nat(get("r", _readlink_facts, L).want("nul")),
              "readlink(): `path.split(...)[0]`")
    F.try_add("deletedSuffix", "List Nat", lambda: extract.lean_bytes(get("r", _readlink_facts, L).want("suffix")),
              "readlink(): the suffix tested with endswith")
    F.try_add("deletedCut", "Nat", lambda: nat(get("r", _readlink_facts, L).want("cut")),
              "readlink(): number of characters cut by `path[:-N]`")
    F.try_add("nameMinLen", "Nat", lambda: nat(get("n", _name_facts, I).want("min")),
              "Process.name(): `len(...) >= N` (`> N-1`)")
    F.try_add("nameTestOnBytes", "Bool", lambda: extract.lean_bool(get("n", _name_facts, I).want("bytes")),
              "Process.name(): are the length and prefix tests made on the fs-encoded bytes (true) or on the decoded str (false)?")
    F.try_add("openTextNoNewlineTranslation", "Bool", lambda: extract.lean_bool(_open_text_raw(mod(C))),
              "open_text(): is the file opened with newline='\\n' or '' (true) or in universal-newlines mode (false)?")
    F.try_add("openTextEncoding", "String", lambda: extract.lean_str(get("t", _open_text_decoding, C).want("encoding")),
              "open_text(): the expression behind `encoding=` (a module-level name followed to its assignment)")
    F.try_add("openTextErrors", "String", lambda: extract.lean_str(get("t", _open_text_decoding, C).want("errors")),
              "open_text(): the expression behind `errors=` (a module-level name followed to its assignment)")
    CL = "List (List String × String)"
    F.try_add("nameCmdlineClauses", CL, lambda: _lean_clauses(get("f", _front_clauses, I).want("name")),
              "Process.name(): the except clauses around `cmdline = self.cmdline()`, in order: (classes, pass|raise|other)")
    F.try_add("exeNativeClauses", CL, lambda: _lean_clauses(get("f", _front_clauses, I).want("native")),
              "Process.exe(): the except clauses around `exe = self._proc.exe()`: (classes, guess|pass|raise|other)")
    F.try_add("exeGuessClauses", CL, lambda: _lean_clauses(get("f", _front_clauses, I).want("guess")),
              "Process.exe(): the except clauses around `exe = guess_it(fallback=exe)`: (classes, pass|raise|other)")
    F.try_add("guessReraiseClass", "String", lambda: extract.lean_str(get("f", _front_clauses, I).want("reraise")),
              "guess_it(): the class C of `if isinstance(fallback, C): raise fallback`")
    # seeded round 5: os.stat of the ' (deleted)' name failing with an errno other than ENOENT / EACCES
    F.try_add("existsStrictClauses", CL, lambda: _lean_clauses(_exists_strict_clauses(mod(L), mod(C))),
              "path_exists_strict(): the except clauses of the try around `os.stat(path)`, in order: (classes, false|true|raise|other)")
    F.try_add("readlinkStaleTest", "String", lambda: extract.lean_str(_stale_test(mod(L))),
              "readlink(): the function F of `path.endswith(' (deleted)') and not F(path)`")
    # round 3: what a oneshot() block caches, the #2418 test of wrap_exceptions, _is_zombie's own stat parser
    LS = "List String"
    F.try_add("linuxMemoized", LS, lambda: strs(get("m", _memo_facts, L, I).want("linuxMemo")),
              "_pslinux.Process: the methods decorated with @memoize_when_activated (sorted)")
    F.try_add("linuxOneshotEnter", LS, lambda: strs(get("m", _memo_facts, L, I).want("linuxEnter")),
              "_pslinux.Process.oneshot_enter: the methods X of `self.X.cache_activate(self)` (sorted)")
    F.try_add("frontMemoized", LS, lambda: strs(get("m", _memo_facts, L, I).want("frontMemo")),
              "psutil.Process: the methods decorated with @memoize_when_activated (sorted)")
    F.try_add("frontOneshotActivates", LS, lambda: strs(get("m", _memo_facts, L, I).want("frontEnter")),
              "psutil.Process.oneshot: the X of `self.X.cache_activate(self)` (sorted)")
    F.try_add("wrapGoneTest", "String", lambda: extract.lean_str(get("w", _wrap_facts, L).want("goneTest")),
              "wrap_exceptions, FileNotFoundError: what follows `{pid}` in the path whose existence is tested (#2418)")
    F.try_add("wrapZombieFirst", LS, lambda: strs(get("w", _wrap_facts, L).want("zombieFirst")),
              "wrap_exceptions: the handlers that begin with `self._raise_if_zombie()` (sorted)")
    F.try_add("isZombieLastParen", "Bool", lambda: extract.lean_bool(get("z", _is_zombie_facts, L).want("last")),
              "_is_zombie: is the LAST `)` of stat searched (rfind: true) or the first (find: false)?")
    F.try_add("isZombieStateWindow", "Nat × Nat",
              lambda: extract.lean_pair(*[nat(x) for x in get("z", _is_zombie_facts, L).want("window")]),
              "_is_zombie: `data[rpar + A : rpar + B]` as (A, B)")
    F.try_add("isZombieLetter", "List Nat", lambda: extract.lean_bytes(get("z", _is_zombie_facts, L).want("letter")),
              "_is_zombie: the bytes the state is compared with")


# ------------------------------------------------------------------------------ worlds <-> JSON

ERRNO = {"ENOENT": errno.ENOENT, "ESRCH": errno.ESRCH, "EACCES": errno.EACCES}


def stat_of(w):
    """state of /proc/<pid>/stat ITSELF while /proc/<pid> exists: "ok" | "missing" (a vanishing process keeps its
    directory a little longer than the files in it, psutil #2418) | "denied" (open answers EACCES)"""
    return w.get("stat", "ok") if w["dir"] else "ok"


def hx(b):
    return bytes(b).hex()


# ---- os.stat of a path outside procfs failing with an errno other than ENOENT / EACCES (seeded round 5)
# fs kind "err:<errno>": os.stat raises OSError(errno) — as whatever subclass CPython picks for it

def stat_err(kind):
    """errno of an fs kind "err:<n>", else None"""
    return int(kind[4:]) if isinstance(kind, str) and kind.startswith("err:") else None


def os_class(en):
    """name of the class CPython raises an OSError with this errno as"""
    return type(OSError(en, "x")).__name__


def errno_label(en):
    """evidence label: the name for the errnos a file system really answers, one bucket for the rest"""
    return errno.errorcode.get(en, str(en)) if en in FS_ERRNOS else "other-errno"


def fs_entry_json(p, k):
    en = stat_err(k)
    if en is None:
        return [hx(p), k]
    return [hx(p), "unstatable", en, os_class(en)]


def fs_entry_from_json(e):
    if len(e) == 4:
        return bytes.fromhex(e[0]), "err:%d" % e[2]
    return bytes.fromhex(e[0]), e[1]


# errnos a stat(2) of a path can really fail with besides ENOENT / EACCES / EPERM (ENOTDIR: a parent directory was
# replaced by a file; ELOOP; ENAMETOOLONG; dead NFS / FUSE mounts; …), and every errno of the host but those three
FS_ERRNOS = [errno.ENOTDIR, errno.ENAMETOOLONG, errno.ELOOP, errno.ESTALE, errno.EIO, errno.ENOTCONN, errno.ETIMEDOUT,
             errno.EOVERFLOW, errno.EINVAL, errno.ENOMEM, errno.ENXIO, errno.ENODEV, errno.EINTR, errno.EHOSTDOWN]
ALL_STAT_ERRNOS = sorted(set(errno.errorcode) - {errno.ENOENT, errno.EACCES, errno.EPERM})
# a REAL directory whose names really fail that way (fixed place, re-created on demand, so that a replay file
# names the same paths): app = a regular file, loop = a symlink to itself
REAL_ROOT = b"/tmp/psv-c12-realfs"
REAL_UNSTATABLE = [(REAL_ROOT + b"/app/bin/prog", errno.ENOTDIR), (REAL_ROOT + b"/loop/prog", errno.ELOOP),
                   (REAL_ROOT + b"/" + b"n" * 300 + b"/prog", errno.ENAMETOOLONG)]


def make_real_root():
    """(re)create REAL_ROOT; the list of (path, errno) whose ` (deleted)` name really fails that way here"""
    root = os.fsdecode(REAL_ROOT)
    os.makedirs(os.path.join(root, "dir"), exist_ok=True)
    for nm in ("app", os.path.join("dir", "real (deleted)")):
        if not os.path.isfile(os.path.join(root, nm)):
            with open(os.path.join(root, nm), "wb"):
                pass
    lp = os.path.join(root, "loop")
    if not os.path.islink(lp):
        os.symlink(lp, lp)
    ok = []
    for base, en in REAL_UNSTATABLE:
        try:
            os.stat(base + DELETED)
        except OSError as e:
            if e.errno == en:
                ok.append((base, en))
    return ok


def world_json(w):
    def f(x):
        return {"data": hx(x[1])} if x[0] == "data" else {"err": x[1]}

    def l(x):
        return {"target": hx(x[1])} if x[0] == "target" else {"err": x[1]}
    o = {"dir": w["dir"], "zombie": w["zombie"], "comm": hx(w["comm"]),
         "cmdline": f(w["cmdline"]), "environ": f(w["environ"]),
         "exe": l(w["exe"]), "cwd": l(w["cwd"]),
         "fs": [fs_entry_json(p, k) for p, k in sorted(w["fs"].items())],
         "uid": w.get("uid", 0), "tty": w.get("tty", 0),
         "users": [[u, hx(n)] for u, n in sorted(w.get("users", {}).items())],
         "ttys": [[t, hx(n)] for t, n in sorted(w.get("ttys", {}).items())]}
    if stat_of(w) != "ok":
        o["stat"] = stat_of(w)
    return o


def world_from_json(j):
    def f(x):
        return ("data", bytes.fromhex(x["data"])) if "data" in x else ("err", x["err"])

    def l(x):
        return ("target", bytes.fromhex(x["target"])) if "target" in x else ("err", x["err"])
    return {"dir": j["dir"], "zombie": j["zombie"], "comm": bytes.fromhex(j["comm"]),
            "cmdline": f(j["cmdline"]), "environ": f(j["environ"]), "exe": l(j["exe"]), "cwd": l(j["cwd"]),
            "fs": dict(fs_entry_from_json(e) for e in j["fs"]),
            "uid": j.get("uid", 0), "tty": j.get("tty", 0),
            "users": {u: bytes.fromhex(n) for u, n in j.get("users", [])},
            "ttys": {t: bytes.fromhex(n) for t, n in j.get("ttys", [])},
            "stat": j.get("stat", "ok")}


def step_json(s):
    o = {"call": s["call"], "w": world_json(s["w"])}
    if s.get("mode", "plain") != "plain":
        o["mode"] = s["mode"]
    if "w0" in s:
        o["w0"] = world_json(s["w0"])
        o["warm"] = list(s["warm"])
    if "extra" in s:
        o["extra"] = list(s["extra"])
    return o


def step_from_json(j):
    s = {"call": j["call"], "w": world_from_json(j["w"])}
    if "mode" in j:
        s["mode"] = j["mode"]
    if "w0" in j:
        s["w0"] = world_from_json(j["w0"])
        s["warm"] = list(j.get("warm", []))
    if "extra" in j:
        s["extra"] = list(j["extra"])
    return s


def case_json(case):
    o = {"family": case.get("family", "?"), "steps": [step_json(s) for s in case["steps"]]}
    if case.get("obj", "ctor") != "ctor":
        o["obj"] = case["obj"]
    return o


def case_from_json(j):
    c = {"family": j.get("family", "?"), "steps": [step_from_json(s) for s in j["steps"]]}
    if "obj" in j:
        c["obj"] = j["obj"]
    return c


USERS = {0: b"root", 1000: b"alice", 1001: "zo\u00e9".encode(), 65534: b"nobody"}
TTYS = {34816: b"/dev/pts/0", 34817: b"/dev/pts/1", 1025: b"/dev/tty1", 1088: b"/dev/ttyS0"}


def default_world():
    return {"dir": True, "zombie": False, "comm": b"prog", "cmdline": ("data", b"prog\0"),
            "environ": ("data", b""), "exe": ("err", "ENOENT"), "cwd": ("err", "ENOENT"), "fs": {},
            "uid": 1000, "tty": 0, "users": USERS, "ttys": TTYS}


# ------------------------------------------------------------------------------ call modes
#
# Every step is executed in one of these MODES; none of them may change an answer (C16), so the model side
# stays the same function of the file contents. The only subtlety is a oneshot() block whose cached sources
# (stat: name + tty_nr; status: uids) were read in an EARLIER world `w0` of the same block: the property then
# promises the answer for "cached parts as first read, everything else as it is now" (Lean: `Block.view`,
# theorem C12_oneshot_same_answers); the harness tells the driver what the block has cached.

MODES = ["plain", "oneshot", "oneshot_nested", "warm", "after_block", "as_dict", "as_dict_many",
         "oneshot_as_dict", "again", "reiter"]
OBJS = ["ctor", "iter", "iter_info"]
DICT_MODES = ("as_dict", "as_dict_many", "oneshot_as_dict")
CACHED_CALLS = ("name", "username", "terminal")
# front-end methods that read (and, in a block, cache) /proc/<pid>/stat resp. /proc/<pid>/status.
# ppid() / is_running() first check for PID reuse and remember a vanished /proc/<pid> for good (`_gone`, C01/C02's
# subject): the generators only run them in worlds where /proc/<pid> exists.
NEEDS_DIR = ("ppid", "is_running")
STAT_READERS = ("status", "cpu_times", "terminal", "name", "cpu_num", "ppid")
STATUS_READERS = ("uids", "username", "gids", "num_threads", "num_ctx_switches")
# warm-ups that must NOT leave anything behind in the block: a stale answer after one of them means that a method
# C12 speaks about has become block-cached (`_proc.exe` / `_proc.cwd` = the platform methods, called directly so that
# the front end's own `_exe` memo stays out of the picture)
WARM_EXTRAS = ("cmdline", "cwd", "create_time", "is_running", "nice", "environ", "environ", "_proc.exe", "_proc.exe",
               "_proc.cwd", "_proc.cmdline", "_proc.environ")
FRESH_WARMUPS = ("cmdline", "cwd", "environ", "_proc.exe", "_proc.cwd", "_proc.cmdline", "_proc.environ")
# modes / object sources usable when /proc/<pid>/stat itself is missing or unreadable (process_iter(), is_running()
# and the PID-reuse check read stat and have their own memory: C01/C02's subject)
STAT_SAFE_MODES = ("plain", "oneshot", "oneshot_nested", "again", "as_dict", "oneshot_as_dict")
# extras of as_dict(attrs=[call, …]): methods that cannot raise NoSuchProcess while /proc/<pid> exists (an
# exception other than AccessDenied/ZombieProcess of ANY attribute aborts as_dict, in an order we do not control)
DICT_EXTRAS = ("status", "ppid", "uids", "gids", "username", "terminal", "cwd", "create_time", "pid", "num_threads")


def block_of(s):
    """what the oneshot() block of a `warm` step has cached when the call is made (driver JSON), or None"""
    if s.get("mode") != "warm" or not s["w0"]["dir"]:
        return None
    w0 = s["w0"]
    b = {"stat": None, "uid": None}
    if any(c in STAT_READERS for c in s["warm"]):
        b["stat"] = [hx(w0["comm"]), w0["tty"]]
    if any(c in STATUS_READERS for c in s["warm"]):
        b["uid"] = w0["uid"]
    if b["stat"] is None and b["uid"] is None:
        return None
    return b


def atoms_of(case):
    """the single calls a case consists of: [(step index, call, world, block, via)]; `via` says how the result
    reaches the caller (direct / through as_dict / through process_iter(attrs=…).info)"""
    out = []
    steps = case["steps"]
    if case.get("obj") == "iter_info" and steps:
        s0 = steps[0]
        out.append((-1, s0["call"], s0["w"] if s0["w"]["dir"] else default_world(), None, "info"))
    for i, s in enumerate(steps):
        mode = s.get("mode", "plain")
        via = "dict" if mode in DICT_MODES else "direct"
        out.append((i, s["call"], s["w"], block_of(s), via))
        if mode == "again":
            out.append((i, s["call"], s["w"], None, via))
    return out


def through(via, o):
    """what the caller sees of outcome `o` (of model or spec) in this mode"""
    if o is None or via == "direct":
        return o
    if o.get("kind") == "exc" and o.get("exc") in ("AccessDenied", "ZombieProcess"):
        return {"kind": "ad_value"}
    if via == "info" and o.get("kind") == "exc" and o.get("exc") == "NoSuchProcess":
        return {"kind": "not-yielded"}
    return o


class _Sentinel:
    def __repr__(self):
        return "<ad_value>"


SENT = _Sentinel()


# ------------------------------------------------------------------------------ implementation side


class Impl:
    """Drives the real Process methods over a fake procfs; OS errors and the file system outside
    procfs are served from the current world."""

    def __init__(self, ctx):
        self.ps = ctx.psutil
        self.fp = FakeProc(self.ps, prefix="psv-c12-")
        self.fp.write("stat", b"cpu  1 2 3 4 5 6 7 8 9 10\nbtime 1700000000\n")
        self.root_b = os.fsencode(self.fp.root) + b"/"
        self.tree = tempfile.mkdtemp(prefix="psv-c12-tree-")
        self.tree_b = os.fsencode(self.tree) + b"/"
        probe = os.path.join(self.tree, ".probe")
        with open(probe, "wb"):
            pass
        self.st_file = os.stat(probe)
        self.st_dir = os.stat(self.tree)
        self.real_unstatable = make_real_root()
        self.real_b = REAL_ROOT + b"/"
        self.active = False
        self.fs = {}
        self.file_err = {}
        self.link_over = {}
        self.real = (os.stat, os.access, os.readlink)
        real_stat, real_access, real_readlink = self.real
        self.users = {}
        self.ttys = {}
        self.tty_paths = {}
        self.proc = None
        impl = self

        class _Pw:
            def __init__(self, name):
                self.pw_name = name

        class _PwdShim:
            @staticmethod
            def getpwuid(uid):
                if uid not in impl.users:
                    raise KeyError("getpwuid(): uid not found: %d" % uid)
                return _Pw(os.fsdecode(impl.users[uid]))

        class _GlobShim:
            @staticmethod
            def glob(pat):
                return [p for p in sorted(os.fsdecode(x) for x in impl.tty_paths) if fnmatch.fnmatchcase(p, pat)]

        self.saved_mods = (self.ps.pwd, self.ps._psposix.glob)
        self.ps.pwd = _PwdShim
        self.ps._psposix.glob = _GlobShim

        def key(path):
            if isinstance(path, (str, bytes)):
                return os.fsencode(path)
            return None

        def _stat(path, *a, **kw):
            if self.active:
                bp = key(path)
                if bp is not None and bp in self.tty_paths:
                    return os.stat_result((0o020620, 1, 1, 1, 0, 5, 0, 0, 0, 0), {"st_rdev": self.tty_paths[bp]})
                if bp is not None and b"\0" not in bp and not bp.startswith(self.root_b) \
                        and not bp.startswith(self.tree_b) and not bp.startswith(self.real_b):
                    ent = self.fs.get(bp, "absent")
                    if ent == "absent":
                        raise FileNotFoundError(errno.ENOENT, "No such file or directory", path)
                    if ent == "denied":
                        raise PermissionError(errno.EACCES, "Permission denied", path)
                    if stat_err(ent) is not None:       # OSError picks the subclass CPython maps the errno to
                        raise OSError(stat_err(ent), os.strerror(stat_err(ent)), path)
                    return self.st_dir if ent == "dir" else self.st_file
            return real_stat(path, *a, **kw)

        def _access(path, mode, *a, **kw):
            if self.active:
                bp = key(path)
                if bp is not None and b"\0" not in bp and not bp.startswith(self.root_b) \
                        and not bp.startswith(self.tree_b) and not bp.startswith(self.real_b):
                    ent = self.fs.get(bp, "absent")
                    if mode == os.X_OK:
                        return ent in ("filex", "dir")
                    return ent in ("filex", "file", "dir")
            return real_access(path, mode, *a, **kw)

        def _readlink(path, *a, **kw):
            if self.active:
                o = self.link_over.get(key(path))
                if o is not None:
                    if o[0] == "err":
                        raise OSError(ERRNO[o[1]], os.strerror(ERRNO[o[1]]), path)
                    return o[1]
            return real_readlink(path, *a, **kw)

        def _open(path, *a, **kw):
            if self.active:
                e = self.file_err.get(key(path))
                if e is not None:
                    raise OSError(ERRNO[e], os.strerror(ERRNO[e]), path)
            return builtins.open(path, *a, **kw)

        os.stat, os.access, os.readlink = _stat, _access, _readlink
        self.ps._common.open = _open

    def close(self):
        os.stat, os.access, os.readlink = self.real
        self.ps.pwd, self.ps._psposix.glob = self.saved_mods
        try:
            del self.ps._common.open
        except AttributeError:
            pass
        self.fp.close()
        shutil.rmtree(self.tree, ignore_errors=True)

    # ---- world → files
    def _stat_line(self, w):
        return b"%d (%s) %s 1 1 1 %d -1 4194304 0 0 0 0 5 6 0 0 20 0 1 0 1234 1000 10 18446744073709551615 " \
               b"0 0 0 0 0 0 0 0 0 0 0 0 17 0 0 0 0 0 0 0 0 0 0 0 0 0 0\n" \
               % (PID, w["comm"], b"Z" if w["zombie"] else b"S", w.get("tty", 0))

    def _status_file(self, w):
        uid = w.get("uid", 0)
        return (b"Name:\t%s\nUmask:\t0022\nState:\t%s\nTgid:\t%d\nPid:\t%d\nPPid:\t1\n"
                b"Uid:\t%d\t%d\t%d\t%d\nGid:\t%d\t%d\t%d\t%d\nThreads:\t1\n"
                b"voluntary_ctxt_switches:\t3\nnonvoluntary_ctxt_switches:\t4\n"
                % (w["comm"][:15].replace(b"\n", b"\\n"), b"Z (zombie)" if w["zombie"] else b"S (sleeping)", PID, PID,
                   uid, uid + 1, uid + 2, uid + 3, 100, 101, 102, 103))

    def materialise(self, w):
        fp = self.fp
        d = "%d" % PID
        fp.remove(d)
        self.fs = dict(w["fs"])
        self.file_err = {}
        self.link_over = {}
        self.users = w.get("users", {})
        self.ttys = w.get("ttys", {})
        self.tty_paths = {p: nr for nr, p in self.ttys.items()}
        if not w["dir"]:
            return
        if stat_of(w) != "missing":
            fp.write(d + "/stat", self._stat_line(w))
            if stat_of(w) == "denied":
                self.file_err[os.fsencode(fp.path(d + "/stat"))] = "EACCES"
        else:
            fp.mkdir(d)
        fp.write(d + "/status", self._status_file(w))
        for nm in ("cmdline", "environ"):
            kind, v = w[nm]
            p = os.fsencode(fp.path(d + "/" + nm))
            if kind == "data":
                fp.write(d + "/" + nm, v)
            elif v != "ENOENT":
                fp.write(d + "/" + nm, b"")
                self.file_err[p] = v
        for nm in ("exe", "cwd"):
            kind, v = w[nm]
            p = os.fsencode(fp.path(d + "/" + nm))
            if kind == "target":
                if v and b"\0" not in v and len(v) < 4000 and all(len(c) < 250 for c in v.split(b"/")):
                    fp.symlink(d + "/" + nm, v)        # a real symlink: os.readlink returns what was stored
                else:
                    self.link_over[p] = ("ret", os.fsdecode(v))
            elif v != "ENOENT":
                self.link_over[p] = ("err", v)

    # ---- calls
    def new_process(self):
        self.materialise(default_world())
        self.active = False
        return self.ps.Process(PID)

    def _pick(self, **kw):
        """the Process object psutil.process_iter() yields for PID (None if it is not yielded)"""
        got = None
        for p in self.ps.process_iter(**kw):
            if p.pid == PID:
                got = p
        return got

    def render(self, call, r):
        if r is SENT:
            return {"kind": "ad_value"}
        try:
            if call == "cmdline":
                if not isinstance(r, list) or not all(isinstance(x, str) for x in r):
                    return {"kind": "wrong-type", "repr": repr(r)[:200]}
                return {"kind": "ok", "args": [hx(os.fsencode(x)) for x in r]}
            if call == "environ":
                if not isinstance(r, dict):
                    return {"kind": "wrong-type", "repr": repr(r)[:200]}
                return {"kind": "ok", "dict": sorted([hx(os.fsencode(k)), hx(os.fsencode(v))] for k, v in r.items())}
            if call == "terminal":
                if r is None:
                    return {"kind": "ok", "opt": None}
                if not isinstance(r, str):
                    return {"kind": "wrong-type", "repr": repr(r)[:200]}
                return {"kind": "ok", "opt": hx(os.fsencode(r))}
            if not isinstance(r, str):
                return {"kind": "wrong-type", "repr": repr(r)[:200]}
            return {"kind": "ok", "str": hx(os.fsencode(r))}
        except Exception as e:  # un-encodable result
            return {"kind": "unencodable", "exc": type(e).__name__}

    def guarded(self, call, fn):
        """run `fn` with the OS answering from the current world; every exception is an observable"""
        self.active = True
        try:
            r = fn()
        except BaseException as e:  # noqa: BLE001
            if isinstance(e, (KeyboardInterrupt, SystemExit)):
                raise
            out = {"kind": "exc", "exc": type(e).__name__}
            if isinstance(e, OSError) and not isinstance(e, (FileNotFoundError, PermissionError, ProcessLookupError)):
                # an OSError no layer translated: what matters is that it is one, and its errno
                out = {"kind": "exc", "exc": "OSError", "errno": e.errno}
            if isinstance(e, self.ps.Error) and getattr(e, "pid", PID) != PID:
                out["wrong_pid"] = getattr(e, "pid", None)
            return out
        finally:
            self.active = False
        return self.render(call, r)

    def get_object(self, case):
        """(Process object or None, outcomes already produced)"""
        obj = case.get("obj", "ctor")
        if obj == "ctor" or not case["steps"]:
            return self.new_process(), []
        reset_psutil_state(self.ps)
        if obj == "iter":
            self.materialise(default_world())
            self.active = False
            return self._pick(), []
        s0 = case["steps"][0]
        call = s0["call"]
        self.materialise(s0["w"] if s0["w"]["dir"] else default_world())
        box = {}

        def it():
            box["p"] = self._pick(attrs=[call], ad_value=SENT)
            if box["p"] is None:
                return None
            return box["p"].info[call]
        o = self.guarded(call, it)
        if box.get("p") is None and o.get("kind") != "exc":
            o = {"kind": "not-yielded"}
        return box.get("p"), [o]

    def call_step(self, s):
        """outcomes of one step (two for mode `again`) on self.proc"""
        w, call, mode = s["w"], s["call"], s.get("mode", "plain")
        proc = self.proc

        def plain():
            return getattr(proc, call)()

        def via_dict(attrs):
            return proc.as_dict(attrs=attrs, ad_value=SENT)[call]

        def warmup():
            self.materialise(s["w0"])
            for c in s["warm"]:
                try:
                    tgt = proc
                    for part in c.split(".")[:-1]:
                        tgt = getattr(tgt, part)
                    getattr(tgt, c.split(".")[-1])()
                except Exception:  # noqa: BLE001 — only what the block has cached afterwards matters
                    pass

        if mode == "again":
            self.materialise(w)
            return [self.guarded(call, plain), self.guarded(call, plain)]
        if mode == "reiter" and w["dir"]:
            self.materialise(w)
            box = {}

            def again_from_iter():
                p2 = self._pick()
                if p2 is not None:
                    box["p"] = p2
                return getattr(p2 if p2 is not None else proc, call)()
            o = self.guarded(call, again_from_iter)
            if "p" in box:
                self.proc = box["p"]
            return [o]
        if mode == "oneshot":
            def fn():
                self.materialise(w)
                with proc.oneshot():
                    return plain()
        elif mode == "oneshot_nested":
            def fn():
                self.materialise(w)
                with proc.oneshot():
                    with proc.oneshot():
                        return plain()
        elif mode == "warm":
            def fn():
                with proc.oneshot():
                    warmup()
                    self.materialise(w)
                    return plain()
        elif mode == "after_block":
            def fn():
                with proc.oneshot():
                    warmup()
                self.materialise(w)
                return plain()
        elif mode == "as_dict":
            def fn():
                self.materialise(w)
                return via_dict([call])
        elif mode == "as_dict_many":
            def fn():
                self.materialise(w)
                return via_dict([call] + list(s.get("extra", [])))
        elif mode == "oneshot_as_dict":
            def fn():
                self.materialise(w)
                with proc.oneshot():
                    return via_dict([call])
        else:
            def fn():
                self.materialise(w)
                return plain()
        return [self.guarded(call, fn)]

    def sweep(self, call, blocks, zombie=False):
        """`call` (cmdline / environ) of ONE Process object on every file content of `blocks`: only the file is
        rewritten between the calls (the real front end + platform method + open_text on a real file)"""
        proc = self.new_process()
        w = default_world()
        w["zombie"] = zombie
        self.materialise(w)
        path = self.fp.path("%d/%s" % (PID, call))
        outs = []
        fn = getattr(proc, call)
        fd = os.open(path, os.O_WRONLY | os.O_CREAT)
        try:
            size = None
            for b in blocks:
                if len(b) != size:                     # (truncation is the slow part: the blocks come by length)
                    size = len(b)
                    os.ftruncate(fd, size)
                os.pwrite(fd, b, 0)
                outs.append(canon(self.guarded(call, fn)))
        finally:
            os.close(fd)
        return outs

    def run_case(self, case):
        """outcomes aligned with atoms_of(case) (shorter when process_iter did not yield the object)"""
        self.proc, outs = self.get_object(case)
        if self.proc is None:
            return outs
        for s in case["steps"]:
            outs.extend(self.call_step(s))
        return outs


def canon(o):
    if o is None:
        return None
    if o.get("kind") == "ok" and "dict" in o:
        return {"kind": "ok", "dict": sorted(o["dict"])}
    return o


def run_cases(ctx, impl, cases, drv=None):
    """[(case, [(impl, model, spec, step index) per single call])], number of driver lines"""
    lines = []
    all_atoms = []
    for c in cases:
        lines.append({"op": "reset"})
        ats = atoms_of(c)
        all_atoms.append(ats)
        for (_, call, w, block, _) in ats:
            ln = {"op": "step", "call": call, "w": world_json(w)}
            if block is not None:
                ln["block"] = block
            lines.append(ln)
    if drv is None:
        outs = ctx.driver().batch(lines)
    else:
        outs = [drv.ask(l) for l in lines]
    res = []
    i = 0
    for c, ats in zip(cases, all_atoms):
        i += 1
        impl_outs = impl.run_case(c)
        rows = []
        for k, (si, _, _, _, via) in enumerate(ats):
            m = outs[i]
            i += 1
            if "bad" in m:
                raise RuntimeError("driver rejected a step of %r: %s" % (case_json(c), m))
            if k < len(impl_outs):
                rows.append((canon(impl_outs[k]), canon(through(via, m["model"])), canon(through(via, m["spec"])), si))
        res.append((c, rows))
    return res, len(lines)


# ------------------------------------------------------------------------------ generators

E_ACUTE = "é".encode()          # c3 a9
EURO = "€".encode()             # e2 82 ac
EMOJI = "😀".encode()           # f0 9f 98 80


def rbytes(rng, n, alphabet=None):
    if alphabet is not None:
        return bytes(rng.choice(alphabet) for _ in range(n))
    return bytes(rng.randrange(1, 256) for _ in range(n))


WORDY = b"abcXYZ019-_./"


def gen_arg(rng):
    r = rng.random()
    if r < 0.15:
        return b""
    if r < 0.45:
        return rbytes(rng, rng.randrange(1, 9), WORDY)
    if r < 0.6:
        return rbytes(rng, rng.randrange(1, 6), WORDY + b" ")
    if r < 0.7:
        return rng.choice([E_ACUTE, EURO, EMOJI, b"\xc3", b"\xe2\x82", b"\xff", b"\r", b"\r\n", b"\n", b"=", b" "]) * rng.randrange(1, 3)
    if r < 0.8:
        return rbytes(rng, rng.randrange(1, 5), b"\r\n\t a")
    return rbytes(rng, rng.randrange(1, 10))


def gen_argv(rng):
    n = rng.choice([0, 1, 1, 1, 2, 2, 3, 4, 6, 12])
    return [gen_arg(rng) for _ in range(n)]


def render_argv(argv):
    return b"".join(a + b"\0" for a in argv)


def gen_title(rng):
    n = rng.randrange(1, 6)
    words = [rbytes(rng, rng.randrange(0, 7), WORDY + b":=") if rng.random() < 0.8 else gen_arg(rng).replace(b"\0", b"")
             for _ in range(n)]
    t = b" ".join(words)
    t += rng.choice([b"", b"", b" ", b"  ", b"\0", b" \0", b"\0\0"])
    return t or b"x"


PAGE = 4096


def kernel_cmdline(arg_area, env_area, kernel="new"):
    """the bytes of /proc/<pid>/cmdline given the memory of the argument area [arg_start, arg_end) and of the
    environment area that follows it (fs/proc/base.c).
    new = get_mm_cmdline (Linux >= 4.2, semantics of 5.3+): the argument area as it is, of any length — unless its
          last byte is not NUL (setproctitle overwrote it): then the C string at arg_start, running on into the
          environment area, its NUL included;
    old = proc_pid_cmdline (Linux < 4.2): at most one page; the setproctitle case (only when the area is shorter
          than a page) is cut at the first NUL, which is NOT included"""
    if kernel == "new":
        if not arg_area or arg_area.endswith(b"\0"):
            return arg_area
        allb = arg_area + env_area
        i = allb.find(b"\0")
        return allb if i < 0 else allb[:i + 1]
    buf = arg_area[:PAGE]
    if buf and not buf.endswith(b"\0") and len(arg_area) < PAGE:
        i = buf.find(b"\0")
        if i >= 0:
            return buf[:i]
        buf = buf + env_area[:PAGE - len(buf)]
        i = buf.find(b"\0")
        return buf if i < 0 else buf[:i]
    return buf


TITLES = {
    "nginx": ([b"/usr/sbin/nginx", b"-g", b"daemon off;"],
              [b"nginx: master process /usr/sbin/nginx -g daemon off;", b"nginx: worker process",
               b"nginx: cache manager process", b"nginx: worker process is shutting down"]),
    "sshd": ([b"/usr/sbin/sshd", b"-D", b"-R"],
             [b"sshd: user@pts/0", b"sshd: user [priv]", b"sshd: user@notty",
              b"sshd: /usr/sbin/sshd -D [listener] 0 of 10-100 startups"]),
    "postgres": ([b"/usr/lib/postgresql/14/bin/postgres", b"-D", b"/var/lib/postgresql/14/main", b"-c",
                  b"config_file=/etc/postgresql/14/main/postgresql.conf"],
                 [b"postgres: 14/main: checkpointer ", b"postgres: 14/main: walwriter ",
                  b"postgres: 14/main: alice mydb 10.0.0.5(51234) idle", b"postgres: alice mydb [local] SELECT waiting",
                  b"postgres: 14/main: logical replication launcher "]),
    "python": ([b"/usr/bin/python3", b"app.py", b"--workers", b"4"],
               [b"gunicorn: master [app]", b"gunicorn: worker [app]", "python: t\u00e2che \u21161".encode(), b"w",
                b"celery worker -A proj"]),
    "sh": ([b"sh"], [b"(sd-pam)", b"php-fpm: pool www", b"avahi-daemon: running [host.local]", b"x y"]),
}
ENV_AREAS = [b"", b"LANG=C\0", b"LANG=C\0PATH=/usr/local/sbin:/usr/local/bin:/usr/sbin:/usr/bin\0HOME=/root\0",
             b"INVOCATION_ID=0123456789abcdef0123456789abcdef\0JOURNAL_STREAM=8:12345\0" + b"X=" + b"y" * 300 + b"\0"]
TITLE_STYLES = ["pad_all", "pad_all", "pad_argv", "strcpy", "space_pad", "prctl", "prctl_nul"]


def proctitle_memory(rng, prog=None, style=None, title=None):
    """(argument area, environment area, comm, description) after a process rewrote its title the way real
    programs do"""
    prog = prog or rng.choice(sorted(TITLES))
    argv, titles = TITLES[prog]
    title = title if title is not None else rng.choice(titles)
    style = style or rng.choice(TITLE_STYLES)
    arg = render_argv(argv)
    env = rng.choice(ENV_AREAS)
    a, n = len(arg), len(arg) + len(env)
    comm = argv[0].split(b"/")[-1][:15]
    if style == "pad_all":        # nginx, sshd, postgres, python-setproctitle: environ moved away, the whole of
        t = title[:n - 1]         # [argv[0], end of environ) is the buffer, the rest is padded with NUL
        mem = t + b"\0" * (n - len(t))
    elif style == "pad_argv":     # only the argument area is reused
        t = title[:a - 1]
        mem = t + b"\0" * (a - len(t)) + env
    elif style == "space_pad":    # SPT_PADCHAR ' ' / sendmail style: blanks up to the final NUL
        t = title[:a - 1]
        mem = t + b" " * (a - 1 - len(t)) + b"\0" + env
    elif style == "strcpy":       # strcpy(argv[0], title): what was there before stays behind the NUL
        t = title[:n - 1]
        mem = t + b"\0" + (arg + env)[len(t) + 1:]
    else:                         # prctl(PR_SET_MM_ARG_START/END) to a fresh buffer, with or without the NUL
        mem_arg = title + (b"\0" if style == "prctl_nul" else b"")
        return mem_arg, env, comm, "%s/%s" % (prog, style)
    return mem[:a], mem[a:], comm, "%s/%s" % (prog, style)


def gen_long_argv(rng):
    """an argument vector whose layout exceeds one page (and sometimes open_text's 32 KiB buffer)"""
    total = rng.choice([PAGE - 3, PAGE, PAGE + 1, PAGE + 200, 2 * PAGE + 17, 40000])
    argv = [b"/usr/bin/java"]
    size = len(argv[0]) + 1
    while size < total:
        a = rng.choice([b"-Dkey=" + b"v" * rng.randrange(1, 200), b"", b"--flag", b"file name with spaces.txt",
                        E_ACUTE * rng.randrange(1, 40), b"x" * rng.randrange(1, 600)])
        argv.append(a)
        size += len(a) + 1
    return argv


def gen_cmdline_bytes(rng, fam):
    if fam == "argv":
        return render_argv(gen_argv(rng))
    if fam == "title":
        return gen_title(rng)
    if fam == "empty":
        return b""
    # mixed: arbitrary bytes, NULs and spaces anywhere
    n = rng.randrange(1, 14)
    return rbytes(rng, n, b"\0\0 ab\r\n/=" + bytes([rng.randrange(1, 256)]))


def gen_env_block(rng):
    entries = []
    keys = [b"PATH", b"HOME", b"A", b"LANG", b"X_Y", E_ACUTE, b"a b"]
    n = rng.randrange(0, 8)
    for _ in range(n):
        r = rng.random()
        k = rng.choice(keys) if rng.random() < 0.8 else rbytes(rng, rng.randrange(1, 5)).replace(b"=", b"k")
        v = rng.choice([b"", b"1", b"/usr/bin:/bin", b"a=b", b"==", b"x\ry", b"x\r\ny", b" ", E_ACUTE, b"\xff\xfe"]) \
            if rng.random() < 0.8 else rbytes(rng, rng.randrange(0, 8))
        if r < 0.62:
            entries.append(k + b"=" + v)
        elif r < 0.74:
            entries.append(k)                      # no '='
        elif r < 0.84:
            entries.append(b"=" + k + b"=" + v)   # leading '='
        elif r < 0.92:
            entries.append(b"")                    # empty entry: the end, the rest is garbage
        else:
            entries.append(b"=")
    blk = b"".join(e + b"\0" for e in entries)
    r = rng.random()
    if r < 0.2:
        blk += rng.choice([b"TAIL=unterminated", b"garbage", b"=", b"Z=1"])
    elif r < 0.3:
        blk = b"\0" + blk
    return blk


DELETED = b" (deleted)"


def gen_link(rng, fs):
    """a link state; registers what the file system says about the suffixed path in `fs`"""
    r = rng.random()
    if r < 0.12:
        return ("err", rng.choice(["ENOENT", "ESRCH", "EACCES"]))
    base = rng.choice([b"/usr/bin/prog", b"/", b"/home/u/my dir/x", b"/opt/" + E_ACUTE * 3, b"rel/path",
                       b"/bin/" + rbytes(rng, rng.randrange(1, 6)).replace(b"/", b"_"), b"", b"/a (deleted)"])
    t = base
    if r < 0.55:
        n = rng.choice([1, 1, 1, 2])
        t = base + DELETED * n
        fs[t] = rng.choice(["absent", "absent", "file", "filex", "dir", "denied", gen_stat_err(rng)])
        if n == 2:
            fs[base + DELETED] = rng.choice(["absent", "file", gen_stat_err(rng)])
    elif r < 0.65:
        t = base + rng.choice([b" (deleted", b"(deleted)", b" (deleted) ", b" (Deleted)"])
    if rng.random() < 0.25:
        t = t + b"\0" + rng.choice([b"", b" (deleted)", b"new", b"\0x", rbytes(rng, 3)])
    return ("target", t)


def gen_stat_err(rng):
    """an fs kind "os.stat fails with another errno": mostly the ones a file system really answers, else any"""
    return "err:%d" % (rng.choice(FS_ERRNOS) if rng.random() < 0.75 else rng.choice(ALL_STAT_ERRNOS))


def gen_fs_for(rng, path, fs):
    if path and b"\0" not in path:
        fs[path] = rng.choice(["absent", "file", "filex", "filex", "filex", "dir", "denied", gen_stat_err(rng)])


def mb_name(rng, nbytes):
    """a name of exactly `nbytes` bytes mixing ASCII and multi-byte characters (cut anywhere)"""
    s = b""
    while len(s) < nbytes + 4:
        s += rng.choice([b"a", b"k", b"-", E_ACUTE, E_ACUTE, EURO, EMOJI, b"\xff"])
    return s[:nbytes]


def gen_name_pair(rng):
    """(comm, argv0): around the 15-byte boundary, related in every way"""
    L = rng.choice([1, 7, 13, 14, 15, 15, 15, 15, 16])
    style = rng.random()
    if style < 0.45:
        full = rbytes(rng, L + rng.randrange(0, 8), b"abcdefgh-_.0")
    elif style < 0.85:
        full = mb_name(rng, L + rng.randrange(0, 8))
    else:
        full = rbytes(rng, L + rng.randrange(0, 8)).replace(b"/", b"_").replace(b"\0", b"_")
    comm = full[:L]
    rel = rng.random()
    if rel < 0.5:
        basename = full                               # comm is a prefix (maybe equal)
    elif rel < 0.65:
        basename = full[:L - 1] + b"#" + full[L:] if L > 0 else full   # differs in the last byte of comm
    elif rel < 0.75:
        basename = full[:max(0, L - rng.randrange(1, 4))]               # shorter than comm
    elif rel < 0.85:
        basename = b"other"
    else:
        basename = b""
    d = rng.choice([b"", b"/usr/bin/", b"./", b"/", b"/opt/my app/", b"../x/"])
    argv0 = d + basename + (b"/" if rng.random() < 0.05 else b"")
    return comm.replace(b"\0", b"_") or b"x", argv0


FAMILIES = ["argv", "title", "mixed", "empty", "environ", "link", "exe_fallback", "exe_cache", "name",
            "tree", "anything", "exe_denied", "name_err", "zombie_id", "oneshot_reuse", "proctitle", "environ_kernel",
            "vanishing", "paren_comm", "unstatable"]

# names with a `)` (and what looks like a state letter behind it): `_is_zombie` has its OWN parser of stat (the
# state letter is what follows the LAST `)`), apart from `_parse_stat_file`
PAREN_COMMS = [b"a) Z", b"x) S", b")", b") Z (", b"(a) Z b", b"Z) Z) S", b"a)Z", b"k) R (z) Z"]

UIDS = [0, 1000, 1001, 65534, 12345, 4294967294]
TTY_NRS = [0, 34816, 34817, 1025, 1088, 99999]


def gen_identity(rng, w):
    w["uid"] = rng.choice(UIDS)
    w["tty"] = rng.choice(TTY_NRS)


def gen_w0(rng, w, call):
    """the world in which the warm-up calls of a `warm` / `after_block` step run (the step's own world is
    what the call under test sees afterwards)"""
    w0 = dict(w)
    if rng.random() < 0.25:
        return w0                                      # unchanged world: a warm cache, the same answers
    if rng.random() < 0.7:
        w0["comm"] = gen_name_pair(rng)[0]
    w0["uid"] = rng.choice(UIDS)
    w0["tty"] = rng.choice(TTY_NRS)
    if rng.random() < 0.3:
        w0["zombie"] = not w["zombie"]
    if rng.random() < 0.3:
        w0["cmdline"] = ("data", gen_cmdline_bytes(rng, rng.choice(["argv", "title", "empty"])))
    if rng.random() < 0.5:
        w0["exe"] = ("target", b"/usr/bin/earlier")
        w0["cwd"] = ("target", b"/earlier")
    if rng.random() < 0.5:
        w0["environ"] = ("data", b"EARLIER=1\0")
    r = rng.random()
    if r < 0.08:
        w0["dir"] = False                              # the warm-up fails: nothing is cached
    elif r < 0.16 and call not in CACHED_CALLS and w["dir"]:
        w0["dir"] = True
    return w0


def gen_warm(rng):
    warm = []
    r = rng.random()
    if r < 0.8:
        warm.append(rng.choice(STAT_READERS))
    if r > 0.2 or rng.random() < 0.5:
        warm.append(rng.choice(STATUS_READERS))
    for _ in range(rng.randrange(0, 3)):
        warm.append(rng.choice(WARM_EXTRAS + STAT_READERS + STATUS_READERS))
    rng.shuffle(warm)
    return warm


def set_mode(rng, case, s, mode):
    if stat_of(s["w"]) != "ok" and mode not in STAT_SAFE_MODES:
        mode = rng.choice(STAT_SAFE_MODES)
    if mode == "reiter" and case.get("obj", "ctor") == "ctor":
        mode = "plain"
    if mode in ("warm", "after_block"):
        s["w0"] = gen_w0(rng, s["w"], s["call"])
        if mode == "warm" and s["call"] in CACHED_CALLS and s["w0"]["dir"] and not s["w"]["dir"]:
            s["w0"]["dir"] = False                     # (a cached source outliving /proc/<pid> is C16's subject)
        s["warm"] = [c for c in gen_warm(rng) if s["w0"]["dir"] or c not in NEEDS_DIR]
    if mode == "as_dict_many" and not s["w"]["dir"]:
        mode = "as_dict"
    if mode == "as_dict_many":
        s["extra"] = rng.sample(DICT_EXTRAS, rng.randrange(1, 5))
        s["extra"] = [x for x in s["extra"] if x != s["call"]]
    if mode != "plain":
        s["mode"] = mode


def decorate(rng, case):
    """choose how the object is obtained and the mode of every step"""
    case["obj"] = rng.choice(["ctor", "ctor", "iter", "iter", "iter_info"])
    if any(stat_of(s["w"]) != "ok" for s in case["steps"]):
        case["obj"] = rng.choice(["ctor", "iter"])
    steps = []
    for s in case["steps"]:
        s = dict(s)
        mode = rng.choice(MODES) if rng.random() < 0.75 else "plain"
        set_mode(rng, case, s, mode)
        steps.append(s)
    case["steps"] = steps
    return case


def gen_case(rng, fam, impl=None):
    w = default_world()
    steps = []
    if fam in ("argv", "title", "mixed", "empty"):
        w["cmdline"] = ("data", gen_cmdline_bytes(rng, fam))
        w["zombie"] = rng.random() < (0.5 if fam == "empty" else 0.1)
        if rng.random() < 0.06:
            w["cmdline"] = ("err", rng.choice(["ENOENT", "ESRCH", "EACCES"]))
        if rng.random() < 0.04:
            w["dir"] = False
        steps = [{"call": "cmdline", "w": w}]
    elif fam == "environ":
        w["environ"] = ("data", gen_env_block(rng))
        if rng.random() < 0.05:
            w["environ"] = ("err", rng.choice(["ENOENT", "ESRCH", "EACCES"]))
        w["zombie"] = rng.random() < 0.1
        steps = [{"call": "environ", "w": w}]
    elif fam == "link":
        w["exe"] = gen_link(rng, w["fs"])
        w["cwd"] = gen_link(rng, w["fs"])
        w["zombie"] = rng.random() < 0.25
        w["dir"] = rng.random() >= 0.08
        steps = [{"call": "cwd", "w": w}, {"call": "exe", "w": w}]
    elif fam in ("exe_fallback", "exe_cache"):
        nsteps = 1 if fam == "exe_fallback" else rng.randrange(2, 5)
        for _ in range(nsteps):
            w = default_world()
            r = rng.random()
            if r < 0.4:
                w["exe"] = ("err", rng.choice(["ENOENT", "ESRCH"]))
            elif r < 0.7:
                w["exe"] = ("err", "EACCES")
            elif r < 0.8:
                w["exe"] = ("target", rng.choice([b"", b"\0garbage"]))
            else:
                w["exe"] = gen_link(rng, w["fs"])
            a0 = rng.choice([b"/usr/bin/prog", b"/usr/bin/prog", b"prog", b"./prog", b"/opt/my app/run", b"", b"/",
                             b"/bin/" + E_ACUTE, b"/x\rb"])
            rest = [gen_arg(rng) for _ in range(rng.randrange(0, 3))]
            form = rng.random()
            if form < 0.7:
                data = render_argv([a0] + rest)
            elif form < 0.85:
                data = b" ".join([a0] + rest)
            elif form < 0.93:
                data = a0 + b"\0x y"               # NUL inside a space-separated piece
            else:
                data = b""
            w["cmdline"] = ("data", data)
            if rng.random() < 0.08:
                w["cmdline"] = ("err", rng.choice(["EACCES", "ENOENT", "ESRCH"]))
            for p in {a0, a0.split(b" ")[0], (a0 + b"\0x y").split(b" ")[0]}:
                gen_fs_for(rng, p, w["fs"])
            w["zombie"] = rng.random() < 0.12
            if rng.random() < 0.04:
                w["dir"] = False
            steps.append({"call": "exe", "w": w})
    elif fam == "name":
        comm, a0 = gen_name_pair(rng)
        w["comm"] = comm
        form = rng.random()
        if form < 0.6:
            data = render_argv([a0] + [gen_arg(rng) for _ in range(rng.randrange(0, 3))])
        elif form < 0.75:
            data = a0 + b" --flag"
        elif form < 0.85:
            data = b""
        else:
            data = a0 + b"\0"
        w["cmdline"] = ("data", data)
        r = rng.random()
        if r < 0.1:
            w["cmdline"] = ("err", rng.choice(["EACCES", "EACCES", "ENOENT", "ESRCH"]))
        w["zombie"] = rng.random() < 0.15
        if rng.random() < 0.03:
            w["dir"] = False
        steps = [{"call": "name", "w": w}]
    elif fam == "tree":
        # the file system outside procfs is REAL here: files in a temporary tree
        sub = "t%d" % rng.randrange(10**9)
        os.makedirs(os.path.join(impl.tree, sub, "bin"), exist_ok=True)
        base = os.fsencode(os.path.join(impl.tree, sub, "bin"))
        kinds = {}
        for nm, mode in ((b"run", 0o755), (b"data", 0o644), (b"gone (deleted)", 0o755)):
            p = base + b"/" + nm
            with open(p, "wb"):
                pass
            os.chmod(p, mode)
            kinds[p] = "filex" if mode & 0o100 else "file"
        kinds[base] = "dir"
        target = rng.choice([base + b"/run", base + b"/data", base + b"/gone (deleted)", base + b"/nope (deleted)",
                             base + b"/nope", base])
        r = rng.random()
        w["exe"] = ("target", target) if r < 0.4 else ("err", rng.choice(["ENOENT", "EACCES"]))
        w["cwd"] = ("target", rng.choice([base, base + b" (deleted)", base + b"/gone (deleted)"]))
        a0 = rng.choice([base + b"/run", base + b"/data", base + b"/nope", base, b"run"])
        w["cmdline"] = ("data", render_argv([a0, b"-x"]))
        w["fs"] = {p: k for p, k in kinds.items()}     # what the real tree says; everything else there is absent
        steps = [{"call": "cwd", "w": w}, {"call": "exe", "w": w}, {"call": "exe", "w": w}]
    elif fam == "exe_denied":
        # every documented branch of the front-end exe(): link denied / withheld / readable x what cmdline() says
        for _ in range(rng.randrange(1, 4)):
            w = default_world()
            w["exe"] = rng.choice([("err", "EACCES"), ("err", "EACCES"), ("err", "ENOENT"), ("err", "ESRCH"),
                                   ("target", b""), ("target", b"/usr/bin/real")])
            a0 = rng.choice([b"/usr/bin/prog", b"/opt/my app/run", b"prog", b"", b"/", b"/bin/" + E_ACUTE])
            w["cmdline"] = rng.choice([("data", render_argv([a0, b"-x"])), ("data", render_argv([a0, b"-x"])),
                                       ("data", a0 + b" --title"), ("data", b""),
                                       ("err", "EACCES"), ("err", "ESRCH"), ("err", "ENOENT")])
            for p in {a0, a0.split(b" ")[0]}:
                gen_fs_for(rng, p, w["fs"])
            w["zombie"] = rng.random() < 0.2
            if rng.random() < 0.04:
                w["dir"] = False
            steps.append({"call": "exe", "w": w})
    elif fam == "name_err":
        # name() of every length x every way cmdline() can fail
        comm, a0 = gen_name_pair(rng)
        w["comm"] = comm
        w["cmdline"] = rng.choice([("err", "EACCES"), ("err", "ESRCH"), ("err", "ENOENT"), ("data", b""),
                                   ("data", render_argv([a0]))])
        w["zombie"] = rng.random() < 0.5
        if rng.random() < 0.05:
            w["dir"] = False
        steps = [{"call": "name", "w": w}, {"call": "cmdline", "w": w}]
    elif fam == "zombie_id":
        # who a zombie is and what it no longer has: username / terminal / name answer, cwd / exe / cmdline do not
        w["zombie"] = rng.random() < 0.8
        w["comm"] = gen_name_pair(rng)[0]
        gen_identity(rng, w)
        if w["zombie"]:
            w["cmdline"] = rng.choice([("data", b""), ("data", b""), ("err", "ENOENT"), ("err", "ESRCH"), ("err", "EACCES")])
            w["exe"] = rng.choice([("err", "ENOENT"), ("err", "ESRCH"), ("err", "EACCES"), ("target", b"/usr/bin/was")])
            w["cwd"] = rng.choice([("err", "ENOENT"), ("err", "ESRCH"), ("err", "EACCES"), ("target", b"/was")])
            w["environ"] = rng.choice([("data", b""), ("err", "EACCES"), ("err", "ESRCH")])
        else:
            w["exe"] = gen_link(rng, w["fs"])
            w["cwd"] = gen_link(rng, w["fs"])
        if rng.random() < 0.05:
            w["dir"] = False
        calls = ["username", "terminal", "cwd", "name", "exe", "cmdline", "environ"]
        rng.shuffle(calls)
        steps = [{"call": c, "w": w} for c in calls[:rng.randrange(2, 8)]]
    elif fam == "proctitle":
        # what the kernel exposes after a real program rewrote its title / for an argv longer than a page
        r = rng.random()
        if r < 0.75:
            arg, env, comm, _ = proctitle_memory(rng)
            data = kernel_cmdline(arg, env, rng.choice(["new", "new", "old"]))
        else:
            argv = gen_long_argv(rng)
            arg, comm = render_argv(argv), b"java"
            data = kernel_cmdline(arg, b"LANG=C\0", rng.choice(["new", "old", "old"]))
        w["cmdline"] = ("data", data)
        w["comm"] = comm
        w["zombie"] = rng.random() < 0.05
        if rng.random() < 0.5:
            w["exe"] = ("err", rng.choice(["ENOENT", "EACCES"]))
        first = data.split(b"\0")[0]
        for p in {first, first.split(b" ")[0]}:
            if len(p) < 200:
                gen_fs_for(rng, p, w["fs"])
        steps = [{"call": "cmdline", "w": w}, {"call": "name", "w": w}, {"call": "exe", "w": w}]
    elif fam == "environ_kernel":
        # realistic environments as the kernel lays them out: longer than a page, cut at 4096 bytes (old kernels)
        # or anywhere, values with newlines (exported shell functions), `=x` entries, duplicates
        pool = [(b"PATH", b"/usr/local/sbin:/usr/local/bin:/usr/sbin:/usr/bin:/sbin:/bin"), (b"HOME", b"/home/alice"),
                (b"LANG", b"en_US.UTF-8"), (b"BASH_FUNC_greet%%", b"() {  echo hi\n echo there\n}"),
                (b"PS1", b"\\u@\\h:\\w\\$ "), (b"MULTI", b"line1\nline2\n"), (b"EMPTY", b""), (b"EQ", b"a=b=c"),
                (b"LS_COLORS", b"rs=0:di=01;34:" * rng.randrange(1, 120)), (b"PATH", b"/opt/bin"), (b"HOME", b"/root"),
                (E_ACUTE + b"_VAR", b"\xff\xfe"), (b"NL\nNAME", b"v"), (b"TERM", b"xterm-256color")]
        n = rng.choice([1, 3, 6, 10, 14, 30])
        entries = []
        for _ in range(n):
            k, v = rng.choice(pool)
            q = rng.random()
            if q < 0.8:
                entries.append(k + b"=" + v)
            elif q < 0.88:
                entries.append(b"=" + v)               # empty NAME
            elif q < 0.94:
                entries.append(k)                      # no '='
            else:
                entries.append(b"=")
        blk = b"".join(e + b"\0" for e in entries)
        q = rng.random()
        if q < 0.3:
            if len(blk) < PAGE:                        # make it longer than a page, then cut like an old kernel
                blk += (b"FILL=" + b"z" * 700 + b"\0") * 7
            blk = blk[:PAGE]
        elif q < 0.5 and blk:
            blk = blk[:rng.randrange(0, len(blk) + 1)]  # cut anywhere
        elif q < 0.6:
            blk += b"\0" + b"GARBAGE=after-the-end\0"
        w["environ"] = ("data", blk)
        w["zombie"] = rng.random() < 0.05
        steps = [{"call": "environ", "w": w}]
    elif fam == "vanishing":
        # /proc/<pid> still listed while its stat is already gone (psutil #2418), or stat unreadable: every call x
        # every state of its own file / link
        w["stat"] = rng.choice(["missing", "missing", "missing", "denied"])
        w["zombie"] = rng.random() < 0.4            # what stat WOULD say: nobody can read it
        w["comm"] = gen_name_pair(rng)[0]
        gen_identity(rng, w)
        fe = lambda: rng.choice([("err", "ENOENT"), ("err", "ENOENT"), ("err", "ESRCH"), ("err", "EACCES")])  # noqa: E731
        w["cmdline"] = fe() if rng.random() < 0.7 else ("data", rng.choice([b"", b"/usr/bin/prog\0-x\0"]))
        w["environ"] = fe() if rng.random() < 0.7 else ("data", b"A=1\0")
        w["exe"] = fe() if rng.random() < 0.7 else ("target", b"/usr/bin/prog")
        w["cwd"] = fe() if rng.random() < 0.7 else ("target", b"/")
        w["fs"] = {b"/usr/bin/prog": "filex"}
        calls = ["cmdline", "environ", "name", "terminal", "cwd", "exe", "username", "cmdline", "name"]
        rng.shuffle(calls)
        steps = [{"call": c, "w": w} for c in calls[:rng.randrange(2, 7)]]
    elif fam == "paren_comm":
        w["comm"] = rng.choice(PAREN_COMMS)
        w["zombie"] = rng.random() < 0.5
        gen_identity(rng, w)
        w["cmdline"] = rng.choice([("data", b""), ("data", b""), ("err", "ESRCH"), ("err", "ENOENT"),
                                   ("data", render_argv([b"/bin/" + w["comm"], b"x"]))])
        w["environ"] = rng.choice([("data", b"A=1\0"), ("err", "ESRCH"), ("err", "ENOENT")])
        w["exe"] = rng.choice([("err", "ENOENT"), ("err", "ESRCH"), ("err", "EACCES"), ("target", b"/usr/bin/p")])
        w["cwd"] = rng.choice([("err", "ENOENT"), ("err", "ESRCH"), ("target", b"/")])
        calls = ["cmdline", "environ", "cwd", "exe", "name", "terminal"]
        rng.shuffle(calls)
        steps = [{"call": c, "w": w} for c in calls[:rng.randrange(2, 6)]]
    elif fam == "unstatable":
        # os.stat of the ` (deleted)` name of exe / cwd — or of cmdline()[0], which exe() guesses from — fails with an
        # errno other than ENOENT / EACCES: injected for any name, or REAL (a parent that is a file, a symlink loop,
        # a component longer than NAME_MAX). Nothing of that name exists: the suffix is stale, no OSError may leak.
        real = impl.real_unstatable if impl is not None else []
        for _ in range(rng.randrange(1, 4)):
            w = default_world()
            kind = gen_stat_err(rng)
            r = rng.random()
            if r < 0.3 and real:
                base, en = rng.choice(real)
                kind = "err:%d" % en
                n = 1
            else:
                base = rng.choice([b"/usr/bin/prog", b"/app/bin/prog", b"/home/u/my dir/x", b"/opt/" + E_ACUTE * 3,
                                   b"rel/path", b"/", b"", b"/mnt/nfs/" + rbytes(rng, rng.randrange(1, 6), WORDY),
                                   b"/a (deleted)"])
                n = rng.choice([1, 1, 1, 2])
            t = base + DELETED * n
            w["fs"][t] = kind
            if n == 2:
                w["fs"][base + DELETED] = rng.choice(["absent", "file", gen_stat_err(rng)])
            if rng.random() < 0.25:
                t = t + b"\0" + rng.choice([b"", b" (deleted)", b"new", rbytes(rng, 3)])
            other = gen_link(rng, w["fs"]) if rng.random() < 0.5 else ("err", rng.choice(["ENOENT", "EACCES"]))
            which = rng.choice(["cwd", "exe", "both", "guess"])
            if which == "guess":
                # the link itself is withheld / denied; the name to guess from cannot be examined: not a file
                a0 = rng.choice([b"/usr/bin/prog", b"/app/bin/prog", b"/opt/my app/run"] + [b for b, _ in real])
                w["exe"] = ("err", rng.choice(["ENOENT", "ESRCH", "EACCES"]))
                w["cwd"] = ("target", t)
                w["cmdline"] = ("data", render_argv([a0, b"-x"]) if rng.random() < 0.8 else a0 + b" --title")
                if not a0.startswith(REAL_ROOT):
                    w["fs"][a0] = gen_stat_err(rng)
                else:
                    w["fs"][a0] = "err:%d" % dict(real)[a0]
            else:
                w["cwd"] = ("target", t) if which in ("cwd", "both") else other
                w["exe"] = ("target", t) if which in ("exe", "both") else other
                a0 = rng.choice([b"/usr/bin/prog", b"prog", b""])
                w["cmdline"] = ("data", render_argv([a0]) if a0 else b"")
                gen_fs_for(rng, a0, w["fs"])
            w["zombie"] = rng.random() < 0.12
            if rng.random() < 0.03:
                w["dir"] = False
            calls = rng.choice([["cwd", "exe"], ["exe", "cwd"], ["exe", "exe"], ["cwd"], ["exe"]])
            steps.extend({"call": c, "w": w} for c in calls)
    elif fam == "oneshot_reuse":
        # the block-cached calls, several times on one object, the world changing between the steps
        for _ in range(rng.randrange(2, 5)):
            w = default_world()
            w["comm"], a0 = gen_name_pair(rng)
            w["cmdline"] = ("data", render_argv([a0]))
            gen_identity(rng, w)
            w["zombie"] = rng.random() < 0.2
            steps.append({"call": rng.choice(["name", "username", "terminal", "name"]), "w": w})
    else:  # anything: every component random, every call
        w["comm"] = gen_name_pair(rng)[0]
        gen_identity(rng, w)
        w["cmdline"] = ("data", gen_cmdline_bytes(rng, rng.choice(["argv", "title", "mixed", "empty"])))
        w["environ"] = ("data", gen_env_block(rng))
        w["exe"] = gen_link(rng, w["fs"])
        w["cwd"] = gen_link(rng, w["fs"])
        w["zombie"] = rng.random() < 0.2
        w["dir"] = rng.random() >= 0.05
        a0 = w["cmdline"][1].split(b"\0")[0].split(b" ")[0]
        gen_fs_for(rng, a0, w["fs"])
        calls = ["cmdline", "environ", "exe", "cwd", "name", "exe", "username", "terminal"]
        rng.shuffle(calls)
        steps = [{"call": c, "w": w} for c in calls]
    return {"family": fam, "steps": steps}


def exhaustive_exe_cases():
    """every (state of the exe link) x (state of cmdline) x (zombie?) combination, exe() called twice"""
    cases = []
    links = {"enoent": ("err", "ENOENT"), "esrch": ("err", "ESRCH"), "eacces": ("err", "EACCES"),
             "empty": ("target", b""), "path": ("target", b"/usr/bin/real"),
             "deleted": ("target", b"/usr/bin/real (deleted)")}
    a_x, a_f, a_d, a_n = b"/usr/bin/prog", b"/usr/bin/data", b"/usr/bin", b"/usr/bin/nope"
    fs = {a_x: "filex", a_f: "file", a_d: "dir"}
    cmds = {"abs-exec": ("data", render_argv([a_x, b"-x"])), "abs-file": ("data", render_argv([a_f])),
            "abs-dir": ("data", render_argv([a_d])), "abs-absent": ("data", render_argv([a_n])),
            "relative": ("data", render_argv([b"prog"])), "title-exec": ("data", a_x + b" --title"),
            "empty": ("data", b""), "eacces": ("err", "EACCES"), "esrch": ("err", "ESRCH"),
            "enoent": ("err", "ENOENT")}
    for ln, l in links.items():
        for cn, c in cmds.items():
            for z in (False, True):
                w = default_world()
                w.update(exe=l, cmdline=c, zombie=z, fs=dict(fs))
                w2 = default_world()
                w2.update(exe=("target", b"/usr/bin/later"), zombie=z)
                cases.append({"family": "exh-exe:%s/%s/%s" % (ln, cn, "zombie" if z else "live"),
                              "steps": [{"call": "exe", "w": w}, {"call": "exe", "w": w}, {"call": "exe", "w": w2}]})
    return cases


def mode_worlds():
    """a few worlds that make every call take a different branch"""
    out = {}
    w = default_world()
    w.update(comm=b"gnome-keyring-d", cmdline=("data", render_argv([b"/usr/bin/gnome-keyring-daemon", b"--start"])),
             environ=("data", b"A=1\0B=2\0A=3\0"), exe=("target", b"/usr/bin/gnome-keyring-daemon"),
             cwd=("target", b"/home/u (deleted)"), uid=1001, tty=34816)
    out["live"] = w
    w = default_world()
    w.update(comm=b"fifteen-bytes-zz", zombie=True, cmdline=("data", b""), environ=("err", "EACCES"),
             exe=("err", "ENOENT"), cwd=("err", "ENOENT"), uid=12345, tty=1025)
    out["zombie"] = w
    w = default_world()
    w.update(comm=b"other-users-proc", cmdline=("err", "EACCES"), environ=("err", "EACCES"),
             exe=("err", "EACCES"), cwd=("err", "EACCES"), uid=0, tty=99999)
    out["denied"] = w
    w = default_world()
    w.update(comm=b"kernel-withheld", cmdline=("data", render_argv([b"/usr/bin/prog"])), fs={b"/usr/bin/prog": "filex"},
             exe=("err", "ENOENT"), cwd=("err", "ESRCH"), uid=65534, tty=0)
    out["guess"] = w
    w = default_world()
    w.update(comm=b"denied-but-guess", cmdline=("data", b"/usr/bin/prog --title"), fs={b"/usr/bin/prog": "filex"},
             exe=("err", "EACCES"), cwd=("target", b"/"), uid=1000, tty=34817)
    out["denied-guess"] = w
    w = default_world()
    w.update(dir=False)
    out["gone"] = w
    return out


def exhaustive_mode_cases():
    """(6 worlds) x (7 calls) x (every mode) x (every way of obtaining the object); in the `warm` and
    `after_block` modes the warm-up runs in a DIFFERENT world (other name, uid, tty, cmdline, links)"""
    cases = []
    worlds = mode_worlds()
    other = default_world()
    other.update(comm=b"an-earlier-name-of-16", cmdline=("data", render_argv([b"/earlier"])), uid=4294967294, tty=1088,
                 exe=("target", b"/usr/bin/earlier"), cwd=("target", b"/earlier"), environ=("data", b"E=0\0"))
    for wn, w in worlds.items():
        for call in ("cmdline", "environ", "exe", "cwd", "name", "username", "terminal"):
            for obj in OBJS:
                for mode in MODES:
                    if (mode == "reiter" and obj == "ctor") or (mode == "as_dict_many" and not w["dir"]):
                        continue
                    s = {"call": call, "w": w}
                    if mode in ("warm", "after_block"):
                        s["w0"] = dict(other)
                        if not w["dir"] and call in CACHED_CALLS and mode == "warm":
                            s["w0"] = dict(w)
                        s["warm"] = ["status", "uids", "ppid", "name", "environ", "cmdline", "cwd", "_proc.exe",
                                     "_proc.cwd", "_proc.environ", "_proc.cmdline"]
                    if mode == "as_dict_many":
                        s["extra"] = [x for x in ("status", "uids", "terminal", "ppid", "username") if x != call]
                    if mode != "plain":
                        s["mode"] = mode
                    cases.append({"family": "exh-mode:%s/%s/%s/%s" % (wn, call, obj, mode), "obj": obj, "steps": [s]})
    return cases


def exhaustive_stat_cases():
    """(stat missing / unreadable) x (stat would say Z?) x (state of the call's own file or link) x (7 calls) x
    (the modes usable without a readable stat)"""
    cases = []
    states = {"data": None, "empty": None, "ENOENT": None, "ESRCH": None, "EACCES": None}
    k = 0
    for st in ("missing", "denied"):
        for z in (False, True):
            for sn in states:
                w = default_world()
                w.update(stat=st, zombie=z, comm=b"a-vanishing-proc", uid=1001, tty=34816,
                         fs={b"/usr/bin/prog": "filex"})
                if sn in ("ENOENT", "ESRCH", "EACCES"):
                    w.update(cmdline=("err", sn), environ=("err", sn), exe=("err", sn), cwd=("err", sn))
                elif sn == "empty":
                    w.update(cmdline=("data", b""), environ=("data", b""), exe=("target", b""), cwd=("target", b""))
                else:
                    w.update(cmdline=("data", b"/usr/bin/prog\0-x\0"), environ=("data", b"A=1\0"),
                             exe=("target", b"/usr/bin/real"), cwd=("target", b"/home (deleted)"))
                for call in ("cmdline", "environ", "exe", "cwd", "name", "username", "terminal"):
                    mode = STAT_SAFE_MODES[k % len(STAT_SAFE_MODES)]
                    obj = ("ctor", "iter")[(k // len(STAT_SAFE_MODES)) % 2]
                    k += 1
                    s = {"call": call, "w": w}
                    if mode != "plain":
                        s["mode"] = mode
                    cases.append({"family": "exh-stat:%s/%s/%s/%s" % (st, "Z" if z else "S", sn, call), "obj": obj,
                                  "steps": [s]})
    return cases


def exhaustive_paren_cases():
    """`_is_zombie`'s own stat parser: names containing `)` (followed by what looks like a state letter) x the real
    state x every situation in which the zombie test decides the answer"""
    cases = []
    for comm in PAREN_COMMS:
        for z in (False, True):
            sits = {
                "empty-cmdline": ("cmdline", dict(cmdline=("data", b""))),
                "cmdline-esrch": ("cmdline", dict(cmdline=("err", "ESRCH"))),
                "cmdline-enoent": ("cmdline", dict(cmdline=("err", "ENOENT"))),
                "environ-esrch": ("environ", dict(environ=("err", "ESRCH"))),
                "cwd-withheld": ("cwd", dict(cwd=("err", "ENOENT"))),
                "exe-withheld": ("exe", dict(exe=("err", "ESRCH"), cmdline=("data", b""))),
                "name": ("name", dict(cmdline=("data", b""))),
                "terminal": ("terminal", dict(tty=34816)),
            }
            for sn, (call, kw) in sits.items():
                w = default_world()
                w.update(comm=comm, zombie=z, **kw)
                cases.append({"family": "exh-paren:%s/%s/%s" % (comm.decode(), "Z" if z else "S", sn),
                              "steps": [{"call": call, "w": w}]})
    return cases


def exhaustive_staterr_cases(real):
    """every errno of the host except ENOENT / EACCES / EPERM x every place where C12's calls stat a name outside
    procfs: the ` (deleted)` name of the cwd link, of the exe link (also with NUL garbage behind it, and for a
    zombie), and cmdline()[0] when exe() has to guess; plus the REAL un-stat-able names of this run x the same
    places"""
    cases = []
    base = b"/srv/app/bin/prog"
    names = [("err:%d" % en, base, "inj") for en in ALL_STAT_ERRNOS] + [("err:%d" % en, b, "real") for b, en in real]
    for kind, b, how in names:
        t = b + DELETED
        label = "%s-%s" % (how, errno.errorcode.get(stat_err(kind), kind))
        sites = {
            "cwd": ("cwd", dict(cwd=("target", t))),
            "exe": ("exe", dict(exe=("target", t))),
            "exe-nul": ("exe", dict(exe=("target", t + b"\0 (deleted)"))),
            "cwd-zombie": ("cwd", dict(cwd=("target", t), zombie=True, cmdline=("data", b""))),
            "guess": ("exe", dict(exe=("err", "ENOENT"), cmdline=("data", render_argv([b, b"-x"])))),
            "guess-denied": ("exe", dict(exe=("err", "EACCES"), cmdline=("data", render_argv([b, b"-x"])))),
        }
        for sn, (call, kw) in sites.items():
            w = default_world()
            w.update(kw)
            w["fs"] = {(b if sn.startswith("guess") else t): kind}
            steps = [{"call": call, "w": w}]
            if call == "exe":
                steps.append({"call": "exe", "w": w})
            cases.append({"family": "exh-staterr:%s/%s" % (label, sn), "steps": steps})
    return cases


def exhaustive_name_cases():
    """all (comm length 13–16) × content kind × relation × argv0 form × cmdline state combinations"""
    cases = []
    fulls = {
        "ascii": b"gnome-keyring-daemon-x",
        "e-acute": E_ACUTE * 11,                       # every odd cut splits a character
        "mixed": b"a" + E_ACUTE * 5 + b"bc" + EURO * 3,
        "invalid": b"\xff\xfe" * 11,
    }
    for L in (13, 14, 15, 16):
        for kind, full in fulls.items():
            comm = full[:L]
            rels = {
                "equal": comm,
                "longer": full[:L + 4],
                "lastbyte": comm[:-1] + b"#" + full[L:L + 3],
                "shorter": comm[:-2],
                "other": b"zzz",
            }
            for rel, basename in rels.items():
                for dname, d in (("bare", b""), ("abs", b"/usr/bin/"), ("slashend", None)):
                    a0 = (basename + b"/") if d is None else d + basename
                    for state in ("argv", "title", "empty", "zombie", "denied"):
                        w = default_world()
                        w["comm"] = comm
                        if state == "argv":
                            w["cmdline"] = ("data", render_argv([a0, b"--daemonize", b""]))
                        elif state == "title":
                            w["cmdline"] = ("data", a0 + b" --daemonize")
                        elif state == "empty":
                            w["cmdline"] = ("data", b"")
                        elif state == "zombie":
                            w["cmdline"] = ("data", b"")
                            w["zombie"] = True
                        else:
                            w["cmdline"] = ("err", "EACCES")
                        cases.append({"family": "exh-name:%d/%s/%s/%s/%s" % (L, kind, rel, dname, state),
                                      "steps": [{"call": "name", "w": w}]})
    return cases


def small_blocks(alphabet, maxlen):
    """every byte string over `alphabet` of length 0..maxlen"""
    for n in range(maxlen + 1):
        for t in itertools.product(alphabet, repeat=n):
            yield bytes(t)


# (call, alphabet, maximal length, zombie?)
SWEEPS = [("environ", b"A=\0\n", 7, False), ("cmdline", b"a \0", 8, False), ("cmdline", b"a \0", 4, True)]


def run_sweeps(ctx, impl, res):
    """the exhaustive small enumerations: every file content over a small alphabet, on the real code path
    (one Process object, the file rewritten between the calls) against model and specification"""
    done = []
    for call, alphabet, maxlen, zombie in SWEEPS:
        blocks = list(small_blocks(alphabet, maxlen))
        lines = [{"op": "many", "call": call, "zombie": zombie, "blocks": [hx(b) for b in blocks[a:a + 1000]]}
                 for a in range(0, len(blocks), 1000)]
        outs = []
        for o in ctx.driver().batch(lines):
            if "bad" in o:
                raise RuntimeError("driver rejected a sweep line: %s" % o)
            outs.extend(o["many"])
        impl_outs = impl.sweep(call, blocks, zombie)
        key = "sweep:%s%s" % (call, ":zombie" if zombie else "")
        res.count(key, len(blocks))
        res.count("steps", len(blocks))
        res.count("call:" + call, len(blocks))
        reported = 0
        for b, im, m in zip(blocks, impl_outs, outs):
            mo, sp = canon(m["model"]), canon(m["spec"])
            res.case(("sweep", call, zombie, b), nontrivial=bool(b))
            res.count("outcome:" + (im.get("exc") or im.get("kind")))
            if (sp is not None and im != sp) or im != mo:
                if reported >= 3:
                    continue
                reported += 1
                w = default_world()
                w[call] = ("data", b)
                w["zombie"] = zombie
                cj = case_json({"family": "exh-" + key, "steps": [{"call": call, "w": w}]})
                if sp is not None and im != sp:
                    res.disagree("spec", cj, im, mo, sp, note="exhaustive sweep of %s(): implementation differs from "
                                 "the byte-level specification on file content %r" % (call, b))
                else:
                    res.disagree("model", cj, im, mo, sp, note="exhaustive sweep of %s(): implementation differs from "
                                 "the Lean model on file content %r" % (call, b))
        done.append("%s(): all %d file contents over %r up to length %d%s" % (call, len(blocks), alphabet, maxlen,
                                                                                " (zombie)" if zombie else ""))
    return done


def check_kernel_simulator(ctx, res):
    """the generator's kernel simulator (`kernel_cmdline`, modern kernels) against `Spec.kernelCmdline`, the
    definition C12_cmdline_setproctitle is stated with, on the memories the proctitle family draws from"""
    rng = random.Random(20240612)
    areas = []
    for prog in sorted(TITLES):
        for style in sorted(set(TITLE_STYLES)):
            for title in TITLES[prog][1]:
                arg, env, _, _ = proctitle_memory(rng, prog, style, title)
                areas.append((arg, env))
    for _ in range(40):
        areas.append((rbytes(rng, rng.randrange(0, 9), b"\0\0a "), rbytes(rng, rng.randrange(0, 9), b"\0b=")))
    out = ctx.driver().batch([{"op": "kernel", "areas": [[hx(a), hx(e)] for a, e in areas]}])[0]
    if "bad" in out:
        raise RuntimeError("driver rejected the kernel line: %s" % out)
    for (a, e), got in zip(areas, out["kernel"]):
        if bytes.fromhex(got) != kernel_cmdline(a, e, "new"):
            raise RuntimeError("kernel simulator and Spec.kernelCmdline differ on arg=%r env=%r: %r vs %r"
                               % (a, e, kernel_cmdline(a, e, "new"), bytes.fromhex(got)))
    res.count("kernel-simulator-vs-Spec.kernelCmdline", len(areas))


def corpus_cases():
    """leads and clause witnesses, run first"""
    out = []

    def one(call, **kw):
        w = default_world()
        w.update(kw)
        return {"family": "corpus", "steps": [{"call": call, "w": w}]}
    e9 = E_ACUTE * 9
    # L20: exe `ééééééééé`: comm = 7 é + half a character
    out.append(one("name", comm=e9[:15], cmdline=("data", render_argv([b"/tmp/" + e9, b"-x"]))))
    # L20b: 15 bytes but fewer than 15 characters
    out.append(one("name", comm=(E_ACUTE * 7 + b"abc")[:15], cmdline=("data", render_argv([E_ACUTE * 7 + b"abc"]))))
    out.append(one("name", comm=b"gnome-keyring-d", cmdline=("data", render_argv([b"/usr/bin/gnome-keyring-daemon", b"--start"]))))
    # carriage returns must come back as they are
    out.append(one("cmdline", cmdline=("data", render_argv([b"prog", b"a\rb", b"c\r\nd"]))))
    out.append(one("environ", environ=("data", b"X=1\r2\0Y=u\r\nv\0")))
    # separator rules
    out.append(one("cmdline", cmdline=("data", render_argv([b"a", b"", b"b", b""]))))
    out.append(one("cmdline", cmdline=("data", b"chrome --type=renderer ")))
    out.append(one("cmdline", cmdline=("data", b"sshd: user@pts/0\0")))
    out.append(one("cmdline", cmdline=("data", b""), zombie=True))
    # setproctitle layouts (nginx worker / sshd session / postgres backend: NUL padding; strcpy: leftovers; the
    # overflowed master title; a page-cut argv of an old kernel) as the kernel simulator produces them
    for prog, style, title in (("nginx", "pad_all", b"nginx: worker process"), ("sshd", "pad_argv", b"sshd: user@pts/0"),
                               ("postgres", "pad_all", b"postgres: 14/main: checkpointer "),
                               ("python", "strcpy", b"celery worker -A proj"),
                               ("nginx", "pad_argv", b"nginx: master process /usr/sbin/nginx -g daemon off;"),
                               ("sh", "prctl", b"(sd-pam)"), ("sshd", "space_pad", b"sshd: user [priv]")):
        arg, env, comm, _ = proctitle_memory(random.Random(0), prog, style, title)
        for kern in ("new", "old"):
            out.append(one("cmdline", cmdline=("data", kernel_cmdline(arg, env, kern)), comm=comm))
    long_argv = [b"/usr/bin/java"] + [b"-Dk%d=" % i + b"v" * 90 for i in range(60)]
    for kern in ("new", "old"):
        out.append(one("cmdline", cmdline=("data", kernel_cmdline(render_argv(long_argv), b"", kern)), comm=b"java"))
    out.append(one("environ", environ=("data", (b"A=1\0" + b"B=" + b"x" * 5000 + b"\0")[:PAGE])))
    out.append(one("environ", environ=("data", b"F=() {  echo hi\n}\0=x\0N\nM=1\0F=2\0")))
    out.append(one("environ", environ=("data", b"A=1\0B\0=C=2\0A=3\0\0GARBAGE=1\0")))
    out.append(one("cwd", cwd=("target", b"/tmp/x (deleted)"), fs={b"/tmp/x (deleted)": "absent"}))
    out.append(one("cwd", cwd=("target", b"/tmp/x (deleted)"), fs={b"/tmp/x (deleted)": "file"}))
    out.append(one("exe", exe=("target", b"/usr/bin/p\0 (deleted)")))
    # the ` (deleted)` name cannot be stat'ed for another reason than ENOENT: its parent directory became a file
    # (ENOTDIR), a component is a symlink loop (ELOOP) or longer than NAME_MAX (ENAMETOOLONG), a dead mount (ESTALE,
    # EIO): nothing of that name exists, the suffix is stale
    for en in (errno.ENOTDIR, errno.ELOOP, errno.ENAMETOOLONG, errno.ESTALE, errno.EIO):
        t = b"/app/bin/prog (deleted)"
        out.append(one("cwd", cwd=("target", t), fs={t: "err:%d" % en}))
        out.append(one("exe", exe=("target", t), fs={t: "err:%d" % en}))
    for base, en in make_real_root():                       # the same, answered by the REAL file system
        t = base + DELETED
        wr = default_world()
        wr.update(cwd=("target", t), exe=("target", t + b"\0x"), fs={t: "err:%d" % en})
        out.append({"family": "corpus", "steps": [{"call": "cwd", "w": wr}, {"call": "exe", "w": wr}]})
    wr = default_world()                                    # control: a real file really named "... (deleted)"
    wr.update(cwd=("target", REAL_ROOT + b"/dir/real (deleted)"), fs={REAL_ROOT + b"/dir/real (deleted)": "file",
                                                                       REAL_ROOT + b"/dir": "dir"})
    out.append({"family": "corpus", "steps": [{"call": "cwd", "w": wr}]})
    w1 = default_world()
    w1.update(exe=("err", "ENOENT"), cmdline=("data", b"/usr/bin/p\0"), fs={b"/usr/bin/p": "filex"})
    w2 = default_world()
    w2.update(exe=("target", b"/usr/bin/q"))
    out.append({"family": "corpus", "steps": [{"call": "exe", "w": w1}, {"call": "exe", "w": w2}]})
    # larger than open_text's 32 KiB read buffer: a multi-byte character and a CR LF pair straddle the
    # chunk boundary of the incremental decoder
    big = b"/a" + E_ACUTE * 16382 + b"x\r\nyz" + E_ACUTE * 17000 + b"\0" + b"x\r\ny " * 2000 + b"\0"
    wb = default_world()
    wb.update(cmdline=("data", big), environ=("data", (b"K=" + E_ACUTE * 16383 + b"\r\n\0") * 2 + b"Z=1\0"))
    out.append({"family": "corpus", "steps": [{"call": "cmdline", "w": wb}, {"call": "environ", "w": wb}]})
    # a zombie (or a process whose cmdline is denied / withheld) keeps the kernel's name, 15 bytes included
    z15 = b"fifteen-bytes-z"
    for cl in (("data", b""), ("err", "ENOENT"), ("err", "ESRCH"), ("err", "EACCES")):
        out.append(one("name", comm=z15, zombie=True, cmdline=cl))
    out.append(one("name", comm=z15, cmdline=("err", "EACCES")))
    out.append(one("name", comm=z15, cmdline=("err", "ESRCH")))          # died under our feet: NoSuchProcess
    zc = one("name", comm=z15, zombie=True, cmdline=("data", b""))
    zc["steps"][0]["mode"] = "as_dict"
    out.append(zc)
    # exe(): link denied -> guess / re-raise; withheld while cmdline() is denied -> ''
    fsx = {b"/usr/bin/p": "filex"}
    out.append(one("exe", exe=("err", "EACCES"), cmdline=("data", b"/usr/bin/p\0"), fs=fsx))
    out.append(one("exe", exe=("err", "EACCES"), cmdline=("data", b"p\0"), fs=fsx))
    out.append(one("exe", exe=("err", "EACCES"), cmdline=("err", "EACCES")))
    out.append(one("exe", exe=("err", "ENOENT"), cmdline=("err", "EACCES")))
    # a zombie: no cwd, but an owner and a terminal
    for c in ("cwd", "exe", "username", "terminal"):
        out.append(one(c, zombie=True, cmdline=("data", b""), uid=1001, tty=34816))
    out.append(one("username", uid=12345))
    return out


# ------------------------------------------------------------------------------ features / distribution


def features(case):
    f = set()
    for s in case["steps"]:
        w, c = s["w"], s["call"]
        if not w["dir"]:
            f.add("gone")
        if stat_of(w) != "ok":
            f.add("stat:" + stat_of(w))
            if c in ("cmdline", "environ") and w[c] == ("err", "ENOENT"):
                f.add("stat:%s+file-ENOENT" % stat_of(w))
        if b")" in w["comm"]:
            f.add("comm:paren")
            if w["comm"].split(b")")[1][:2] in (b" Z", b" S") and c != "username":
                f.add("comm:paren-then-state-letter" + (":zombie" if w["zombie"] else ":live"))
        for wc in s.get("warm", ()):
            if wc in FRESH_WARMUPS:
                f.add("warm:fresh-source:" + wc)
        if w["zombie"]:
            f.add("zombie")
        if c in ("cmdline", "name", "exe") and w["cmdline"][0] == "data":
            d = w["cmdline"][1]
            if not d:
                f.add("cmdline:empty")
            elif d.endswith(b"\0"):
                body = d[:-1]
                if b"\0" in body:
                    f.add("cmdline:nul-separated")
                    if b"" in body.split(b"\0"):
                        f.add("cmdline:empty-arg")
                elif b" " in body:
                    f.add("cmdline:nul-terminated-title")
                else:
                    f.add("cmdline:single-arg")
            else:
                f.add("cmdline:title")
                if d.endswith(b" "):
                    f.add("cmdline:title-trailing-space")
                if b"\0" in d:
                    f.add("cmdline:unterminated-with-nul")
                if len(d) == PAGE:
                    f.add("cmdline:page-cut")
            if d.endswith(b"\0\0") and d.strip(b"\0") and b"\0" not in d.rstrip(b"\0"):
                f.add("cmdline:padded-title")
            elif d.endswith(b"\0") and b"\0" in d[:-1] and b" " in d.split(b"\0")[0]:
                f.add("cmdline:title-then-leftover")
            if len(d) > PAGE:
                f.add("cmdline:>page")
            if b"\r" in d:
                f.add("text:CR")
            if any(x >= 0x80 for x in d):
                f.add("text:non-ascii")
        if c in ("cmdline", "environ") and w[c][0] == "err":
            f.add("file-error:" + w[c][1])
        if c == "environ" and w["environ"][0] == "data":
            d = w["environ"][1]
            ents = d.split(b"\0")
            tail, ents = ents[-1], ents[:-1]
            if tail:
                f.add("environ:unterminated-tail")
            if b"" in ents:
                f.add("environ:empty-entry")
                ents = ents[:ents.index(b"")]
            ks = [e.split(b"=")[0] for e in ents if b"=" in e and not e.startswith(b"=")]
            if len(ks) != len(set(ks)):
                f.add("environ:duplicate")
            if any(b"=" not in e for e in ents):
                f.add("environ:no-equals")
            if any(e.startswith(b"=") for e in ents):
                f.add("environ:leading-equals")
            if any(e.count(b"=") > 1 for e in ents):
                f.add("environ:equals-in-value")
            if any(b"\n" in e for e in ents):
                f.add("environ:newline")
            if len(d) == PAGE and tail:
                f.add("environ:page-cut")
            if len(d) > PAGE:
                f.add("environ:>page")
            if b"\r" in d:
                f.add("text:CR")
        if c in ("exe", "cwd"):
            l = w[c]
            if l[0] == "err":
                f.add("link:" + l[1])
            else:
                t = l[1]
                if b"\0" in t:
                    f.add("link:nul-garbage")
                p = t.split(b"\0")[0]
                if p.endswith(DELETED):
                    k = w["fs"].get(p, "absent")
                    if stat_err(k) is not None:
                        f.add("link:deleted-stat-fails")
                        f.add("stat-fails:%s" % errno_label(stat_err(k)))
                        f.add("stat-fails-class:%s" % os_class(stat_err(k)))
                        f.add("stat-fails-at:%s-link" % c)
                        if p.startswith(REAL_ROOT):
                            f.add("stat-fails(real fs):%s" % errno.errorcode.get(stat_err(k), k))
                        if w["zombie"]:
                            f.add("stat-fails:zombie")
                    else:
                        f.add("link:deleted-" + k)
                else:
                    f.add("link:plain")
        if c == "exe" and w["cmdline"][0] == "data" and w["exe"][0] == "err":
            a0 = w["cmdline"][1].split(b"\0")[0]
            for cand in (a0, a0.split(b" ")[0]):
                if stat_err(w["fs"].get(cand)) is not None:
                    f.add("stat-fails-at:guess-argv0")
                    f.add("stat-fails:%s" % errno_label(stat_err(w["fs"][cand])))
        if c == "exe":
            f.add("exe")
        if c == "username":
            f.add("username:" + ("known" if w.get("uid", 0) in w.get("users", {}) else "numeric"))
        if c == "terminal":
            f.add("terminal:" + ("known" if w.get("tty", 0) in w.get("ttys", {}) else "none"))
        if s.get("mode", "plain") != "plain":
            f.add("mode")
        if "w0" in s and world_json(s["w0"]) != world_json(w):
            f.add("warm:world-changed")
        if block_of(s) is not None:
            f.add("warm:block-holds-" + "+".join(k for k, v in sorted(block_of(s).items()) if v is not None))
        if c == "name":
            n = len(w["comm"])
            f.add("name:len" + ("<15" if n < 15 else "=15" if n == 15 else ">15"))
            try:
                w["comm"].decode()
            except UnicodeDecodeError:
                f.add("name:not-utf8")
    if sum(1 for s in case["steps"] if s["call"] == "exe") > 1:
        f.add("exe:repeated")
    return f


# ------------------------------------------------------------------------------ findings regions


def in_region(ctx, case, step_index):
    """id of the known finding whose region contains this step, else None"""
    return None


# ------------------------------------------------------------------------------ correspondence


def compare(ctx, case, rows, res):
    """record the first disagreement of an executed case; True if any"""
    cj = case_json(case)
    for (im, mo, sp, si) in rows:
        i = max(si, 0)
        cut = dict(cj, steps=cj["steps"][:i + 1])
        st = case["steps"][i]
        how = "process_iter(attrs=[…]).info" if si < 0 else "mode %s" % st.get("mode", "plain")
        how += ", object from %s" % case.get("obj", "ctor")
        if sp is not None and im != sp:
            res.disagree("spec", cut, im, mo, sp,
                         note="step %d (%s, %s): implementation differs from the byte-level specification" % (i, st["call"], how),
                         finding=in_region(ctx, case, i))
            return True
        if im != mo:
            res.disagree("model", cut, im, mo, sp,
                         note="step %d (%s, %s): implementation differs from the Lean model" % (i, st["call"], how))
            return True
    return False


def correspond(ctx, res):
    impl = Impl(ctx)
    t_start = time.time()
    try:
        res.rule = ("cases = one Process object (from the constructor, from process_iter(), or from "
                    "process_iter(attrs=…)) + a list of (world, call, MODE) steps — mode = plain / oneshot / nested / "
                    "oneshot with a warm cache filled in an earlier world / after a block / as_dict (one or many attrs, "
                    "also inside oneshot) / twice / re-fetched from process_iter(); 20 clause-directed families (among "
                    "them cmdline files produced by a kernel simulator from real setproctitle layouts and page-cut "
                    "argument vectors, kernel-laid-out environments cut at 4096 bytes, and ` (deleted)` names / guessed paths whose "
                    "os.stat fails with an errno other than ENOENT / EACCES, injected or answered by a real directory) "
                    "(PRNG from VERIF_SEED), a corpus of clause witnesses, and exhaustive sweeps of the name() rule "
                    "around the 15-byte boundary, of the branches of exe(), and of modes x calls x objects; "
                    "non-trivial = at least one step whose outcome is not the default world's; distinct = distinct step lists")
        cases = corpus_cases()
        n = ctx.n(2000, 80000)
        for i in range(n):
            c = gen_case(ctx.rng, FAMILIES[i % len(FAMILIES)], impl)
            cases.append(decorate(ctx.rng, c) if i % 5 else c)
        n_rand = len(cases)
        exh = exhaustive_name_cases()
        for k, c in enumerate(exh):        # the sweep itself is mode-independent: spread the modes over it
            c["obj"] = OBJS[k % len(OBJS)]
            set_mode(ctx.rng, c, c["steps"][0], MODES[(k // len(OBJS)) % len(MODES)])
        exh_exe = exhaustive_exe_cases()
        exh_mode = exhaustive_mode_cases()
        exh_stat = exhaustive_stat_cases()
        exh_paren = exhaustive_paren_cases()
        exh_staterr = exhaustive_staterr_cases(impl.real_unstatable)
        for k, c in enumerate(exh_staterr):  # errno-independent by theorem: spread objects and modes over the sweep
            c["obj"] = OBJS[k % len(OBJS)]
            for st in c["steps"]:
                set_mode(ctx.rng, c, st, MODES[(k // len(OBJS)) % len(MODES)])
        res.count("stat_errnos", len(ALL_STAT_ERRNOS))
        res.count("stat_real_unstatable_names", len(impl.real_unstatable))
        cases.extend(exh)
        cases.extend(exh_exe)
        cases.extend(exh_mode)
        cases.extend(exh_stat)
        cases.extend(exh_paren)
        cases.extend(exh_staterr)
        total_lines = 0
        CH = 3000
        silent = 0
        for a in range(0, len(cases), CH):
            chunk = cases[a:a + CH]
            results, nl = run_cases(ctx, impl, chunk)
            total_lines += nl
            for j, (case, rows) in enumerate(results):
                fam = case["family"].split(":")[0]
                res.count("family:" + fam)
                fs = features(case)
                for f in fs:
                    res.count("feature:" + f)
                res.count("steps", len(rows))
                res.count("obj:" + case.get("obj", "ctor"))
                for st in case["steps"]:
                    res.count("mode:" + st.get("mode", "plain"))
                    res.count("call:" + st["call"])
                for im, mo, sp, _ in rows:
                    res.count("outcome:" + (im.get("exc") or im.get("kind")))
                    if sp is None:
                        silent += 1
                nontrivial = bool(fs - {"exe", "link:plain", "name:len<15", "cmdline:single-arg", "mode"})
                idx = a + j
                res.case(case_json(case), nontrivial=nontrivial,
                         sample={"case": case_json(case), "impl": [r[0] for r in rows]} if idx in (0, 3, 20, 21, 27, 30, 41, 47) else None)
                compare(ctx, case, rows, res)
        res.count("steps-where-spec-is-silent", silent)
        t_sw = time.time()
        check_kernel_simulator(ctx, res)
        sweeps = run_sweeps(ctx, impl, res)
        res.extra["sweeps_s"] = round(time.time() - t_sw, 1)
        res.extra["cases_s"] = round(t_sw - t_start, 1)
        res.exhaustive = ("; ".join(sweeps) + "; "
                          "name(): all %d combinations of comm length 13..16 x {ascii, multi-byte cut mid-character, mixed, "
                          "invalid UTF-8} x {equal, longer, differs in last byte, shorter, unrelated} x {bare, absolute, "
                          "trailing slash} x {argv, title, empty, zombie, cmdline denied} (modes and object sources spread "
                          "over them); exe(): all %d combinations of link {ENOENT, ESRCH, EACCES, '', path, path (deleted)} x "
                          "cmdline {abs exec, abs non-exec, abs dir, abs absent, relative, title, empty, EACCES, ESRCH, ENOENT} "
                          "x {live, zombie}, called twice and once more after the link became readable; modes: all %d "
                          "combinations of 6 worlds x 7 calls x 10 modes x 3 object sources (the warm-up of the `warm` / "
                          "`after_block` modes also calls environ, cmdline, cwd and the platform exe/cwd/environ/cmdline "
                          "in the EARLIER world: nothing of them may survive in the block); stat itself: all %d "
                          "combinations of /proc/<pid>/stat {missing, unreadable} x {S, Z} x own file/link {data, empty, "
                          "ENOENT, ESRCH, EACCES} x 7 calls; _is_zombie's parser: all %d combinations of %d names "
                          "containing ')' x {S, Z} x 8 situations decided by the zombie test; failing os.stat: all %d "
                          "combinations of every errno of the host except ENOENT/EACCES/EPERM (%d) and the %d real "
                          "un-stat-able names of the run (parent is a file, symlink loop, component > NAME_MAX) x "
                          "{' (deleted)' name of cwd, of exe, of exe + NUL garbage, of a zombie's cwd, cmdline()[0] of the "
                          "guess with the link withheld / denied} (modes and object sources spread over them); the "
                          "random families are samples"
                          % (len(exh), len(exh_exe), len(exh_mode), len(exh_stat), len(exh_paren), len(PAREN_COMMS),
                             len(exh_staterr), len(ALL_STAT_ERRNOS), len(impl.real_unstatable)))
        res.extra["driver_lines"] = total_lines
        res.extra["random_cases"] = n_rand
    finally:
        impl.close()


def search(ctx, res, broken):
    correspond(ctx, res)


# ------------------------------------------------------------------------------ shrink / replay


def _violates(ctx, impl, case, drv):
    """index of the first step where impl differs from spec (or, spec silent, from the model); else None"""
    if not case["steps"]:
        return None
    results, _ = run_cases(ctx, impl, [case], drv)
    for (im, mo, sp, si) in results[0][1]:
        if sp is not None and im != sp:
            return max(si, 0)
    return None


def _simplify_candidates(case):
    """smaller variants of a case (steps share world objects in most families: rebuild them separately)"""
    steps = case["steps"]
    dflt = default_world()
    if case.get("obj", "ctor") != "ctor" and not any(s.get("mode") == "reiter" for s in steps):
        yield dict(case, obj="ctor")
    for i, s in enumerate(steps):
        if s.get("mode", "plain") != "plain":
            s2 = {"call": s["call"], "w": s["w"]}
            yield dict(case, steps=steps[:i] + [s2] + steps[i + 1:])
        if "w0" in s and len(s["warm"]) > 1:
            for k in range(len(s["warm"])):
                yield dict(case, steps=steps[:i] + [dict(s, warm=s["warm"][:k] + s["warm"][k + 1:])] + steps[i + 1:])
        w = s["w"]
        for key in ("cmdline", "environ", "exe", "cwd", "comm", "fs", "zombie", "dir", "uid", "tty", "stat"):
            if w.get(key, "ok") != dflt.get(key, "ok"):
                w2 = dict(w)
                w2[key] = dflt[key]
                yield dict(case, steps=steps[:i] + [dict(s, w=w2)] + steps[i + 1:])
        if "w0" in s:
            w0 = s["w0"]
            for key in ("cmdline", "environ", "exe", "cwd", "comm", "zombie", "uid", "tty"):
                if w0[key] != w[key]:
                    yield dict(case, steps=steps[:i] + [dict(s, w0=dict(w0, **{key: w[key]}))] + steps[i + 1:])


def _bytes_fields(w):
    for key in ("cmdline", "environ", "exe", "cwd"):
        if w[key][0] in ("data", "target"):
            yield key, w[key][1], (lambda v, key=key, tag=w[key][0]: {key: (tag, v)})
    yield "comm", w["comm"], (lambda v: {"comm": v})


def shrink(ctx, d):
    case = case_from_json(d["input"])
    impl = Impl(ctx)
    drv = ctx.driver()
    try:
        budget = [120]

        def fails(c):
            if budget[0] <= 0:
                return False
            budget[0] -= 1
            return _violates(ctx, impl, c, drv) is not None

        if not fails(case):
            return d
        steps = ddmin(case["steps"], lambda ss: fails(dict(case, steps=ss)), max_tests=20)
        case = dict(case, steps=steps)
        changed = True
        while changed and budget[0] > 0:
            changed = False
            for cand in _simplify_candidates(case):
                if fails(cand):
                    case = cand
                    changed = True
                    break
        # shrink the byte strings of the last step
        last = case["steps"][-1]
        for key, val, mk in list(_bytes_fields(last["w"])):
            if len(val) < 2:
                continue

            def f(bs, mk=mk):
                w2 = dict(case["steps"][-1]["w"])
                w2.update(mk(bytes(bs)))
                return fails(dict(case, steps=case["steps"][:-1] + [dict(last, w=w2)]))
            small = bytes(ddmin(list(val), f, max_tests=25))
            if small != val:
                w2 = dict(case["steps"][-1]["w"])
                w2.update(mk(small))
                cand = dict(case, steps=case["steps"][:-1] + [dict(last, w=w2)])
                if fails(cand):
                    case = cand
                    last = case["steps"][-1]
        results, _ = run_cases(ctx, impl, [case], drv)
        for (im, mo, sp, si) in results[0][1]:
            if sp is not None and im != sp:
                cj = case_json(case)
                return dict(d, input=dict(cj, family="shrunk", steps=cj["steps"][:max(si, 0) + 1]), impl=im, model=mo, spec=sp)
        return d
    finally:
        drv.close()
        impl.close()


def replay(ctx, rp, res):
    inp = rp.get("input")
    if not inp or "steps" not in inp:
        return True
    impl = Impl(ctx)
    try:
        return _violates(ctx, impl, case_from_json(inp), None) is not None
    finally:
        impl.close()


def check_finding(ctx, fnd):
    w = fnd.get("witness") or {}
    if "steps" not in w:
        return "unknown"
    impl = Impl(ctx)
    try:
        return "reproduces" if _violates(ctx, impl, case_from_json(w), None) is not None else "gone"
    finally:
        impl.close()
