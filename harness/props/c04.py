"""C04 — pids(), pid_exists() and process_iter() give one coherent, cached process list.

Model: lean/PsutilModel/Model/C04.lean (+C04Gen), Spec: Spec/C04.lean, theorems: Props/C04.lean.
Correspondence: histories of simulated kernel events (spawn / exit / PID reuse with a new start
time / zombie / thread creation) interleaved with `psutil.pids()`, `psutil.pid_exists(n)`,
`psutil.process_iter(attrs)` generators (partially consumed, interleaved, closed),
`process_iter.cache_clear()` and `is_running()` on yielded objects. The real front-end functions
run over a fake procfs (`psutil.PROCFS_PATH`) with valid `stat`/`status` files; `os.kill` and
`os.listdir` are wrapped from outside (kill consults the simulated table, listdir hides thread
directories and lets table changes happen right after the listing). Compared step by step with
the Lean model and with the shared-cache specification the driver prints alongside: PID
sequences, `is`-identity classes of the yielded objects, `info` key sets, exceptions.
"""
import ast
import inspect
import itertools
import json
import os
import shutil
import subprocess
import tempfile
import threading

from harness.common import extract
from harness.common.build import PY, InfraError
from harness.common.extract import NotRecognised
from harness.common.fakeproc import FakeProc, reset_psutil_state
from harness.common.shrink import ddmin
from harness.props import c04_fullproc
from harness.props import c04_scan

PROP = "C04"
DRIVER_MODULES = ["PsutilModel.Model.C04Gen", "PsutilModel.Model.C04Fine", "PsutilModel.Spec.C04",
                  "PsutilModel.Model.C04Status", "PsutilModel.Spec.C04Status",
                  "PsutilModel.Model.C04ScanGen", "PsutilModel.Spec.C04Scan"]
NEEDS_EXT = True
TRUSTED = [
    "C04 world: the kernel is a process table seen through listdir(/proc), kill(pid,0), the Tgid line of /proc/<pid>/status and the start time in /proc/<pid>/stat; table changes happen between psutil's calls and (for process_iter) right after the listing — not inside a single file read",
    "C04 model: Process objects are numbered references (pid, start time seen by _init, _gone, _pid_reused); as_dict() is modelled by the kind of each requested name (no access / reads /proc/<pid>/… / starts with _raise_if_pid_reused) in the iteration order of set(attrs), which the harness reads off CPython; attrs=[] (all names) is modelled and exercised on the complete fake /proc/<pid> of harness/props/c04_fullproc.py (families attrs_all and attrs_all_ad_value); process_iter is called in every form of its signature (no argument, attrs / ad_value positional and by keyword)",
    "C04 status text: int() on the Tgid field is modelled for plain decimal digits (what the kernel prints); a sign, underscores or non-ASCII digits, which Python's int() would also accept, are not generated; the fake status files are rendered by the harness and cross-checked byte for byte against the specification's rendering (driver op status_scan)",
    "C04 harness: thread ids are emulated as directories of the fake root that the wrapped os.listdir hides; the wrapped os.kill converts its argument with the real pid_t converter (os.getsid) before consulting the simulated table (and lets table changes happen right after the probe for _pslinux.pid_exists called on its own)",
    "C04 attrs=[]: the complete fake /proc/<pid> (harness/props/c04_fullproc.py: stat, status, statm, cmdline, environ, io, smaps, smaps_rollup, fd/, fdinfo/, task/, cwd, exe + /proc/meminfo, /proc/net/*) is rendered from proc(5); nice / ionice / cpu_affinity (system calls on the PID) are answered from the simulated table; EACCES is injected at _pslinux.open_binary/open_text, os.readlink, os.listdir (the harness runs as root); only processes that have a status file are used there",
    "C04 scan world (harness/props/c04_scan.py, Model/C04Scan.lean): within one visit a process only goes alive -> zombie -> gone (a recycled number is another process: the identity machinery); a zombie's /proc/<pid>/stat is always readable and carries the Z (every other entry may give content, nothing, ESRCH, ENOENT or EACCES — all quantified); a live process's entries give content, EACCES or (cmdline / environ) nothing; the state changes between two OS accesses, not inside one; access instants are taken at builtins.open / os.readlink / os.stat / os.lstat on paths below /proc/<pid> (a getter that reached the kernel another way would not be scheduled against); covered getters: the 15 names of fact scanSources (front-end getter only delegates; one read per getter) — exe, name, ppid, username, the memory_full_info / open_files / threads / net_connections families and the syscall getters stay with attrs_all",
    "C04 two threads (harness/props/c04_preempt.py): sys.settrace baton scheduler; scheduling points = every line of process_iter (+ inner add/remove), of the cache_clear lambda and of Process.is_running, every bytecode of those that loads/stores _pmap or _pids_reused and the bytecode after it, entry and _get_ident line of Process._init, item boundaries of the consumer loop; all schedules with <= 2 pre-emptions (thorough; with kernel events on a 1/6 sub-lattice) and item-boundary schedules with 3 pre-emptions; every-bytecode granularity is sampled only; more than two pre-emptions / more than two threads are not explored (the statement-granularity theorems C04_fine_* cover them thread-locally); the values a real generator frame reads (its locals pmap / a / pid / ls at line events, NoSuchProcess exception events, yields at return events, pmap at the `_pmap = pmap` line) are read off the frame by the tracer and fed to the Lean thread model",
]
MANIFEST = {
    "level_text": "Machine-checked Lean 4 proofs over a model of pids()/pid_exists()/process_iter()/cache_clear()/is_running()'s cache side effect. For every table: pids() is the strictly ascending list of exactly the listed PIDs (C04_pids_sorted_exact, C04_pids_unique; byte level: C04_listing_exact); pid_exists(n) is a bool, True exactly for listed PIDs, for every int n and every well-formed table with threads, foreign processes and broken status files (C04_pidExists_iff). For EVERY history, overlapping generators and both prologue orders included: each generator yields strictly ascending PIDs without duplicates, all from the listing it took, and next() can only yield/stop/raise ValueError (invalid attrs)/IndexError (empty table) (C04_iter_ascending, C04_overlap_safety, C04_yield_was_listed); each next() visits the remaining listed PIDs in order and skips a PID only if it vanished (C04_iter_each_listed_once_repaired: full strength only for a configuration with the REPAIRED prologue order — not the shipped code; C04_iter_each_listed_once_partial for the code as it is when no PID is flagged at the start of the iteration; C04_iter_each_listed_Full_fails_shipped / C04_iteration_complete_Full_fails_shipped: the full clause is REFUTED for the shipped order on the L19 state); info keys are exactly the requested names (C04_info_keys). One WHOLE iteration as one sentence, for any continuation of the history (other generators advancing, table changes inside and between calls, cache_clear, is_running): the PIDs a generator yields are a subsequence of the ascending listing it took and every PID of that listing is yielded, or was absent from the table at one of its next() calls, or is still to be visited; once the generator is exhausted, yielded or vanished (C04_iteration_complete_repaired for the repaired prologue order only, C04_iteration_complete_partial for the code as it is when no PID is flagged at the start, C04_iteration_drained). 'Recycled -> replaced by a fresh object' for the SHIPPED order in its two-iteration form, from any reachable state, kernel events anywhere, any attrs (C04_flagged_iteration_skips: the iteration that starts while a cached PID is flagged never yields it and publishes a _pmap without it — the known finding C04-flagged-pid-skipped characterised in general; C04_uncached_iteration_fresh: an iteration that finds a listed PID uncached yields for it only a reference no object had before, an object of that PID; C04_recycled_replaced_two_iterations: both composed; C04_refines_sequential_from: from any idle reachable state — e.g. the one after the dropping iteration — the code equals the specification machine, so the fresh object is kept). The LIFETIME of a recycled-flag (seeded round 5): every operation other than the first next() of a generator — cache_clear(), next()/close() of generators in flight that republish their private table, is_running(), pids(), pid_exists() — keeps every flagged PID flagged (C04_flag_kept_by_every_other_op, C04_cache_clear_keeps_flags); once is_running() has found an object's PID recycled the PID stays flagged along ANY continuation in which no iteration starts (C04_found_recycled_stays_flagged), the iteration that starts next never yields that stale object, either prologue order, any attrs (C04_found_recycled_never_yielded_again), and for the shipped order iteration n drops the entry and n+1 yields a fresh object (C04_found_recycled_replaced); C04_clear_dropping_flags_counterexample shows what a cache_clear() that also emptied _pids_reused would do (stale object yielded forever); the frame is tied to the source by the obligations cfg_flag_set_ops / cfg_pmap_ops on the facts listing EVERY use of the module globals _pids_reused / _pmap in the package. Object <-> PID: in every reachable state, any configuration, the yielded reference is a live object whose pid is the yielded PID and no reference in _pmap / a suspended generator's map / to-do list dangles or is filed under another PID (C04_yield_object_pid, C04_object_pid_stable; invariant ObjInv). For every SEQUENTIAL history the whole output trace of the model — PIDs, object identities, info keys — equals that of a shared-cache specification machine (C04_refines_sequential, by an abstraction function), whose cache keeps an entry iff its PID is still listed and not flagged, yields the cached object else a fresh one, and is emptied by cache_clear (C04_start_cache, C04_spec_visit, C04_isRunning_flags, C04_cache_clear). The platform functions are covered branch by branch: _psposix.pid_exists (PID 0, ESRCH, EPERM, ok, OverflowError: C04_posix_pidExists_branches), _pslinux.pid_exists called on its own with ANY table changes between the kill probe and the status read (C04_linux_pidExists_two_instants: the answer is right for the table at the probe or at the read; C04_linux_pidExists_iff without changes; C04_platform_eq ties them to the front-end model); bool arguments are ints (C04_pidExists_bool), floats are pinned as outside the statement (C04_pidExists_float: TypeError for positive floats). as_dict's ad_value substitution: keys exactly the requested names, ad_value exactly where the getter raises AccessDenied/ZombieProcess (C04_asdict_ad_value). Two threads in the prologue's drain loop: C04_drain_race_counterexample (KeyError with the unguarded pop of the code as found) and C04_drain_guarded_safe (no KeyError, no flag lost, every schedule, for the guarded pop); the code now has the guarded pop (fix 4d302c5), pinned by the obligation cfg_pop_guarded. One thread at STATEMENT granularity against an arbitrary environment (Model/C04Fine.lean: the thread as a function of what it reads — _pmap at the copy, the table at the listing, the PIDs _pids_reused.pop() hands it, the answer at each Process(pid) / as_dict — so for every schedule of any number of threads and table changes at any point, also between add(pid) and as_dict): its prologue computes what the atomic prologue computes on the hybrid snapshot (C04_fine_prologue_atomic); yielded PIDs strictly ascending and from its listing, each yielded object is the one _pmap held for that PID at the copy (and not handed to it as recycled) or its own new one, only IndexError/KeyError(unguarded pop)/ValueError can escape (C04_fine_safety, C04_fine_no_keyerror for the code as it is); what it stores into _pmap maps PIDs of its listing to the copied or its own object for that very PID (C04_fine_publish: the guarantee every reader relies on); run to the end it yields every listed PID unless the world answered NoSuchProcess there (C04_fine_complete, for the repaired order or when it was handed no flagged PID). Proved counterexamples (replayed on the real code): L4 OverflowError for the pre-fix pid_exists, L19 flagged PID skipped, overlapping generators, cache_clear while suspended, ppid reuse check (these last four are the known findings C04-flagged-pid-skipped, C04-overlap-identity, C04-clear-while-suspended, C04-reuse-check-skips-pid), and the _pids_reused.pop() race of two threads for the unguarded pop (fixed in /repo by 4d302c5). Tied to the code by translator facts feeding proof obligations — cfg_good (range guard), cfg_reuse_attrs (the only as_dict name whose getter reaches _raise_if_pid_reused() is ppid: a getter gaining the call breaks the build, and the harness keeps the region of known finding C04-reuse-check-skips-pid pinned to ppid so the new behaviour is a failing input), cfg_no_access_attrs (exactly pid and create_time are answered from the object; C04_refines_sequential_literal states the refinement against the literal list), cfg_names_valid, cfg_pop_guarded; C04_noReuse_iff spells out the NoReuse hypothesis for the code as it is (attrs=None or a non-empty list without ppid) — and the prologue order, which selects the model the driver runs, and by a differential run of the real functions over a fake procfs incl. exhaustive short histories, the complete pid_exists table (front-end, both platform functions, windows between probe and read, bool/float arguments), attrs=[] (all names) on a complete fake /proc/<pid> with EACCES injection, and a deterministic bounded-pre-emption exploration of two threads using process_iter()/cache_clear()/is_running() at once (oracle from the statement; item-boundary schedules are also run through the Lean model, drain-loop steps through the Lean drain model, and EVERY generator run of every explored schedule — line, shared-bytecode and every-bytecode granularity — through the statement-granularity thread model fed with the values the real thread read: to-do list, yields and the published map must be equal); the whole-iteration sentence and the sentence 'an object whose PID is_running() found recycled is never yielded by an iteration that starts later' are also judged on the implementation's own outputs of every history (model-independent oracles; families inflight_flag / exhaustive_inflight span recycling x generator in flight x cache_clear()); process_iter is called in every spelling of its signature (no argument, attrs / ad_value positional, by keyword, defaults). The TEXT of /proc/<n>/status (seeded round 5, C04-5): _pslinux.pid_exists is also transcribed at byte level (Model/C04Status.lean: the lines of the file, the first one starting with Tgid:, its second field through int(), == with the argument; statement list pinned by the obligation cfg_tgid_scan) against the kernel's documented format (Spec/C04Status.lean: any own-key lines before the Tgid line, anything after it): for ANY id asked about and ANY thread-group id printed the scan answers whether the two NUMBERS are equal (C04_tgid_field_compared_as_number), the byte-level function equals the abstract one the other theorems speak about (C04_linux_pidExists_text_refines, C04_linux_pidExists_text_other), hence True exactly for listed PIDs and False for every thread id whatever its decimal looks like next to its process's (C04_linux_pidExists_text_iff, C04_thread_id_text_false); C04_tgid_prefix_match_counterexample shows what a textual prefix comparison would answer for thread 123 of process 1234. Correspondence: families tid_digits / status_text (ids related as decimal text: prefix, suffix, infix, extension, permutation; status files in ten layouts + random lines + texts outside the kernel's format), an exhaustive sweep of every ordered pair (thread-group id, thread id) over 15 such numbers, the byte-level model fed with the very bytes of the fake file. A listed process changing state DURING its own as_dict() scan (seeded round 5, C04-6): Model/C04Scan.lean takes one visit apart into the OS accesses of the getters inside the one oneshot() block (memoized readers keep what they read earlier in the block; wrap_exceptions turns EACCES / ESRCH / ENOENT into AccessDenied / ZombieProcess-or-NoSuchProcess by asking _is_zombie(); cmdline's empty-file probe; _readlink's fallback; the caller's own oneshot() around the cached object; the object created by the visit); for every requested names, every state of the process at every access instant (alive -> zombie -> gone), everything a zombie's or a live process's entries may answer, the visit skips the PID only if the process was GONE at one of the instants it looked at it, otherwise yields with exactly the requested keys, and no exception escapes (C04_scan_listed_never_skipped, _cfg for the extracted facts, C04_scan_held_listed_never_skipped, C04_scan_zombie_still_yielded); with nothing changing it is the one-step abstraction of the history machine (C04_scan_steady); composed with the statement-granularity thread model into one whole iteration (C04_fine_complete_scan); C04_scan_stale_probe_counterexample shows an _is_zombie() answering from the block's memoized stat skipping a still-listed zombie / letting FileNotFoundError out. Tied to the source by the obligations cfg_zombie_probe (_is_zombie makes its own read of stat, mentions no memoized reader), cfg_scan_code (every statement of wrap_exceptions' wrapper, _is_zombie, _raise_if_zombie, _readlink), cfg_memo_readers, cfg_scan_sources, and by families scan_life / exhaustive_scan / exhaustive_scan_held / scan_corpus: the real process_iter(attrs=names) with every access to /proc/<pid> hooked (state moved to the scheduled one before each access, the scheduled kernel flavour served, the access logged), compared with the model (outcome, ad_value flags, the access log) and judged by a model-independent oracle (in the table at every instant => yielded, the cached object, exactly the keys, also in the following iteration; no exception).",
    "level_note": "Partial: two threads: theorems cover the generator-level interleavings (Op.next of several generators), the drain loop, and — thread-locally, for every schedule — one thread at statement granularity against an arbitrary environment (safety, identity of the yielded objects w.r.t. the copy, the published map, completeness); the GLOBAL identity statement under two threads is not proved (it is false: known finding C04-overlap-identity) and the composition of several fine-grained threads into one trace is explored (<= 2 pre-emptions at line/shared-bytecode granularity), not proved. Identity is proved for sequential histories only (overlaps, cache_clear while suspended, ppid+recycled PID, flagged PID at iteration start are the four known findings, with proved counterexamples; the _pids_reused.pop() race found in the same round is fixed by 4d302c5); completeness at full strength is proved for the repaired prologue order only and refuted for the shipped one, for which the partial theorems (nothing flagged at the start) and the two-iteration theorem hold; `zombie` is carried by the kernel model but read only by asDictVals (per-getter outcomes fed by the harness) and by the access-granularity visit model (Model/C04Scan.lean, one PID at a time), not by the history machine (C04_scan_steady ties the two when nothing changes during a visit); every OSError of the status read is one outcome of the model (the harness injects ENOENT, EACCES and ESRCH). Trusted: Lean kernel + {propext, Classical.choice, Quot.sound}; the translator; the correspondence harness; atomicity (table changes between psutil's OS accesses and right after the listing); CPython generator finalisation and set iteration order; as_dict modelled by attribute kind.",
    "technique": "Lean 4 generator state machine + refinement to a shared-cache specification by an abstraction function, invariants by induction over histories, a statement-granularity thread model quantified over everything the thread reads (rely/guarantee), translator-fed proof obligation, differential correspondence over a fake procfs with exhaustive short histories, bounded-pre-emption schedule exploration of real threads (sys.settrace baton scheduler) tied to the Lean model at item granularity",
    "design_ref": "DESIGN.md §5 C04",
}
ASSUMPTIONS = [
    "process table is well formed: one entry per PID, thread ids distinct from PIDs, every id fits pid_t; entries of the procfs root that are not PIDs are not all-digit names",
    "a PID recycled within one clock tick (same start time) is indistinguishable from the old process (psutil's documented assumption)",
    "the identity statements are proved for sequential histories (at most one suspended generator, cache_clear() only while none is suspended, no attrs name that starts with _raise_if_pid_reused, no PID flagged by is_running() at the moment an iteration starts — the last one only for the current prologue order); outside that region see the four known findings C04-overlap-identity, C04-clear-while-suspended, C04-reuse-check-skips-pid, C04-flagged-pid-skipped",
    "the process table is never empty when psutil lists it (the calling process exists); on an empty table pids()/pid_exists(0)/process_iter() raise IndexError (modelled, no promise in the spec)",
]

PID_T_MAX = 2**31 - 1
PLAIN_ATTRS = ["name", "status", "create_time", "cpu_times", "cpu_num"]

# ------------------------------------------------------------------------------ translator


def _drain_first(tree):
    fn = extract.find_def(tree, "process_iter")
    idx_while = idx_new = None
    for i, st in enumerate(fn.body):
        if isinstance(st, ast.While) and extract.dotted(st.test) == "_pids_reused" and idx_while is None:
            idx_while = i
        if isinstance(st, ast.Assign) and idx_new is None:
            names = {extract.dotted(t) for t in st.targets}
            if "new_pids" in names or "gone_pids" in names:
                idx_new = i
    if idx_while is None or idx_new is None:
        raise NotRecognised("process_iter: drain loop / new_pids assignment not found at top level")
    return idx_while < idx_new


def _catches_overflow_false(fn):
    for n in ast.walk(fn):
        if isinstance(n, ast.ExceptHandler) and n.type is not None:
            types = [extract.dotted(t) for t in (n.type.elts if isinstance(n.type, ast.Tuple) else [n.type])]
            if "OverflowError" in types:
                for st in n.body:
                    if isinstance(st, ast.Return) and isinstance(st.value, ast.Constant) and st.value.value is False:
                        return True
    return False


def _range_guard(init, posix, linux):
    f1 = extract.find_def(init, "pid_exists")
    f2 = extract.find_def(posix, "pid_exists")
    f3 = extract.find_def(linux, "pid_exists")
    return _catches_overflow_false(f1) or (_catches_overflow_false(f2) and bool(extract.calls_in(f3, "pid_exists")))


def _valid_names(snap):
    r = subprocess.run([PY, "-c", "import json, psutil; print(json.dumps(sorted(psutil._as_dict_attrnames)))"],
                       cwd=snap.dir, stdout=subprocess.PIPE, stderr=subprocess.PIPE, text=True, timeout=60,
                       env=dict(os.environ, PYTHONPATH=snap.dir))
    if r.returncode != 0:
        raise NotRecognised("cannot dump _as_dict_attrnames: %s" % r.stderr[-300:])
    names = json.loads(r.stdout.strip().split("\n")[-1])
    if not names or not all(isinstance(x, str) for x in names):
        raise NotRecognised("unexpected _as_dict_attrnames")
    return names


def _methods(cls):
    """every FunctionDef in the class body, also inside `if POSIX:`-style blocks"""
    out = []

    def walk(body):
        for n in body:
            if isinstance(n, ast.FunctionDef):
                out.append(n)
            elif isinstance(n, ast.If):
                walk(n.body)
                walk(n.orelse)
    walk(cls.body)
    return out


def _calls_with_defaults(fn, dotted_name):
    """does `fn`, CALLED WITHOUT ARGUMENTS (as `as_dict` calls a getter), reach a call of `dotted_name`? Walks every
    statement, also inside `with` / `try` / `for` / `while` / `if`; of an `if <param> is None` / `is not None` on a
    parameter whose default is None (the get-or-set methods `nice(value=None)`, `ionice`, `cpu_affinity`) only the
    branch taken with the default is followed."""
    a = fn.args
    pos = a.posonlyargs + a.args
    none_params = {arg.arg for arg, d in zip(pos[len(pos) - len(a.defaults):], a.defaults)
                   if isinstance(d, ast.Constant) and d.value is None}
    none_params |= {arg.arg for arg, d in zip(a.kwonlyargs, a.kw_defaults)
                    if isinstance(d, ast.Constant) and d.value is None}

    def expr_calls(node):
        return any(isinstance(n, ast.Call) and extract.dotted(n.func) == dotted_name for n in ast.walk(node))

    def stmts(body):
        return any(stmt(st) for st in body)

    def stmt(st):
        if isinstance(st, (ast.FunctionDef, ast.AsyncFunctionDef, ast.ClassDef, ast.Lambda)):
            return False
        if isinstance(st, ast.If):
            t = st.test
            if isinstance(t, ast.Compare) and isinstance(t.left, ast.Name) and t.left.id in none_params \
                    and len(t.ops) == 1 and isinstance(t.comparators[0], ast.Constant) and t.comparators[0].value is None:
                if isinstance(t.ops[0], ast.Is):
                    return stmts(st.body)
                if isinstance(t.ops[0], ast.IsNot):
                    return stmts(st.orelse)
            return expr_calls(t) or stmts(st.body) or stmts(st.orelse)
        found = False
        for field, value in ast.iter_fields(st):
            if isinstance(value, list) and value and isinstance(value[0], ast.stmt):
                found = found or stmts(value)
            elif isinstance(value, list):
                for v in value:
                    if isinstance(v, ast.ExceptHandler):
                        found = found or stmts(v.body)
                    elif isinstance(v, ast.AST):
                        found = found or expr_calls(v)
            elif isinstance(value, ast.AST):
                found = found or expr_calls(value)
        return found
    return stmts(fn.body)


def _reuse_attrs(tree, valid):
    """valid as_dict names whose Process method, called as `as_dict` calls it (no arguments), reaches a call of
    `self._raise_if_pid_reused()` ANYWHERE in its body (first statement, inside `with` / `try` / `if`…): total on
    purpose — a new shape gives a new VALUE, which breaks the obligation `cfg_reuse_attrs` instead of being overlooked"""
    cls = extract.find_class(tree, "Process")
    out = []
    for fn in _methods(cls):
        if fn.name in valid and _calls_with_defaults(fn, "self._raise_if_pid_reused"):
            out.append(fn.name)
    return sorted(set(out))


def _no_access(tree):
    """names as_dict() answers without looking at the process: 'pid' (special-cased in as_dict) and
    'create_time' when the front-end caches it in self._create_time and _init computes it"""
    cls = extract.find_class(tree, "Process")
    out = []
    ad = extract.find_def(tree, "as_dict", cls="Process")
    for n in ast.walk(ad):
        if isinstance(n, ast.Compare) and extract.dotted(n.left) == "name" and len(n.ops) == 1 \
                and isinstance(n.ops[0], ast.Eq):
            out.append(extract.const(n.comparators[0]))
    if out != ["pid"]:
        raise NotRecognised("as_dict: special-cased names are %r" % (out,))
    ct = extract.find_def(tree, "create_time", cls="Process")
    body = [st for st in ct.body if not (isinstance(st, ast.Expr) and isinstance(st.value, ast.Constant))]
    cached = (len(body) == 2 and isinstance(body[0], ast.If)
              and ast.unparse(body[0].test) == "self._create_time is None"
              and isinstance(body[1], ast.Return) and ast.unparse(body[1].value) == "self._create_time")
    gi = extract.find_def(tree, "_get_ident", cls="Process")
    init_calls = bool(extract.calls_in(gi, "create_time"))
    if cached and init_calls:
        out.append("create_time")
    del cls
    return sorted(out)


def _gone_refused(tree):
    """does `_raise_if_pid_reused` raise NoSuchProcess when `self._gone` is set (after the reuse test)?"""
    fn = extract.find_def(tree, "_raise_if_pid_reused", cls="Process")
    for st in fn.body:
        if isinstance(st, ast.If) and ast.unparse(st.test) == "self._gone":
            for n in ast.walk(st):
                if isinstance(n, ast.Raise) and isinstance(n.exc, ast.Call) \
                        and extract.dotted(n.exc.func) == "NoSuchProcess":
                    return True
            raise NotRecognised("_raise_if_pid_reused: `if self._gone:` without raise NoSuchProcess")
    for n in ast.walk(fn):
        if isinstance(n, ast.Attribute) and n.attr == "_gone":
            raise NotRecognised("_raise_if_pid_reused: unrecognised use of self._gone")
    return False


def _pop_guarded(tree):
    """is `_pids_reused.pop()` in process_iter's drain loop protected against the set having been emptied by
    another thread (try/except KeyError)?"""
    fn = extract.find_def(tree, "process_iter")
    for st in fn.body:
        if isinstance(st, ast.While) and extract.dotted(st.test) == "_pids_reused":
            for b in st.body:
                if isinstance(b, ast.Assign) and isinstance(b.value, ast.Call) \
                        and extract.dotted(b.value.func) == "_pids_reused.pop":
                    return False
                if isinstance(b, ast.Try):
                    pops = [n for n in ast.walk(ast.Module(body=b.body, type_ignores=[]))
                            if isinstance(n, ast.Call) and extract.dotted(n.func) == "_pids_reused.pop"]
                    caught = [extract.dotted(t) for h in b.handlers if h.type is not None
                              for t in (h.type.elts if isinstance(h.type, ast.Tuple) else [h.type])]
                    leaves = all(any(isinstance(x, (ast.Break, ast.Return)) for x in h.body) for h in b.handlers)
                    if pops and "KeyError" in caught and leaves:
                        return True
            raise NotRecognised("process_iter: drain loop without a recognisable _pids_reused.pop()")
    raise NotRecognised("process_iter: `while _pids_reused:` not found at top level")


def _shared_state_ops(snap, tree, name):
    """EVERY use of the module global `name` (`_pmap` / `_pids_reused`) in psutil/__init__.py as sorted "scope:op" strings —
    scope = the top-level function / `Class.method` / `<module>` / the dotted target a lambda is bound to
    (`process_iter.cache_clear`); op = the method called on it (`add`, `pop`, `clear`, `copy`…), `truth` (tested by
    while/if), `init` (module-level assignment), `global` (declared global), `store` (re-bound), `ref` (anything else: an
    alias, an argument, an iteration — total on purpose: a new shape gives a new VALUE and breaks the obligation
    `cfg_shared_state_ops`). Any other module of the package naming it is reported as `<file>:ref`."""
    out = set()

    def scan(scope, node, toplevel):
        for n in ast.walk(node):
            if isinstance(n, ast.Global) and name in n.names:
                out.add("%s:global" % scope)
        consumed = set()
        for n in ast.walk(node):
            if isinstance(n, ast.Call) and isinstance(n.func, ast.Attribute) and isinstance(n.func.value, ast.Name) \
                    and n.func.value.id == name:
                out.add("%s:%s" % (scope, n.func.attr))
                consumed.add(id(n.func.value))
            elif isinstance(n, (ast.While, ast.If)) and isinstance(n.test, ast.Name) and n.test.id == name:
                out.add("%s:truth" % scope)
                consumed.add(id(n.test))
        for n in ast.walk(node):
            if isinstance(n, ast.Name) and n.id == name and id(n) not in consumed:
                if isinstance(n.ctx, ast.Store):
                    out.add("%s:%s" % (scope, "init" if toplevel else "store"))
                else:
                    out.add("%s:ref" % scope)

    # `process_iter.cache_clear = _some_function`: the function is reported under the name it is published as
    alias = {}
    for st in tree.body:
        if isinstance(st, ast.Assign) and isinstance(st.value, ast.Name) and isinstance(st.targets[0], ast.Attribute):
            alias[st.value.id] = extract.dotted(st.targets[0])

    def block(stmts, prefix):
        for st in stmts:
            if isinstance(st, (ast.FunctionDef, ast.AsyncFunctionDef)):
                scan(alias.get(st.name, prefix + st.name), st, False)
            elif isinstance(st, ast.ClassDef):
                for sub in st.body:
                    if isinstance(sub, (ast.FunctionDef, ast.AsyncFunctionDef)):
                        scan("%s.%s" % (st.name, sub.name), sub, False)
                    elif isinstance(sub, (ast.If, ast.Try, ast.With)):
                        for fn in [x for x in ast.walk(sub) if isinstance(x, (ast.FunctionDef, ast.AsyncFunctionDef))]:
                            scan("%s.%s" % (st.name, fn.name), fn, False)
                    else:
                        scan("%s.<body>" % st.name, sub, False)
            elif isinstance(st, ast.Assign) and isinstance(st.value, ast.Lambda):
                scan(extract.dotted(st.targets[0]) or "<module>", st.value, False)
            elif isinstance(st, (ast.If, ast.Try, ast.With)):
                inner = list(st.body) + list(getattr(st, "orelse", [])) + list(getattr(st, "finalbody", []))
                for h in getattr(st, "handlers", []):
                    inner += h.body
                block(inner, prefix)
            else:
                scan("<module>", st, True)
    block(tree.body, "")
    pkg = os.path.join(snap.dir, "psutil")
    for fn in sorted(os.listdir(pkg)):
        if fn.endswith(".py") and fn != "__init__.py":
            with open(os.path.join(pkg, fn), encoding="utf-8") as f:
                if name in f.read():
                    out.add("%s:ref" % fn)
    if not out:
        raise NotRecognised("module global %s not found in psutil/__init__.py" % name)
    return sorted(out)


def _stmt_list(fn):
    """every statement of a function (docstring dropped, comments are not in the AST), flattened: `<depth>:<head or
    simple statement>` as `ast.unparse` prints it. Total: any Python function has such a list."""
    out = []

    def walk(body, d):
        for st in body:
            if isinstance(st, ast.Expr) and isinstance(st.value, ast.Constant) and isinstance(st.value.value, str):
                continue
            if isinstance(st, ast.If):
                out.append("%d:if %s:" % (d, ast.unparse(st.test)))
                walk(st.body, d + 1)
                if st.orelse:
                    out.append("%d:else:" % d)
                    walk(st.orelse, d + 1)
            elif isinstance(st, (ast.For, ast.AsyncFor)):
                out.append("%d:for %s in %s:" % (d, ast.unparse(st.target), ast.unparse(st.iter)))
                walk(st.body, d + 1)
                if st.orelse:
                    out.append("%d:else:" % d)
                    walk(st.orelse, d + 1)
            elif isinstance(st, ast.While):
                out.append("%d:while %s:" % (d, ast.unparse(st.test)))
                walk(st.body, d + 1)
                if st.orelse:
                    out.append("%d:else:" % d)
                    walk(st.orelse, d + 1)
            elif isinstance(st, (ast.With, ast.AsyncWith)):
                out.append("%d:with %s:" % (d, ", ".join(ast.unparse(i) for i in st.items)))
                walk(st.body, d + 1)
            elif isinstance(st, ast.Try) or st.__class__.__name__ == "TryStar":
                out.append("%d:try:" % d)
                walk(st.body, d + 1)
                for h in st.handlers:
                    out.append("%d:except%s%s:" % (d, "" if h.type is None else " " + ast.unparse(h.type),
                                                   "" if not h.name else " as " + h.name))
                    walk(h.body, d + 1)
                if st.orelse:
                    out.append("%d:else:" % d)
                    walk(st.orelse, d + 1)
                if st.finalbody:
                    out.append("%d:finally:" % d)
                    walk(st.finalbody, d + 1)
            elif isinstance(st, (ast.FunctionDef, ast.AsyncFunctionDef, ast.ClassDef)):
                out.append("%d:%s %s:" % (d, "class" if isinstance(st, ast.ClassDef) else "def", st.name))
                walk(st.body, d + 1)
            elif st.__class__.__name__ == "Match":
                out.append("%d:%s" % (d, " ".join(ast.unparse(st).split())))
            else:
                out.append("%d:%s" % (d, " ".join(ast.unparse(st).split())))
    walk(fn.body, 0)
    return out


def _tgid_scan(linux):
    """the statements of `_pslinux.pid_exists` — the function Model/C04Status.lean transcribes"""
    return _stmt_list(extract.find_def(linux, "pid_exists"))


def facts(snap, F):
    init = extract.parse_module(snap, "__init__.py")
    posix = extract.parse_module(snap, "_psposix.py")
    linux = extract.parse_module(snap, "_pslinux.py")
    cache = {}

    def valid():
        if "v" not in cache:
            cache["v"] = _valid_names(snap)
        return cache["v"]

    F.try_add("drainFirst", "Bool", lambda: extract.lean_bool(_drain_first(init)),
              "process_iter drains _pids_reused BEFORE computing new_pids/gone_pids")
    F.try_add("rangeGuard", "Bool", lambda: extract.lean_bool(_range_guard(init, posix, linux)),
              "pid_exists turns an OverflowError (int outside pid_t) into False")
    F.try_add("validNames", "List String", lambda: extract.lean_list(valid(), extract.lean_str),
              "sorted(_as_dict_attrnames) of the freshly imported snapshot")
    F.try_add("noAccessAttrs", "List String", lambda: extract.lean_list(_no_access(init), extract.lean_str),
              "names as_dict() answers from the Process object itself (no look at the process)")
    F.try_add("reuseAttrs", "List String", lambda: extract.lean_list(_reuse_attrs(init, valid()), extract.lean_str),
              "valid as_dict names whose Process method, called without arguments, reaches a call of self._raise_if_pid_reused()")
    F.try_add("popGuarded", "Bool", lambda: extract.lean_bool(_pop_guarded(init)),
              "process_iter's drain loop catches the KeyError of _pids_reused.pop() on a set emptied by another thread")
    F.try_add("goneRefused", "Bool", lambda: extract.lean_bool(_gone_refused(init)),
              "_raise_if_pid_reused() raises NoSuchProcess once is_running() has seen the process gone (self._gone)")
    F.try_add("flagSetOps", "List String",
              lambda: extract.lean_list(_shared_state_ops(snap, init, "_pids_reused"), extract.lean_str),
              "every use of the module global _pids_reused in the package, as scope:operation")
    F.try_add("pmapOps", "List String",
              lambda: extract.lean_list(_shared_state_ops(snap, init, "_pmap"), extract.lean_str),
              "every use of the module global _pmap in the package, as scope:operation")
    F.try_add("tgidScan", "List String", lambda: extract.lean_list(_tgid_scan(linux), extract.lean_str),
              "every statement of _pslinux.pid_exists (depth:statement; the scan of /proc/<pid>/status for the Tgid: line, "
              "the field read with int() and compared with ==, the fallback to the listing)")
    # seeded round 5c: the as_dict scan at the granularity of its OS accesses (Model/C04Scan.lean)
    c04_scan.facts(snap, F, init, linux, valid, lambda: _no_access(init))


# ------------------------------------------------------------------------------ simulated kernel (mirrors Kernel.apply)


class SimKernel:
    def __init__(self):
        self.procs = []     # dicts in listdir order
        self.thrs = []

    def find_proc(self, n):
        for p in self.procs:
            if p["pid"] == n:
                return p
        return None

    def find_thr(self, n):
        for t in self.thrs:
            if t["tid"] == n:
                return t
        return None

    def used(self, n):
        return self.find_proc(n) is not None or self.find_thr(n) is not None

    def apply(self, ev):
        """returns list of (action, payload) for the fake procfs"""
        k = ev["k"]
        if k == "spawn":
            p = ev["p"]
            if self.used(p["pid"]) or p["pid"] > PID_T_MAX:
                return []
            self.procs.append(dict(p))
            return [("mkproc", dict(p))]
        if k == "exit":
            pid = ev["pid"]
            acts = []
            for p in self.procs:
                if p["pid"] == pid:
                    acts.append(("rm", pid))
            for t in self.thrs:
                if t["tgid"] == pid:
                    acts.append(("rm", t["tid"]))
            self.procs = [p for p in self.procs if p["pid"] != pid]
            self.thrs = [t for t in self.thrs if t["tgid"] != pid]
            return acts
        if k == "zombie":
            acts = []
            for p in self.procs:
                if p["pid"] == ev["pid"]:
                    p["zombie"] = True
                    acts.append(("mkproc", dict(p)))
            return acts
        if k == "thread":
            t = ev["t"]
            if self.used(t["tid"]) or t["tid"] > PID_T_MAX or self.find_proc(t["tgid"]) is None:
                return []
            self.thrs.append(dict(t))
            return [("mkthr", dict(t))]
        raise ValueError(ev)


def stat_bytes(pid, start, state, comm="p", ppid=1):
    f = [state, ppid, pid, pid, 0, -1, 4194304] + [0] * 12 + [start] + [0] * 30
    return ("%d (%s) %s\n" % (pid, comm, " ".join(str(x) for x in f))).encode()


def status_bytes(pid, tgid, with_tgid=True):
    lines = ["Name:\tp", "Umask:\t0022", "State:\tS (sleeping)"]
    if with_tgid:
        lines.append("Tgid:\t%d" % tgid)
    lines += ["Ngid:\t0", "Pid:\t%d" % pid, "PPid:\t1", "Uid:\t0\t0\t0\t0", "Gid:\t0\t0\t0\t0", "Threads:\t1"]
    return ("\n".join(lines) + "\n").encode()


# --- the TEXT of /proc/<id>/status as a dimension of the world (seeded round 5b). An event may carry "st": the name of a
# layout in STATUS_SHAPES or {"b": [lines before the Tgid line], "a": [lines after it], "raw": optional replacement of the
# Tgid line itself (then the text is NOT in the kernel's format: only _pslinux.pid_exists vs the byte-level model)}.
# `{pid}` / `{tgid}` in a line are replaced by the id of the task / of its thread group. Lines are latin-1 text.
_STD_B = ["Name:\tp", "Umask:\t0022", "State:\tS (sleeping)"]
_STD_A = ["Ngid:\t0", "Pid:\t{pid}", "PPid:\t1", "Uid:\t0\t0\t0\t0", "Gid:\t0\t0\t0\t0", "Threads:\t1"]
STATUS_SHAPES = {
    "std": {"b": _STD_B, "a": _STD_A},
    "min": {"b": [], "a": []},
    "old": {"b": ["Name:\tp", "State:\tS (sleeping)"], "a": ["Pid:\t{pid}", "PPid:\t1", "TracerPid:\t0"]},     # no Umask: (< 4.7)
    "real": {"b": ["Name:\tkworker/{pid}:1", "Umask:\t0022", "State:\tS (sleeping)"],
             "a": ["Ngid:\t0", "Pid:\t{pid}", "PPid:\t1", "TracerPid:\t0", "Uid:\t1000\t1000\t1000\t1000",
                   "Gid:\t1000\t1000\t1000\t1000", "FDSize:\t64", "Groups:\t4 24 27 1000 ", "NStgid:\t{tgid}\t7",
                   "NSpid:\t{pid}\t9", "NSpgid:\t{tgid}\t7", "NSsid:\t{tgid}\t7", "Kthread:\t0", "VmPeak:\t    9120 kB",
                   "VmSize:\t    9120 kB", "Threads:\t3", "SigQ:\t0/63304", "SigPnd:\t0000000000000000",
                   "Cpus_allowed:\tff", "Cpus_allowed_list:\t0-7", "voluntary_ctxt_switches:\t{pid}",
                   "nonvoluntary_ctxt_switches:\t{tgid}"]},
    # the command name is whatever the process chose (the kernel escapes \n, \t … and the backslash only)
    "name_digits": {"b": ["Name:\t{pid}", "Umask:\t0022", "State:\tR (running)"], "a": ["Ngid:\t0", "Pid:\t{pid}"]},
    "name_tgid": {"b": ["Name:\tTgid:{pid}", "Umask:\t0022", "State:\tS (sleeping)"], "a": _STD_A},
    "name_tgid_sp": {"b": ["Name:\tTgid: {pid}", "State:\tS (sleeping)"], "a": ["Ngid:\t0", "Pid:\t{pid}", "PPid:\t{tgid}"]},
    "name_escaped": {"b": ["Name:\tx\\nTgid:\\t{pid}", "Umask:\t0022", "State:\tS (sleeping)"], "a": _STD_A},
    "late": {"b": _STD_B + ["Kthread:\t0", "Cpus_allowed:\t{pid}", "Seccomp:\t0"], "a": ["Pid:\t{pid}"]},
    "pid_first": {"b": ["Name:\tp", "Pid:\t{pid}", "PPid:\t{pid}"], "a": ["Ngid:\t{pid}"]},
}
SHAPE_NAMES = sorted(STATUS_SHAPES)


def status_parts(st, pid, tgid):
    """→ (lines before, Tgid line, lines after, in kernel format?) as bytes"""
    d = STATUS_SHAPES[st] if isinstance(st, str) else st

    def sub(x):
        return x.replace("{pid}", str(pid)).replace("{tgid}", str(tgid)).encode("latin-1")
    raw = d.get("raw")
    line = ("Tgid:\t%d" % tgid).encode() if raw is None else sub(raw)
    return [sub(x) for x in d["b"]], line, [sub(x) for x in d["a"]], raw is None


def status_text(st, pid, tgid):
    b, line, a, _ = status_parts(st, pid, tgid)
    return b"".join(x + b"\n" for x in b + [line] + a)


def shadow_status(k, n):
    """the bytes of /proc/<n>/status in table `k` (a SimKernel), or None when it cannot be read; second value: in the
    kernel's format?"""
    p = k.find_proc(n)
    if p is not None:
        if p["status"] == "unreadable":
            return None, True
        if p.get("st") is not None and p["status"] == "ok":
            return status_text(p["st"], n, n), status_parts(p["st"], n, n)[3]
        return status_bytes(n, n, with_tgid=(p["status"] == "ok")), True
    t = k.find_thr(n)
    if t is not None:
        if t.get("st") is not None:
            return status_text(t["st"], n, t["tgid"]), status_parts(t["st"], n, t["tgid"])[3]
        return status_bytes(n, t["tgid"]), True
    return None, True


def digit_relation(n, tgid):
    """how the decimal of the id asked about relates to the decimal of its thread-group id"""
    a, b = str(n), str(tgid)
    if a == b:
        return "equal"
    if b.startswith(a):
        return "prefix"
    if b.endswith(a):
        return "suffix"
    if a in b:
        return "infix"
    if a.startswith(b):
        return "extension"
    if a.endswith(b):
        return "tail_extension"
    if sorted(a) == sorted(b):
        return "permutation"
    if len(a) == len(b):
        return "same_length"
    return "other"


class Impl:
    """The real psutil over a fake procfs driven by a SimKernel."""

    def __init__(self, ctx):
        self.ps = ctx.psutil
        self.linux = self.ps._pslinux
        self.fp = FakeProc(self.ps, prefix="psv-c04-")
        self.root = self.fp.root
        self.rootb = os.fsencode(self.root)
        self.k = SimKernel()
        self.pending_mid = None
        self.pending_kill_mid = None
        self.real_listdir = os.listdir
        self.real_kill = os.kill
        self.real_getsid = os.getsid
        os.listdir = self._listdir
        os.kill = self._kill
        self.fp.write("stat", b"cpu  0 0 0 0 0 0 0 0 0 0\nbtime 1000000\n")
        self.fp.write("meminfo", c04_fullproc.MEMINFO)
        for rel, head in c04_fullproc.NET_HEADERS.items():
            self.fp.write(rel, head)
        self.full = False            # install the complete /proc/<pid> (every as_dict getter can run)
        self.patches = None
        self.stage = tempfile.mkdtemp(prefix="psv-c04-stage-", dir=os.path.dirname(self.root))
        self.gens = []
        self.yielded = {}        # step index -> object
        self.keep = []           # keep every yielded object alive (ids must not be recycled)
        self.canon = {}
        self.step = 0

    def want_full(self, on):
        self.full = bool(on)
        if on and self.patches is None:
            self.patches = c04_fullproc.OsPatches(self)
        if self.patches is not None:
            self.patches.deny = set()

    def close(self):
        if self.patches is not None:
            self.patches.close()
            self.patches = None
        os.listdir = self.real_listdir
        os.kill = self.real_kill
        for g in self.gens:
            try:
                g.close()
            except Exception:
                pass
        self.fp.close()
        shutil.rmtree(self.stage, ignore_errors=True)
        reset_psutil_state(self.ps)

    # ---- patched OS entry points
    def _listdir(self, path="."):
        if self.patches is not None:
            self.patches.check(path)
        res = self.real_listdir(path)
        if path == self.root or path == self.rootb:
            hidden = {t["tid"] for t in self.k.thrs}
            if isinstance(path, bytes):
                res = [x for x in res if not (x.isdigit() and int(x) in hidden)]
            else:
                res = [x for x in res if not (x.isdigit() and int(x) in hidden)]
            if self.pending_mid is not None:
                mid, self.pending_mid = self.pending_mid, None
                for ev in mid:
                    self.kev(ev)
        return res

    def _kill(self, pid, sig):
        try:
            self.real_getsid(pid)       # the real pid_t argument converter: OverflowError / TypeError propagate
        except OSError:
            pass
        if sig != 0 or pid <= 0:
            raise RuntimeError("harness: unexpected os.kill(%r, %r)" % (pid, sig))
        err = None
        p = self.k.find_proc(pid)
        if p is None:
            t = self.k.find_thr(pid)
            if t is None:
                err = ProcessLookupError(3, "No such process")
            else:
                p = self.k.find_proc(t["tgid"])
        if err is None and p is not None and p["foreign"]:
            err = PermissionError(1, "Operation not permitted")
        if self.pending_kill_mid is not None:      # table changes between the probe and what follows it
            mid, self.pending_kill_mid = self.pending_kill_mid, None
            for ev in mid:
                self.kev(ev)
        if err is not None:
            raise err

    # ---- world
    def _install(self, name, files):
        """make /proc/<name> appear atomically with all its files (a real procfs never shows a
        half-written record; matters for the two-thread runs)"""
        self._serial = getattr(self, "_serial", 0) + 1
        stage = os.path.join(self.stage, "n%d" % self._serial)
        c04_fullproc.write_tree(stage, files)
        dst = self.fp.path(name)
        if os.path.lexists(dst):
            self._uninstall(name)
        os.rename(stage, dst)

    def _uninstall(self, name):
        src = self.fp.path(name)
        if os.path.lexists(src):
            self._serial = getattr(self, "_serial", 0) + 1
            trash = os.path.join(self.stage, "t%d" % self._serial)
            os.rename(src, trash)
            shutil.rmtree(trash, ignore_errors=True)

    def kev(self, ev):
        for act, x in self.k.apply(ev):
            if act == "mkproc":
                files = {"stat": stat_bytes(x["pid"], x["start"], "Z" if x["zombie"] else "S")}
                if x["status"] == "ok":
                    files["status"] = (status_bytes(x["pid"], x["pid"]) if x.get("st") is None
                                       else status_text(x["st"], x["pid"], x["pid"]))
                elif x["status"] == "notgid":
                    files["status"] = status_bytes(x["pid"], x["pid"], with_tgid=False)
                if self.full and x["status"] == "ok":
                    files = c04_fullproc.files_for(x["pid"], files["stat"], x["zombie"],
                                                   keep_content=getattr(self, "zombie_keeps_content", False),
                                                   light=getattr(self, "zombie_keeps_content", False))
                self._install(str(x["pid"]), files)
            elif act == "mkthr":
                self._install(str(x["tid"]), {"stat": stat_bytes(x["tid"], x["start"], "S"),
                                              "status": (status_bytes(x["tid"], x["tgid"]) if x.get("st") is None
                                                         else status_text(x["st"], x["tid"], x["tgid"]))})
            elif act == "rm":
                self._uninstall(str(x))

    def _status_hex(self, n):
        try:
            with open(os.path.join(self.fp.path(str(n)), "status"), "rb") as f:
                return f.read().hex()
        except OSError:
            return None

    def reset(self):
        for g in self.gens:
            try:
                g.close()
            except Exception:
                pass
        self.gens = []
        self.yielded = {}
        self.keep = []
        self.canon = {}
        self.step = 0
        self.pending_mid = None
        self.pending_kill_mid = None
        if self.patches is not None:
            self.patches.deny = set()
        for p in list(self.k.procs):
            self._uninstall(str(p["pid"]))
        for t in list(self.k.thrs):
            self._uninstall(str(t["tid"]))
        self.k = SimKernel()
        reset_psutil_state(self.ps)
        self.linux.BOOT_TIME = 1000000.0

    def _canon(self, obj):
        i = self.canon.get(id(obj))
        if i is None:
            i = len(self.canon)
            self.canon[id(obj)] = i
            self.keep.append(obj)
        return i

    def do(self, op):
        t = self.step
        self.step += 1
        try:
            return self._do(op, t)
        except BaseException as e:  # noqa: BLE001 — every exception is an observable
            if isinstance(e, (KeyboardInterrupt, SystemExit)):
                raise
            self.pending_mid = None
            self.pending_kill_mid = None
            return {"kind": "exc", "exc": type(e).__name__}

    def _do(self, op, t):
        ps = self.ps
        o = op["op"]
        if o == "kev":
            self.kev(op["ev"])
            return {"kind": "unit"}
        if o == "pids":
            r = ps.pids()
            return {"kind": "pids", "l": [int(x) for x in r], "lowest": getattr(ps, "_LOWEST_PID", "n/a")}
        if o == "pid_exists":
            r = ps.pid_exists(op["n"])
            if r is not True and r is not False:
                return {"kind": "notbool", "v": repr(r)}
            return {"kind": "bool", "v": r}
        if o == "pid_exists_arg":
            r = ps.pid_exists(py_arg(op))
            if r is not True and r is not False:
                return {"kind": "notbool", "v": repr(r)}
            return {"kind": "bool", "v": r}
        if o == "posix_pid_exists":
            r = ps._psposix.pid_exists(op["n"])
            if r is not True and r is not False:
                return {"kind": "notbool", "v": repr(r)}
            return {"kind": "bool", "v": r}
        if o == "linux_pid_exists":
            if op["n"] == 0:                    # answered without a probe: the window is before the status read
                for ev in op["mid"]:
                    self.kev(ev)
            else:
                self.pending_kill_mid = list(op["mid"])
            if op.get("deny"):                  # opening /proc/<n>/status fails with EACCES (hidepid / LSM)
                if self.patches is None:
                    self.patches = c04_fullproc.OsPatches(self)
                self.patches.deny = {(op["n"], "status")}
                self.patches.errno = op.get("errno")        # ESRCH (task died under the reader), EIO…: same road
            try:
                r = self.linux.pid_exists(op["n"])
            finally:
                if op.get("deny"):
                    self.patches.deny = set()
                    self.patches.errno = None
                if self.pending_kill_mid is not None:      # the probe raised before deciding (OverflowError)
                    mid, self.pending_kill_mid = self.pending_kill_mid, None
                    for ev in mid:
                        self.kev(ev)
            if r is not True and r is not False:
                return {"kind": "notbool", "v": repr(r)}
            if op.get("text") is not None and self._status_hex(op["n"]) != op["text"]:
                return {"kind": "harness", "v": "status text of %d is not the one given to the model" % op["n"]}
            return {"kind": "bool", "v": r}
        if o == "status_scan":
            # the scan of ONE status text: the id is a task of the table that passes the probe, so the function's
            # answer is the value of `tgid == pid` (the text has a well-formed Tgid line)
            self.last_text = self._status_hex(op["n"])
            r = self.linux.pid_exists(op["n"])
            if r is not True and r is not False:
                return {"kind": "notbool", "v": repr(r)}
            return {"kind": "eq", "v": r}
        if o == "iter":
            g = call_process_iter(ps, op["attrs"], op.get("form"))
            self.gens.append(g)
            return {"kind": "gen", "g": len(self.gens) - 1}
        if o == "next":
            if op["g"] >= len(self.gens):
                for ev in op["mid"]:
                    self.kev(ev)
                return {"kind": "badarg"}
            g = self.gens[op["g"]]
            fresh = inspect.getgeneratorstate(g) == inspect.GEN_CREATED
            if fresh:
                self.pending_mid = list(op["mid"])
            else:
                for ev in op["mid"]:
                    self.kev(ev)
            try:
                p = next(g)
            except StopIteration:
                return {"kind": "stop"}
            finally:
                if self.pending_mid is not None:       # the prologue never listed (cannot happen today)
                    mid, self.pending_mid = self.pending_mid, None
                    for ev in mid:
                        self.kev(ev)
            self.yielded[t] = p
            info = None
            if op_attrs(self, op["g"]) is not None:
                info = sorted(p.info.keys())
            return {"kind": "yield", "obj": self._canon(p), "pid": int(p.pid), "info": info}
        if o == "close":
            if op["g"] >= len(self.gens):
                return {"kind": "badarg"}
            self.gens[op["g"]].close()
            return {"kind": "unit"}
        if o == "cache_clear":
            ps.process_iter.cache_clear()
            return {"kind": "unit"}
        if o == "is_running":
            p = self.yielded.get(op["at"])
            if p is None:
                return {"kind": "badarg"}
            r = p.is_running()
            return {"kind": "bool", "v": bool(r)}
        raise ValueError(op)


AD_SENTINEL = "<ad>"
FORMS_NONE = ["none", "none", "kw_none", "pos_none", "ad_only", "pos_none_ad"]
FORMS_NAMES = ["kw", "kw", "pos", "kw_ad", "pos_ad", "kw_swapped"]


def call_process_iter(ps, attrs, form):
    """every way of spelling the call: no argument at all, attrs / ad_value positional or by keyword (the documented
    defaults attrs=None, ad_value=None); one model op `iter attrs` for all of them"""
    a = None if attrs is None else list(attrs)
    if form is None:
        form = "none" if a is None else "kw"
    if form == "none" and a is None:
        return ps.process_iter()
    if form == "kw_none" and a is None:
        return ps.process_iter(attrs=None)
    if form == "pos_none" and a is None:
        return ps.process_iter(None)
    if form == "ad_only" and a is None:
        return ps.process_iter(ad_value=AD_SENTINEL)
    if form == "pos_none_ad" and a is None:
        return ps.process_iter(None, AD_SENTINEL)
    if form == "pos":
        return ps.process_iter(a)
    if form == "kw_ad":
        return ps.process_iter(attrs=a, ad_value=AD_SENTINEL)
    if form == "pos_ad":
        return ps.process_iter(a, AD_SENTINEL)
    if form == "kw_swapped":
        return ps.process_iter(ad_value=AD_SENTINEL, attrs=a)
    return ps.process_iter(attrs=a)


def op_attrs(impl, g):
    return impl.gen_attrs[g] if hasattr(impl, "gen_attrs") and g < len(impl.gen_attrs) else None


def set_order(attrs):
    """iteration order of `set(attrs)` as as_dict() will see it (CPython, same process)"""
    return list(set(attrs))


def py_arg(op):
    """the Python object a `pid_exists_arg` op passes to psutil.pid_exists"""
    if op["t"] == "bool":
        return bool(op["v"])
    return float(op["x"])


def model_line(op):
    if op["op"] == "iter":
        return {"op": "iter", "attrs": None if op["attrs"] is None else set_order(op["attrs"])}
    if op["op"] == "pid_exists_arg" and op["t"] == "float":
        x = float(op["x"])
        return {"op": "pid_exists_arg", "t": "float_neg" if x < 0 else "float_zero" if x == 0 else "float_other"}
    if op["op"] == "status_scan":
        b, _, a, _ = status_parts(op["st"], op["n"], op["tgid"])
        return {"op": "status_scan", "n": op["n"], "tgid": op["tgid"], "before": [x.hex() for x in b], "after": [x.hex() for x in a]}
    return op


class Canon:
    """first-seen renumbering of the object references printed by the driver"""

    def __init__(self):
        self.m = {}

    def out(self, o):
        if o is None:
            return None
        if o.get("kind") == "yield":
            r = o["obj"]
            if r not in self.m:
                self.m[r] = len(self.m)
            info = o["info"]
            return {"kind": "yield", "obj": self.m[r], "pid": o["pid"], "info": None if info is None else sorted(info)}
        if o.get("kind") == "gen":
            return {"kind": "gen", "g": o["g"]}
        return o


def strip_impl(o):
    if o.get("kind") == "pids":
        return {"kind": "pids", "l": o["l"]}
    return o


# ------------------------------------------------------------------------------ regions of the known findings

F_OVERLAP = "C04-overlap-identity"
F_CLEAR = "C04-clear-while-suspended"
F_PPID = "C04-reuse-check-skips-pid"
F_L19 = "C04-flagged-pid-skipped"
# The region of C04-reuse-check-skips-pid is the one RECORDED with the finding (attrs containing `ppid`, or attrs=[]
# which contains it) — never the fact `reuseAttrs` of the tree being checked: a getter that gains
# `_raise_if_pid_reused()` must not widen the tolerated region (audit item 3; obligation `cfg_reuse_attrs`).
REGION_REUSE_ATTRS = ["ppid"]
SIMPLE_ATTRS = set(PLAIN_ATTRS) | {"pid", "ppid"}
CURRENT_REUSE = ["ppid"]        # fact of this run: only feeds the GENERATORS (so a changed fact gets a failing input)


class Rows(list):
    """rows of one executed history + per step: did an iteration start while the model's
    `_pids_reused` was non-empty (printed by the driver)"""
    flags = ()


def regions(hist, impl_outs, reuse_attrs, flags=()):
    """finding ids whose region the history (up to its end) lies in. Computed from the ops and the
    implementation's own outcomes: a generator is suspended from its first yield until stop /
    exception / close."""
    susp = set()
    reg = set()
    if any(flags[:len(hist)]):
        reg.add(F_L19)
    gattrs = []
    spawned = {}
    reused_pid = False
    for op, out in zip(hist, impl_outs):
        o = op["op"]
        if o == "kev":
            evs = [op["ev"]]
        elif o in ("next", "linux_pid_exists"):
            evs = op["mid"]
        else:
            evs = []
        for ev in evs:
            if ev["k"] == "spawn":
                spawned[ev["p"]["pid"]] = spawned.get(ev["p"]["pid"], 0) + 1
                if spawned[ev["p"]["pid"]] > 1:
                    reused_pid = True
            elif ev["k"] == "thread":
                spawned[ev["t"]["tid"]] = spawned.get(ev["t"]["tid"], 0) + 1
                if spawned[ev["t"]["tid"]] > 1:
                    reused_pid = True
        if o == "iter":
            gattrs.append(op["attrs"])
        elif o == "next" and op["g"] < len(gattrs):
            if susp - {op["g"]}:
                reg.add(F_OVERLAP)
            if out.get("kind") == "yield":
                susp.add(op["g"])
            else:
                susp.discard(op["g"])
            a = gattrs[op["g"]]
            if a is not None and (a == [] or (set(a) & set(reuse_attrs))) and reused_pid:
                reg.add(F_PPID)
        elif o == "close":
            susp.discard(op["g"])
        elif o == "cache_clear" and susp:
            reg.add(F_CLEAR)
    return reg


# ------------------------------------------------------------------------------ running histories


def run_histories(ctx, impl, hists):
    lines = []
    for h in hists:
        lines.append({"op": "reset"})
        lines.extend(model_line(o) for o in h)
    outs = ctx.driver().batch(lines)
    res = []
    i = 0
    for h in hists:
        i += 1
        impl.reset()
        impl.want_full(any(o["op"] == "iter" and o["attrs"] is not None
                           and (o["attrs"] == [] or (set(o["attrs"]) & set(CURRENT_REUSE)) - SIMPLE_ATTRS) for o in h))
        impl.gen_attrs = [o["attrs"] for o in h if o["op"] == "iter"]
        cm, cs = Canon(), Canon()
        rows = Rows()
        flags = []
        for o in h:
            m = outs[i]
            i += 1
            if "bad" in m:
                raise InfraError("driver rejected %r: %s" % (o, m))
            io = impl.do(o)
            if o["op"] == "status_scan" and m.get("render") != getattr(impl, "last_text", None):
                io = {"kind": "harness", "v": "the file written for %d is not the specification's rendering" % o["n"],
                      "file": getattr(impl, "last_text", None), "render": m.get("render")}
            rows.append((o, io, cm.out(m["model"]), cs.out(m["spec"])))
            flags.append(bool(m.get("flagged_start")))
        rows.flags = flags
        res.append(rows)
    return res, len(lines)


def lowest_ok(io, mo):
    """`_LOWEST_PID` after pids() is the smallest listed PID (model-level observable only)"""
    if io.get("kind") == "pids" and io.get("lowest", "n/a") != "n/a" and mo.get("kind") == "pids":
        return io["lowest"] == (mo["l"][0] if mo["l"] else None)
    return True


def judge(rows, reuse_attrs, known_ids):
    """First disagreement of an executed history, or None.
    → (kind, step, finding_or_None, note)"""
    hist = [r[0] for r in rows]
    impls = [r[1] for r in rows]
    spec_diverged = False
    for i, (o, io, mo, so) in enumerate(rows):
        im = strip_impl(io)
        model_ok = (im == mo) and lowest_ok(io, mo)
        if so is not None and not spec_diverged and im != so:
            reg = regions(hist[:i + 1], impls[:i + 1], reuse_attrs, getattr(rows, "flags", ())) & known_ids
            if reg and model_ok:
                spec_diverged = True          # recorded defective behaviour inside a known region
                yield ("finding", i, sorted(reg)[0], "inside the region of a known finding")
            else:
                yield ("spec", i, None, "step %d: implementation differs from the specification" % i)
                return
        if not model_ok:
            yield ("model", i, None, "step %d: implementation differs from the Lean model" % i)
            return


def whole_iteration_oracle(rows, reuse_attrs, valid):
    """The trace-level sentence of the statement (Lean: C04_iteration_complete_partial / C04_iteration_drained), judged on the
    implementation's own outputs and a shadow process table — no model involved: the PIDs one generator yields are a
    subsequence of the ascending listing of the table at its first next(), and once it has stopped every PID of that
    listing was either yielded or absent from the table at one of its next() calls. Applies to ANY history (overlapping
    generators, cache_clear, is_running); not judged: attrs with an invalid / reuse-checking name (finding
    C04-reuse-check-skips-pid), an iteration that starts while a PID is flagged (finding C04-flagged-pid-skipped; the
    driver's `flagged_start`), closed generators, an exception out of next().
    → list of (step, note)"""
    k = SimKernel()
    gens = []
    flags = getattr(rows, "flags", ())
    for i, (o, io, mo, so) in enumerate(rows):
        op = o["op"]
        if op == "kev":
            k.apply(o["ev"])
        elif op == "linux_pid_exists":
            for ev in o["mid"]:
                k.apply(ev)
        elif op == "iter":
            gens.append({"attrs": o["attrs"], "l": None, "ys": [], "van": set(), "stop": None, "skip": False})
        elif op == "close":
            if o["g"] < len(gens) and gens[o["g"]]["stop"] is None:
                gens[o["g"]]["skip"] = True
        elif op == "next":
            if o["g"] >= len(gens):
                for ev in o["mid"]:
                    k.apply(ev)
                continue
            G = gens[o["g"]]
            if G["l"] is None:
                G["l"] = sorted(p["pid"] for p in k.procs)
                if i < len(flags) and flags[i]:
                    G["skip"] = True
            for ev in o["mid"]:
                k.apply(ev)
            alive = {p["pid"] for p in k.procs} | {t["tid"] for t in k.thrs}
            G["van"] |= set(G["l"]) - alive
            kind = io.get("kind")
            if kind == "yield":
                G["ys"].append(io["pid"])
            elif kind == "stop":
                if G["stop"] is None:
                    G["stop"] = i
            else:
                G["skip"] = True
            G["last"] = i
    bad = []
    for g, G in enumerate(gens):
        a = G["attrs"]
        if G["l"] is None or G["skip"]:
            continue
        if a is not None and (a == [] or set(a) & set(reuse_attrs) or not set(a) <= set(valid)):
            continue
        it = iter(G["l"])
        if not all(y in it for y in G["ys"]):
            bad.append((G["last"], "generator %d yielded %r: not a subsequence of the ascending listing %r it took"
                        % (g, G["ys"], G["l"])))
        elif G["stop"] is not None:
            missing = [q for q in G["l"] if q not in G["ys"] and q not in G["van"]]
            if missing:
                bad.append((G["stop"], "generator %d stopped after yielding %r of the listing %r: PID(s) %r were in the "
                            "table at every one of its next() calls" % (g, G["ys"], G["l"], missing)))
    return bad


def recycled_replaced_oracle(rows, reuse_attrs, known, stats=None):
    """The clause "an entry whose PID was found recycled by is_running() is replaced by a fresh object" (Lean:
    C04_found_recycled_never_yielded_again), judged on the implementation's own outputs and a shadow process table — no
    model involved. An object is BUILT FOR the incarnation (start time) its PID has in the table when it is first yielded;
    `is_running()` FINDS it recycled when it answers False for the first time on that object while the table holds the
    PID as another incarnation. From then on no iteration that STARTS later (first next() after that call) may yield
    that object — whatever happened in between: cache_clear(), generators that were in flight finishing or being closed
    (they republish their private table), further is_running() calls, table changes. Tolerated only inside the region of
    known finding C04-overlap-identity (an iteration advanced while another one was suspended: the stale entry is
    republished AFTER a later iteration consumed the flag).
    → list of (step, note, finding_or_None)"""
    k = SimKernel()
    birth = {}          # canonical object -> (pid, start it was built for)
    said_false = set()
    found = {}          # canonical object -> step of the is_running() call that found its PID recycled
    first_next = {}
    yielded_at = {}
    ngen = 0
    out = []
    hist = [r[0] for r in rows]
    impls = [r[1] for r in rows]
    for i, (o, io, mo, so) in enumerate(rows):
        op = o["op"]
        if op == "kev":
            k.apply(o["ev"])
        elif op == "linux_pid_exists":
            for ev in o["mid"]:
                k.apply(ev)
        elif op == "iter":
            ngen += 1
        elif op == "next":
            for ev in o["mid"]:
                k.apply(ev)
            g = o["g"]
            if g >= ngen:
                continue
            first_next.setdefault(g, i)
            if io.get("kind") == "yield":
                x = io["obj"]
                yielded_at[i] = x
                if x not in birth:
                    p = k.find_proc(io["pid"])
                    birth[x] = (io["pid"], p["start"] if p else None)
                if stats is not None and first_next[g] > min(found.values(), default=i + 1):
                    stats["yields_of_later_iterations"] = stats.get("yields_of_later_iterations", 0) + 1
                if x in found and first_next[g] > found[x]:
                    reg = regions(hist[:i + 1], impls[:i + 1], reuse_attrs, getattr(rows, "flags", ()))
                    fid = F_OVERLAP if (F_OVERLAP in reg and F_OVERLAP in known) else None
                    out.append((i, "step %d: generator %d (first next() at step %d) yields for PID %d the very object whose "
                                   "is_running() found that PID recycled at step %d" % (i, g, first_next[g], io["pid"], found[x]),
                                fid))
                    if fid is None:
                        return out
        elif op == "is_running":
            x = yielded_at.get(o["at"])
            if x is not None and io.get("kind") == "bool" and io["v"] is False and x not in said_false:
                said_false.add(x)
                pid, b = birth[x]
                p = k.find_proc(pid)
                if p is not None and b is not None and p["start"] != b:
                    found[x] = i
                    if stats is not None:
                        stats["found"] = stats.get("found", 0) + 1
                        susp = suspended_after(hist[:i + 1], impls[:i + 1])
                        if susp:
                            stats["found_while_in_flight"] = stats.get("found_while_in_flight", 0) + 1
        elif op == "cache_clear" and stats is not None and found:
            stats["clear_after_found"] = stats.get("clear_after_found", 0) + 1
            if suspended_after(hist[:i + 1], impls[:i + 1]):
                stats["clear_after_found_while_in_flight"] = stats.get("clear_after_found_while_in_flight", 0) + 1
    return out


def suspended_after(hist, impl_outs):
    """generators suspended at a yield after the given prefix (from the implementation's own outcomes)"""
    susp = set()
    for op, out in zip(hist, impl_outs):
        if op["op"] == "next":
            if out.get("kind") == "yield":
                susp.add(op["g"])
            else:
                susp.discard(op["g"])
        elif op["op"] == "close":
            susp.discard(op["g"])
    return susp


# ------------------------------------------------------------------------------ generators


def mk_proc(pid, start, zombie=False, foreign=False, status="ok"):
    return {"pid": pid, "start": start, "zombie": zombie, "foreign": foreign, "status": status}


def spawn(pid, start, **kw):
    return {"op": "kev", "ev": {"k": "spawn", "p": mk_proc(pid, start, **kw)}}


def ev_exit(pid):
    return {"op": "kev", "ev": {"k": "exit", "pid": pid}}


class HGen:
    """builds one history while tracking a shadow table (so that events are mostly meaningful)"""

    def __init__(self, rng):
        self.rng = rng
        self.h = []
        self.k = SimKernel()
        self.clock = 100
        self.ngen = 0
        self.live = []           # generator ids not known finished
        self.yield_steps = []    # candidate steps for is_running (next ops)
        self.universe = rng.choice([[1, 2, 3, 5, 8], [1, 5, 9], list(range(1, 13)), [0, 1, 4, 7, 300, 4194304, PID_T_MAX]])

    def tick(self):
        if self.rng.random() < 0.9:
            self.clock += self.rng.randrange(1, 5)
        return self.clock

    def ev(self, kind=None):
        rng = self.rng
        kind = kind or rng.choice(["spawn", "spawn", "exit", "reuse", "zombie", "thread", "bogus"])
        pids = [p["pid"] for p in self.k.procs]
        if kind == "spawn":
            e = {"k": "spawn", "p": mk_proc(rng.choice(self.universe), self.tick(),
                                            foreign=rng.random() < 0.15,
                                            status=rng.choice(["ok"] * 6 + ["notgid", "unreadable"]))}
            out = [e]
        elif kind == "exit" and pids:
            out = [{"k": "exit", "pid": rng.choice(pids)}]
        elif kind == "reuse" and pids:
            pid = rng.choice(pids)
            out = [{"k": "exit", "pid": pid}, {"k": "spawn", "p": mk_proc(pid, self.tick())}]
        elif kind == "zombie" and pids:
            out = [{"k": "zombie", "pid": rng.choice(pids)}]
        elif kind == "thread" and pids:
            out = [{"k": "thread", "t": {"tid": rng.choice(self.universe + [20, 21]), "tgid": rng.choice(pids),
                                        "start": self.tick()}}]
        elif kind == "bogus":
            out = [rng.choice([{"k": "exit", "pid": 77}, {"k": "zombie", "pid": 78},
                               {"k": "thread", "t": {"tid": 30, "tgid": 79, "start": 1}},
                               {"k": "spawn", "p": mk_proc(PID_T_MAX + 1 + rng.randrange(3), 5)}])]
        else:
            out = [{"k": "spawn", "p": mk_proc(rng.choice(self.universe), self.tick())}]
        for e in out:
            self.k.apply(e)
        return out

    def kev(self, kind=None):
        for e in self.ev(kind):
            self.h.append({"op": "kev", "ev": e})

    def populate(self, n=None):
        n = n if n is not None else self.rng.randrange(1, 6)
        for _ in range(n):
            self.kev("spawn")

    def iter(self, attrs=None):
        self.h.append({"op": "iter", "attrs": attrs,
                       "form": self.rng.choice(FORMS_NONE if attrs is None else FORMS_NAMES)})
        self.ngen += 1
        self.live.append(self.ngen - 1)
        return self.ngen - 1

    def next(self, g, mid=None):
        self.yield_steps.append(len(self.h))
        self.h.append({"op": "next", "g": g, "mid": mid or []})

    def drain(self, g, extra=1, mid_p=0.0):
        n = len(self.k.procs) + extra
        for _ in range(n):
            mid = self.ev() if self.rng.random() < mid_p else []
            self.next(g, mid)
        if g in self.live:
            self.live.remove(g)

    def full(self, attrs=None, mid_p=0.0):
        g = self.iter(attrs)
        self.drain(g, mid_p=mid_p)
        return g

    def is_running(self, at=None):
        if at is None:
            if not self.yield_steps:
                return
            at = self.rng.choice(self.yield_steps[-12:])
        self.h.append({"op": "is_running", "at": at})

    def attrs(self, kind=None):
        rng = self.rng
        kind = kind or rng.choice(["none", "pid", "plain", "plain", "ppid", "mixed", "invalid", "dups"])
        if kind == "none":
            return None
        if kind == "pid":
            return ["pid"]
        if kind == "plain":
            return rng.sample(PLAIN_ATTRS, rng.randrange(1, 4)) + (["pid"] if rng.random() < 0.3 else [])
        if kind == "ppid":
            return [rng.choice(CURRENT_REUSE or ["ppid"])]
        if kind == "mixed":
            return rng.sample(PLAIN_ATTRS, rng.randrange(1, 3)) + [rng.choice(CURRENT_REUSE or ["ppid"])]
        if kind == "invalid":
            return rng.choice([["bogus"], ["name", "is_running"], ["pid", "kill"]])
        return ["name", "name", "pid", "status", "pid"]


def gen_history(rng, family):
    b = HGen(rng)
    if family == "static":
        b.populate()
        b.h.append({"op": "pids"})
        for _ in range(rng.randrange(2, 4)):
            b.full()
        b.h.append({"op": "pids"})
    elif family == "churn":
        b.populate()
        for _ in range(rng.randrange(2, 5)):
            b.full()
            for _ in range(rng.randrange(0, 4)):
                b.kev(rng.choice(["spawn", "exit", "zombie"]))
            if rng.random() < 0.3:
                b.h.append({"op": "pids"})
    elif family == "vanish_mid":
        b.populate(rng.randrange(2, 6))
        if rng.random() < 0.5:
            b.full()
        g = b.iter(b.attrs(rng.choice(["none", "none", "plain", "pid"])))
        for _ in range(len(b.k.procs) + 2):
            r = rng.random()
            if r < 0.35:
                b.kev("exit")
                b.next(g)
            elif r < 0.7:
                b.next(g, b.ev(rng.choice(["exit", "exit", "spawn", "reuse"])))
            else:
                b.next(g)
        b.full()
    elif family == "vanish_respawn":
        # a cached PID vanishes between the listing and its visit (info has to be read), then the
        # number is used again before the next iteration: the entry must have been dropped
        b.populate(rng.randrange(2, 5))
        b.full()
        pids_now = sorted(p["pid"] for p in b.k.procs)
        victim = rng.choice(pids_now)
        g = b.iter(b.attrs(rng.choice(["plain", "plain", "mixed", "pid"])))
        first = True
        for _ in range(len(pids_now) + 1):
            if first:
                ev = {"k": "exit", "pid": victim}
                b.k.apply(ev)
                b.next(g, [ev])
                first = False
            else:
                b.next(g)
        ev = {"k": "spawn", "p": mk_proc(victim, b.tick())}
        b.k.apply(ev)
        b.h.append({"op": "kev", "ev": ev})
        b.full(b.attrs(rng.choice(["none", "plain"])))
        b.full()
    elif family == "reuse_flag":
        b.populate(rng.randrange(2, 5))
        b.full()
        steps = list(b.yield_steps)
        for _ in range(rng.randrange(1, 3)):
            b.kev("reuse")
        for at in rng.sample(steps, min(len(steps), rng.randrange(1, 4))):
            b.is_running(at)
        b.h.append({"op": "pids"})
        b.full()
        b.full()
        if rng.random() < 0.5:
            b.is_running()
            b.full()
    elif family == "gone_same_tick":
        # is_running() sees the process gone (`_gone`), then the number is taken again — mostly within the same clock
        # tick (same start time, so `_ident` compares equal): the old object stays dead (is_running() False again,
        # reuse-checking getters refuse it) while the cache keeps handing it out until it is flagged or dropped
        b.populate(rng.randrange(2, 5))
        b.full()
        steps = list(b.yield_steps)
        victim = dict(rng.choice(b.k.procs))
        ev = {"k": "exit", "pid": victim["pid"]}
        b.k.apply(ev)
        b.h.append({"op": "kev", "ev": ev})
        for at in steps:
            b.is_running(at)
        start = victim["start"] if rng.random() < 0.75 else b.tick()
        ev = {"k": "spawn", "p": mk_proc(victim["pid"], start)}
        b.k.apply(ev)
        b.h.append({"op": "kev", "ev": ev})
        for at in rng.sample(steps, rng.randrange(1, len(steps) + 1)):
            b.is_running(at)
        b.full(b.attrs(rng.choice(["none", "plain", "ppid", "mixed"])))
        b.full()
        if rng.random() < 0.5:
            b.is_running()
            b.full()
    elif family == "clear":
        b.populate()
        for _ in range(rng.randrange(2, 4)):
            b.full()
            if rng.random() < 0.7:
                b.h.append({"op": "cache_clear"})
            if rng.random() < 0.4:
                b.kev()
    elif family == "attrs":
        b.populate(rng.randrange(1, 5))
        for _ in range(rng.randrange(2, 4)):
            b.full(b.attrs(), mid_p=0.15)
            if rng.random() < 0.5:
                b.kev(rng.choice(["reuse", "exit", "spawn"]))
            if rng.random() < 0.3:
                b.is_running()
    elif family == "partial":
        b.populate(rng.randrange(2, 6))
        for _ in range(rng.randrange(2, 4)):
            g = b.iter(b.attrs(rng.choice(["none", "none", "plain"])))
            for _ in range(rng.randrange(0, len(b.k.procs) + 1)):
                b.next(g)
            if rng.random() < 0.8:
                b.h.append({"op": "close", "g": g})
                if rng.random() < 0.3:
                    b.next(g)
            else:
                b.drain(g)
            if rng.random() < 0.5:
                b.kev()
        b.full()
    elif family == "overlap":
        b.populate(rng.randrange(1, 4))
        if rng.random() < 0.5:
            b.full()
            b.kev("spawn")
        gs = [b.iter(), b.iter()] + ([b.iter()] if rng.random() < 0.3 else [])
        for _ in range(rng.randrange(3, 12)):
            r = rng.random()
            if r < 0.75:
                b.next(rng.choice(gs))
            elif r < 0.85:
                b.h.append({"op": "cache_clear"})
            elif r < 0.92:
                b.kev()
            else:
                b.h.append({"op": "close", "g": rng.choice(gs)})
        for g in gs:
            b.drain(g, extra=0)
        b.full()
    elif family == "inflight_flag":
        # seeded round 5 — the PRODUCT of three dimensions the other families span one at a time: a PID is recycled and
        # is_running() finds out x a generator is in flight (partially consumed: it holds its private copy of the table
        # and republishes it when it ends / is closed) x cache_clear(); afterwards three complete iterations
        b.populate(rng.randrange(2, 5))
        pid_step = {}
        if rng.random() < 0.85:
            pids0 = sorted(p["pid"] for p in b.k.procs)
            g0 = b.iter()
            first = len(b.h)
            b.drain(g0)
            for j, pid in enumerate(pids0):
                pid_step[pid] = first + j
        victims = []

        def recycle():
            pids = [p["pid"] for p in b.k.procs]
            if not pids:
                return []
            pid = rng.choice([q for q in pids if q in pid_step] or pids)
            b.clock += rng.randrange(1, 5)
            evs = [{"k": "exit", "pid": pid}, {"k": "spawn", "p": mk_proc(pid, b.clock)}]
            for e in evs:
                b.k.apply(e)
            victims.append(pid)
            return evs

        def check_victim():
            cands = [pid_step[v] for v in victims if v in pid_step]
            if cands and rng.random() < 0.8:
                b.is_running(rng.choice(cands))
            else:
                b.is_running()
        if rng.random() < 0.6:
            for e in recycle():
                b.h.append({"op": "kev", "ev": e})
        g = b.iter(b.attrs(rng.choice(["none", "none", "none", "plain", "pid", "ppid"])))
        for _ in range(rng.randrange(0, len(b.k.procs) + 1)):
            b.next(g)
        for _ in range(rng.randrange(2, 7)):
            r = rng.random()
            if r < 0.30:
                check_victim()
            elif r < 0.50:
                b.h.append({"op": "cache_clear"})
            elif r < 0.65:
                evs = recycle()
                if rng.random() < 0.5:
                    for e in evs:
                        b.h.append({"op": "kev", "ev": e})
                else:
                    b.next(g, evs)
            elif r < 0.85:
                b.next(g)
            elif r < 0.92:
                b.h.append({"op": "pids"})
            else:
                b.kev(rng.choice(["spawn", "exit"]))
        if rng.random() < 0.5:              # the product itself, in either order
            two = [check_victim, lambda: b.h.append({"op": "cache_clear"})]
            rng.shuffle(two)
            for f in two:
                f()
        end = rng.random()
        if end < 0.55:
            b.drain(g)
        elif end < 0.85:
            b.h.append({"op": "close", "g": g})
            if rng.random() < 0.3:
                b.next(g)
        for _ in range(3):
            b.full(b.attrs(rng.choice(["none", "none", "plain"])))
            if rng.random() < 0.2:
                check_victim()
    elif family == "pid_exists":
        b.populate(rng.randrange(1, 5))
        for _ in range(rng.randrange(0, 3)):
            b.kev(rng.choice(["thread", "thread", "zombie", "exit"]))
        ids = [p["pid"] for p in b.k.procs] + [t["tid"] for t in b.k.thrs]
        for _ in range(rng.randrange(3, 10)):
            n = rng.choice(ids + b.universe + [0, -1, -5, 6, 2**31 - 1, 2**31, 2**32 + 5, 2**63, 2**64, -2**31 - 1, 10**30])
            b.h.append({"op": "pid_exists", "n": n})
            if rng.random() < 0.15:
                b.kev()
        b.h.append({"op": "pids"})
    elif family == "attrs_all":
        # attrs=[] = every valid name, on the complete fake /proc/<pid> (only processes with a status file: a real
        # /proc/<pid> always has one)
        for _ in range(rng.randrange(1, 4)):
            ev = {"k": "spawn", "p": mk_proc(rng.choice(b.universe), b.tick(), zombie=rng.random() < 0.2)}
            b.k.apply(ev)
            b.h.append({"op": "kev", "ev": ev})
        for _ in range(rng.randrange(1, 3)):
            g = b.iter([])
            for _ in range(len(b.k.procs) + 1):
                r = rng.random()
                mid = []
                if r < 0.25 and b.k.procs:
                    mid = [{"k": "exit", "pid": rng.choice([p["pid"] for p in b.k.procs])}]
                elif r < 0.35:
                    mid = [{"k": "spawn", "p": mk_proc(rng.choice(b.universe), b.tick())}]
                for e in mid:
                    b.k.apply(e)
                b.next(g, mid)
            b.live.remove(g)
            if rng.random() < 0.5:
                pids = [p["pid"] for p in b.k.procs]
                if pids and rng.random() < 0.5:
                    pid = rng.choice(pids)
                    for e in ({"k": "exit", "pid": pid}, {"k": "spawn", "p": mk_proc(pid, b.tick())}):
                        b.k.apply(e)
                        b.h.append({"op": "kev", "ev": e})
                else:
                    b.full(rng.choice([None, ["name", "pid"]]))
    elif family == "pid_exists_platform":
        # the two platform functions on their own (table changes between the kill probe and the status
        # read), and bool / float arguments of the front-end function
        b.populate(rng.randrange(1, 5))
        for _ in range(rng.randrange(0, 3)):
            b.kev(rng.choice(["thread", "thread", "zombie", "exit"]))
        for _ in range(rng.randrange(3, 9)):
            ids = [p["pid"] for p in b.k.procs] + [t["tid"] for t in b.k.thrs]
            n = rng.choice(ids + ids + b.universe + [0, 6, 13, 2**31 - 1, 2**31, 2**64])
            r = rng.random()
            if r < 0.25:
                b.h.append({"op": "posix_pid_exists", "n": n})
            elif r < 0.7:
                mid = []
                if rng.random() < 0.6:
                    k = rng.random()
                    if k < 0.35 and b.k.find_proc(n):                 # n exits, its number becomes a thread id
                        others = [p["pid"] for p in b.k.procs if p["pid"] != n]
                        mid = [{"k": "exit", "pid": n}]
                        if others and rng.random() < 0.6:
                            mid.append({"k": "thread", "t": {"tid": n, "tgid": rng.choice(others), "start": b.tick()}})
                    elif k < 0.6 and b.k.find_thr(n):                 # a thread id becomes a PID
                        mid = [{"k": "exit", "pid": b.k.find_thr(n)["tgid"]},
                               {"k": "spawn", "p": mk_proc(n, b.tick(), status=rng.choice(["ok", "notgid", "unreadable"]))}]
                    elif 0 < n <= PID_T_MAX and rng.random() < 0.5:
                        mid = [{"k": "spawn", "p": mk_proc(n, b.tick())}]
                    else:
                        mid = [{"k": "exit", "pid": n}]
                    for e in mid:
                        b.k.apply(e)
                op = {"op": "linux_pid_exists", "n": n, "mid": mid}
                if rng.random() < 0.3:
                    op["deny"] = True
                    e = rng.choice([None, None, 3, 5, 2])
                    if e is not None:
                        op["errno"] = e
                b.h.append(op)
            elif r < 0.85:
                b.h.append({"op": "pid_exists_arg", "t": "bool", "v": rng.random() < 0.5})
            else:
                b.h.append({"op": "pid_exists_arg", "t": "float",
                            "x": repr(rng.choice([-1.5, -0.0, 0.0, 0.5, 1.0, 5.0, 2.0**31, 1e30, float("inf"),
                                                  float("-inf"), float("nan")]))})
        b.h.append({"op": "pids"})
    elif family in ("tid_digits", "status_text"):
        gen_tid_digits(b, rng, texts=(family == "status_text"))
    else:  # mixed
        b.populate(rng.randrange(0, 4))
        for _ in range(rng.randrange(6, 30 if family == "long" else 16)):
            r = rng.random()
            if r < 0.2:
                b.kev()
            elif r < 0.27:
                b.h.append({"op": "pids"})
            elif r < 0.34:
                b.h.append({"op": "pid_exists", "n": rng.choice(b.universe + [0, -1, 2**31, 13])})
            elif r < 0.44 or not b.ngen:
                b.iter(b.attrs(rng.choice(["none", "none", "plain", "pid", "invalid"])))
            elif r < 0.80:
                # mostly sequential: advance the newest generator
                g = b.ngen - 1 if rng.random() < 0.9 else rng.randrange(b.ngen)
                b.next(g, b.ev() if rng.random() < 0.1 else [])
            elif r < 0.86:
                b.h.append({"op": "close", "g": rng.randrange(b.ngen + 1)})
            elif r < 0.9:
                b.h.append({"op": "cache_clear"})
            else:
                b.is_running(rng.randrange(len(b.h)) if rng.random() < 0.2 else None)
    return b.h


def related_ids(rng, n):
    """numbers whose decimal is related to that of `n`: proper prefixes, suffixes, infixes, one-digit extensions at either
    end, neighbours, the reversal, a zero inserted / dropped"""
    s = str(n)
    out = set()
    for i in range(1, len(s)):
        out.add(int(s[:i]))
        if s[i] != "0":
            out.add(int(s[i:]))
        for j in range(i + 1, len(s)):
            if s[i] != "0":
                out.add(int(s[i:j]))
    for d in rng.sample(range(10), 3):
        out.add(n * 10 + d)
        if d:
            out.add(int(str(d) + s))
    out |= {n + 1, n - 1, int(s[::-1]), int(s[0] + "0" + s[1:]), int(s.replace("0", "") or "0")}
    return sorted(x for x in out if 0 < x <= PID_T_MAX and x != n)


def random_status_lines(rng, pid_like):
    """lines a status file may hold around the Tgid line: own key, a tab, any value without a line feed"""
    keys = ["Name", "Umask", "State", "Ngid", "Pid", "PPid", "TracerPid", "NStgid", "NSpid", "Threads", "Kthread", "xTgid",
            "Tgi", "tgid", "TGID", " Tgid", "Tgid_", "Pid Tgid"]
    vals = ["{pid}", "{tgid}", "0", "Tgid:\t{pid}", "Tgid:{tgid}", "\tTgid:\t{pid}", "S (sleeping)", "{pid}\t{tgid}", "",
            str(pid_like), "Tgid:\t%d" % pid_like]
    out = []
    for _ in range(rng.randrange(0, 5)):
        k = rng.choice(keys)
        if k.startswith("Tgid:"):
            continue
        out.append("%s:\t%s" % (k, rng.choice(vals)))
    return out


def gen_tid_digits(b, rng, texts):
    """seeded round 5b: processes and threads whose ids are related AS DECIMAL TEXT (a thread id that is a proper prefix /
    suffix / infix / extension of its process's id, of another process's id; absent numbers with the same relations),
    every id asked about through the front-end and the platform functions; the status files in every layout of
    STATUS_SHAPES / random lines around the Tgid line (`texts`: also texts that are not in the kernel's format)."""
    def shape():
        r = rng.random()
        if r < 0.25:
            return None
        if r < 0.8:
            return rng.choice(SHAPE_NAMES)
        return {"b": [x for x in random_status_lines(rng, rng.randrange(1, 99999)) if not x.startswith("Tgid:")],
                "a": random_status_lines(rng, rng.randrange(1, 99999))}
    digits = rng.choice([2, 3, 3, 4, 4, 5, 5, 6, 7, 9, 10])
    pool = set()
    procs = []
    for _ in range(rng.randrange(1, 4)):
        lo, hi = 10 ** (digits - 1), min(10 ** digits - 1, PID_T_MAX)
        pid = rng.randrange(lo, hi + 1)
        if rng.random() < 0.3:
            pid = int(str(pid)[:-1] + "0") or pid                   # trailing zero: 120 / 12
        if rng.random() < 0.2 and procs:
            rel = related_ids(rng, procs[0])
            pid = rng.choice(rel) if rel else pid                   # a PROCESS whose id is related to another's
        if b.k.used(pid):
            continue
        ev = {"k": "spawn", "p": mk_proc(pid, b.tick(), foreign=rng.random() < 0.15)}
        st = shape()
        if st is not None:
            ev["p"]["st"] = st
        b.k.apply(ev)
        b.h.append({"op": "kev", "ev": ev})
        procs.append(pid)
        pool |= set(related_ids(rng, pid))
    if not procs:
        b.populate(1)
        procs = [p["pid"] for p in b.k.procs]
    rel = sorted(pool - set(procs))
    rng.shuffle(rel)
    raws = ["Tgid:", "Tgid:\t", "Tgid:\t{tgid}a", "Tgid:\t0{tgid}", "Tgid:\t {tgid}", "Tgid: {tgid}", "Tgid:\t{tgid}\t7",
            "Tgid:\t{tgid} kB", "Tgid:{tgid}", "Tgid:\tx{tgid}", "Tgid:\t{pid}{tgid}", "Tgid:\t\t{tgid}"]
    raw_ids = set()
    for tid in rel[:rng.randrange(2, 7)]:
        ev = {"k": "thread", "t": {"tid": tid, "tgid": rng.choice(procs), "start": b.tick()}}
        st = shape()
        if texts and rng.random() < 0.35:
            st = {"b": list(_STD_B), "a": list(_STD_A), "raw": rng.choice(raws)}
            raw_ids.add(tid)
        if st is not None:
            ev["t"]["st"] = st
        b.k.apply(ev)
        b.h.append({"op": "kev", "ev": ev})
    ids = procs + [t["tid"] for t in b.k.thrs]
    absent = [x for x in rel if not b.k.used(x)]
    asks = list(ids) + rng.sample(absent, min(len(absent), 3)) + [rng.choice(ids) + rng.choice([1, 10, 100])]
    rng.shuffle(asks)
    for n in asks:
        txt, kernel_fmt = shadow_status(b.k, n)
        lop = {"op": "linux_pid_exists", "n": n, "mid": []}
        if txt is not None and b.k.used(n):
            lop["text"] = txt.hex()
            if not kernel_fmt:
                lop["foreign_text"] = True
        if n not in raw_ids:
            b.h.append({"op": "pid_exists", "n": n})
        if rng.random() < 0.8 or n in raw_ids:
            b.h.append(lop)
        if rng.random() < 0.2:
            b.h.append({"op": "posix_pid_exists", "n": n})
        t = b.k.find_thr(n) if b.k.find_proc(n) is None else None
        task = b.k.find_proc(n) or t
        if task is not None and n not in raw_ids and rng.random() < 0.5 and task.get("status", "ok") == "ok":
            b.h.append({"op": "status_scan", "n": n, "tgid": n if t is None else t["tgid"],
                        "st": task.get("st") or "std"})
    b.h.append({"op": "pids"})
    if not raw_ids and rng.random() < 0.5:
        b.full()


def exhaustive_tid_digits():
    """EVERY ordered pair (thread-group id, thread id) over a set of numbers closed under the textual relations (prefix,
    suffix, infix, extension, permutation, zero inside / at the end): one history per thread-group id, every other number a
    thread of it, every number asked about through psutil.pid_exists and _pslinux.pid_exists (byte-level model fed with
    the file's text), the layouts of the status file in rotation."""
    S = [1, 2, 10, 12, 21, 23, 100, 102, 120, 121, 123, 234, 1234, 2341, 12345]
    out = []
    for i, tgid in enumerate(S):
        k = SimKernel()
        h = []
        ev = {"k": "spawn", "p": mk_proc(tgid, 50)}
        ev["p"]["st"] = SHAPE_NAMES[i % len(SHAPE_NAMES)]
        k.apply(ev)
        h.append({"op": "kev", "ev": ev})
        for j, tid in enumerate(S):
            if tid != tgid:
                ev = {"k": "thread", "t": {"tid": tid, "tgid": tgid, "start": 60 + j, "st": SHAPE_NAMES[(i + j) % len(SHAPE_NAMES)]}}
                k.apply(ev)
                h.append({"op": "kev", "ev": ev})
        for n in S:
            h.append({"op": "pid_exists", "n": n})
            h.append({"op": "linux_pid_exists", "n": n, "mid": [], "text": shadow_status(k, n)[0].hex()})
        h.append({"op": "pids"})
        out.append(h)
    return out


FAMILIES = ["static", "churn", "vanish_mid", "vanish_respawn", "reuse_flag", "clear", "attrs", "partial", "overlap",
            "pid_exists", "mixed", "long", "pid_exists_platform", "attrs_all", "gone_same_tick", "inflight_flag",
            "tid_digits", "status_text"]


def corpus():
    """lead witnesses (run first)"""
    base = [spawn(1, 101), spawn(5, 105), spawn(9, 109)]

    def full(g, n=4):
        return [{"op": "iter", "attrs": None}] + [{"op": "next", "g": g, "mid": []} for _ in range(n)]
    l19 = base + full(0) + [ev_exit(5), spawn(5, 999), {"op": "is_running", "at": 5},
                            {"op": "pids"}] + full(1) + full(2)
    l4 = base + [{"op": "pid_exists", "n": 2**31}, {"op": "pid_exists", "n": 2**31 - 1},
                 {"op": "pid_exists", "n": 2**64}]
    l5 = base[:1] + [{"op": "iter", "attrs": None}, {"op": "iter", "attrs": None},
                     {"op": "next", "g": 0, "mid": []}, {"op": "next", "g": 1, "mid": []},
                     {"op": "next", "g": 0, "mid": []}, {"op": "next", "g": 1, "mid": []}] + full(2, 2)
    clear = base + [{"op": "iter", "attrs": None}, {"op": "next", "g": 0, "mid": []}, {"op": "cache_clear"}] + \
        [{"op": "next", "g": 0, "mid": []} for _ in range(3)] + full(1)
    ppid = base + full(0) + [ev_exit(5), spawn(5, 999), {"op": "iter", "attrs": ["ppid"]}] + \
        [{"op": "next", "g": 1, "mid": []} for _ in range(4)]
    vanish = base + [{"op": "iter", "attrs": None},
                     {"op": "next", "g": 0, "mid": [{"k": "exit", "pid": 1}]},
                     {"op": "next", "g": 0, "mid": [{"k": "exit", "pid": 9}]},
                     {"op": "next", "g": 0, "mid": []}]
    thread = base + [{"op": "kev", "ev": {"k": "thread", "t": {"tid": 6, "tgid": 5, "start": 200}}},
                     {"op": "pid_exists", "n": 6}, {"op": "pid_exists", "n": 5}, {"op": "pids"}] + full(0)
    # is_running() saw PID 5 gone; 5 is taken again within the same clock tick: the old object stays dead
    gone = base + full(0) + [ev_exit(5), {"op": "is_running", "at": 5}, spawn(5, 105), {"op": "is_running", "at": 5},
                             {"op": "is_running", "at": 4}] + full(1) + \
        [{"op": "iter", "attrs": ["ppid"], "form": "pos"}] + [{"op": "next", "g": 2, "mid": []} for _ in range(4)] + full(3)
    # seeded round 5: PID 5 cached and recycled; a generator is in flight; is_running() finds 5 recycled; cache_clear(); the
    # generator is exhausted (republishing its private table, stale entry included); three more iterations
    inflight = base + full(0) + [ev_exit(5), spawn(5, 999), {"op": "iter", "attrs": None}, {"op": "next", "g": 1, "mid": []},
                                 {"op": "is_running", "at": 5}, {"op": "cache_clear"}] + \
        [{"op": "next", "g": 1, "mid": []} for _ in range(3)] + full(2) + full(3) + full(4)
    # seeded round 5b: thread ids that are decimal prefixes / suffixes of their process's id (PID counter wrapped around)
    def thr(tid, tgid, st=None):
        t = {"tid": tid, "tgid": tgid, "start": 300 + tid % 7}
        if st:
            t["st"] = st
        return {"op": "kev", "ev": {"k": "thread", "t": t}}
    k = SimKernel()
    digits = [spawn(1234, 201), spawn(77, 202), thr(123, 1234), thr(12, 1234, "real"), thr(234, 1234, "min"), thr(1235, 1234),
              thr(78, 77), thr(7, 77, "name_digits"), thr(770, 77, "name_tgid")]
    digits[0]["ev"]["p"]["st"] = "real"
    for e in digits:
        k.apply(e["ev"])
    digits += [{"op": "pid_exists", "n": n} for n in (123, 12, 234, 1235, 1234, 78, 7, 770, 77, 1, 23, 34)] + \
        [{"op": "linux_pid_exists", "n": n, "mid": [], "text": shadow_status(k, n)[0].hex()} for n in (123, 12, 234, 7, 770, 1234)] + \
        [{"op": "status_scan", "n": 123, "tgid": 1234, "st": "std"}, {"op": "status_scan", "n": 12, "tgid": 1234, "st": "real"},
         {"op": "pids"}] + full(0, 3)
    return [("corpus:tid-decimal-prefix", digits), ("corpus:inflight-flag-clear", inflight), ("corpus:gone-same-tick", gone), ("corpus:L19", l19), ("corpus:L4", l4), ("corpus:L5", l5), ("corpus:clear-suspended", clear),
            ("corpus:ppid", ppid), ("corpus:vanish", vanish), ("corpus:thread", thread)]


def reuse_witness(name):
    """iterate {1,5,9}; PID 5 is recycled; iterate with attrs=[name]"""
    base = [spawn(1, 101), spawn(5, 105), spawn(9, 109)]

    def full(g):
        return [{"op": "next", "g": g, "mid": []} for _ in range(4)]
    return base + [{"op": "iter", "attrs": None}] + full(0) + [ev_exit(5), spawn(5, 999), {"op": "iter", "attrs": [name]}] + full(1)


def exhaustive_histories(maxlen):
    """every sequence over a small alphabet of macro-steps around one recycled PID"""
    counter = itertools.count(500)

    def expand(word):
        h = [spawn(1, 101), spawn(5, 105)]
        ngen = 0
        last_yield5 = None
        start = 600
        for w in word:
            if w == "reuse5":
                start += 1
                h += [ev_exit(5), spawn(5, start)]
            elif w == "exit5":
                h.append(ev_exit(5))
            elif w == "full":
                h.append({"op": "iter", "attrs": None})
                for j in range(3):
                    if j == 1:
                        last_yield5 = len(h)
                    h.append({"op": "next", "g": ngen, "mid": []})
                ngen += 1
            elif w == "fullppid":
                h.append({"op": "iter", "attrs": ["ppid"]})
                for j in range(3):
                    h.append({"op": "next", "g": ngen, "mid": []})
                ngen += 1
            elif w == "vanish5name":
                h.append({"op": "iter", "attrs": ["name"]})
                h.append({"op": "next", "g": ngen, "mid": [{"k": "exit", "pid": 5}]})
                h.append({"op": "next", "g": ngen, "mid": []})
                h.append({"op": "next", "g": ngen, "mid": []})
                ngen += 1
            elif w == "spawn5":
                start += 1
                h.append(spawn(5, start))
            elif w == "half":
                h.append({"op": "iter", "attrs": None})
                h.append({"op": "next", "g": ngen, "mid": []})
                ngen += 1
            elif w == "resume" and ngen:
                h.append({"op": "next", "g": ngen - 1, "mid": []})
                h.append({"op": "next", "g": ngen - 1, "mid": []})
            elif w == "clear":
                h.append({"op": "cache_clear"})
            elif w == "isrun" and last_yield5 is not None:
                h.append({"op": "is_running", "at": last_yield5})
        return h
    del counter
    alphabet = ["reuse5", "exit5", "spawn5", "full", "fullppid", "vanish5name", "half", "resume", "clear", "isrun"]
    for n in range(1, maxlen + 1):
        for word in itertools.product(alphabet, repeat=n):
            if "full" in word or "half" in word or "fullppid" in word or "vanish5name" in word:
                yield list(word), expand(word)


def exhaustive_inflight(maxlen):
    """every word of length <= maxlen over {is_running on the old object of PID 5, cache_clear, advance the generator in
    flight, close it, recycle PID 5 once more, a complete other iteration} placed in the WINDOW of a generator in flight —
    table {1,5}, PID 5 cached; it is recycled before or after that generator started (one next() consumed) — followed by
    the end of that generator and three complete iterations"""
    alphabet = ["isrun", "clear", "adv", "close", "reuse5", "full"]

    def full(g):
        return [{"op": "iter", "attrs": None}] + [{"op": "next", "g": g, "mid": []} for _ in range(3)]
    for n in range(1, maxlen + 1):
        for word in itertools.product(alphabet, repeat=n):
            for pre in (True, False):
                h = [spawn(1, 101), spawn(5, 105)] + full(0)          # step 4 yields PID 5
                start = 600
                rec = [ev_exit(5), spawn(5, start)]
                if pre:
                    h += rec
                h += [{"op": "iter", "attrs": None}, {"op": "next", "g": 1, "mid": []}]
                if not pre:
                    h += rec
                ngen = 2
                for w in word:
                    if w == "isrun":
                        h.append({"op": "is_running", "at": 4})
                    elif w == "clear":
                        h.append({"op": "cache_clear"})
                    elif w == "adv":
                        h.append({"op": "next", "g": 1, "mid": []})
                    elif w == "close":
                        h.append({"op": "close", "g": 1})
                    elif w == "reuse5":
                        start += 1
                        h += [ev_exit(5), spawn(5, start)]
                    else:
                        h += full(ngen)
                        ngen += 1
                h += [{"op": "next", "g": 1, "mid": []} for _ in range(3)]
                for _ in range(3):
                    h += full(ngen)
                    ngen += 1
                yield list(word) + [pre], h


def pid_exists_table():
    """every kind of id × every interesting argument"""
    h = [spawn(1, 11), spawn(2, 12, foreign=True), spawn(3, 13, status="notgid"),
         spawn(4, 14, status="unreadable"), spawn(5, 15, foreign=True, status="unreadable"),
         spawn(6, 16, zombie=True), spawn(0, 17),
         {"op": "kev", "ev": {"k": "thread", "t": {"tid": 8, "tgid": 1, "start": 20}}},
         {"op": "kev", "ev": {"k": "thread", "t": {"tid": 9, "tgid": 2, "start": 21}}},
         spawn(PID_T_MAX, 18)]
    args = list(range(-3, 13)) + [PID_T_MAX - 1, PID_T_MAX, PID_T_MAX + 1, 2**32, 2**32 + 1, 2**63 - 1, 2**63,
                                  2**64, 10**25, -2**31, -2**31 - 1, -2**63 - 1]
    without0 = [x for x in h if not (x["op"] == "kev" and x["ev"].get("p", {}).get("pid") == 0)]
    # the platform functions on their own: every branch of _psposix.pid_exists (PID 0, ESRCH, EPERM, ok,
    # OverflowError) and of _pslinux.pid_exists (probe says no; Tgid equal / different; Tgid line missing;
    # status unreadable; PID 0), then bool / float arguments of the front-end
    pargs = list(range(0, 13)) + [PID_T_MAX - 1, PID_T_MAX, PID_T_MAX + 1, 2**64]
    plat = []
    for n in pargs:
        plat.append({"op": "posix_pid_exists", "n": n})
        plat.append({"op": "linux_pid_exists", "n": n, "mid": []})
    odd = [{"op": "pid_exists_arg", "t": "bool", "v": True}, {"op": "pid_exists_arg", "t": "bool", "v": False}] + \
        [{"op": "pid_exists_arg", "t": "float", "x": repr(x)}
         for x in (-1.5, -0.0, 0.0, 0.5, 1.0, 2.0, 2.0**31, 1e30, float("inf"), float("-inf"), float("nan"))]

    def thr(tid, tgid):
        return {"k": "thread", "t": {"tid": tid, "tgid": tgid, "start": 77}}
    # table changes between the kill probe and the status read (each on a fresh table)
    windows = [
        [{"op": "linux_pid_exists", "n": 1, "mid": [{"k": "exit", "pid": 1}]}],                    # status gone → listing → False
        [{"op": "linux_pid_exists", "n": 1, "mid": [{"k": "exit", "pid": 1}, thr(1, 6)]}],          # number now a thread id → False
        [{"op": "linux_pid_exists", "n": 8, "mid": [{"k": "exit", "pid": 1}, {"k": "spawn", "p": mk_proc(8, 90)}]}],   # thread id now a PID → True
        [{"op": "linux_pid_exists", "n": 8, "mid": [{"k": "exit", "pid": 1}, {"k": "spawn", "p": mk_proc(8, 90, status="notgid")}]}],
        [{"op": "linux_pid_exists", "n": 3, "mid": [{"k": "exit", "pid": 3}]}],                    # no Tgid line … gone → False
        [{"op": "linux_pid_exists", "n": 7, "mid": [{"k": "spawn", "p": mk_proc(7, 91)}]}],        # ESRCH at the probe → False
        [{"op": "linux_pid_exists", "n": 2, "mid": [{"k": "exit", "pid": 2}, {"k": "spawn", "p": mk_proc(2, 92)}]}],   # EPERM, then recycled → True
        [{"op": "linux_pid_exists", "n": 0, "mid": [{"k": "exit", "pid": 0}]}],
        # the status file cannot be opened (EACCES): thread ids (own / foreign process), PIDs, an absent id, with a window
        [{"op": "linux_pid_exists", "n": n, "mid": [], "deny": True} for n in (8, 9, 1, 2, 3, 6, 7, 0, PID_T_MAX)],
        # the status file of a task that dies under the reader answers ESRCH (ProcessLookupError); EIO: a plain OSError
        [{"op": "linux_pid_exists", "n": n, "mid": [], "deny": True, "errno": e} for n in (1, 2, 8, 9, 6) for e in (3, 5)],
        [{"op": "linux_pid_exists", "n": 1, "mid": [{"k": "exit", "pid": 1}], "deny": True, "errno": 3}],
        [{"op": "linux_pid_exists", "n": 8, "mid": [{"k": "exit", "pid": 1}, {"k": "spawn", "p": mk_proc(8, 93)}], "deny": True}],
        [{"op": "linux_pid_exists", "n": 1, "mid": [{"k": "exit", "pid": 1}, thr(1, 6)], "deny": True}],
    ]
    return [h + [{"op": "pid_exists", "n": n} for n in args] + plat + odd,
            without0 + [{"op": "pid_exists", "n": n} for n in args] + plat + odd] + \
        [h + w + [{"op": "pids"}] for w in windows]


def features(h, rows):
    f = set()
    started = set()
    susp = set()
    shadow = SimKernel()
    for (o, io, mo, so) in rows:
        k = o["op"]
        if k == "kev":
            shadow.apply(o["ev"])
        elif k in ("next", "linux_pid_exists"):
            for ev in o["mid"]:
                shadow.apply(ev)
        if k in ("pid_exists", "linux_pid_exists", "status_scan") and isinstance(o.get("n"), int):
            t = shadow.find_thr(o["n"]) if shadow.find_proc(o["n"]) is None else None
            if t is not None:
                f.add("tid_query")
                f.add("tid_query:%s:%s" % (digit_relation(o["n"], t["tgid"]), io.get("v") if io.get("kind") in ("bool", "eq") else io.get("kind")))
            for q in shadow.procs:
                if q["pid"] != o["n"] and o["n"] > 0 and t is None and shadow.find_proc(o["n"]) is None \
                        and digit_relation(o["n"], q["pid"]) in ("prefix", "suffix", "infix"):
                    f.add("absent_id_inside_a_pid")
            st = (shadow.find_proc(o["n"]) or t or {}).get("st")
            if st is not None:
                f.add("status_shape:%s" % (st if isinstance(st, str) else ("raw" if st.get("raw") is not None else "random")))
            if k == "linux_pid_exists" and o.get("text") is not None:
                f.add("linux_pid_exists_text")
            if k == "status_scan":
                f.add("status_scan")
        if k == "next":
            if o["mid"]:
                f.add("mid_events")
            if susp - {o["g"]}:
                f.add("overlap")
            if io.get("kind") == "yield":
                susp.add(o["g"])
                if o["g"] in started:
                    pass
                started.add(o["g"])
                if io.get("info") is not None:
                    f.add("info")
            else:
                susp.discard(o["g"])
                if io.get("kind") == "exc":
                    f.add("next_exc:" + io["exc"])
        elif k == "close":
            if o["g"] in susp:
                f.add("close_suspended")
            susp.discard(o["g"])
        elif k == "cache_clear":
            f.add("clear_suspended" if susp else "clear")
        elif k == "is_running":
            if io.get("kind") == "bool":
                f.add("is_running_%s" % io["v"])
        elif k == "pid_exists":
            if io.get("kind") == "bool":
                f.add("pid_exists_%s" % io["v"])
            if o["n"] > PID_T_MAX:
                f.add("pid_exists_huge")
            if o["n"] < 0:
                f.add("pid_exists_negative")
        elif k == "posix_pid_exists":
            f.add("posix_pid_exists:%s" % (io.get("v") if io.get("kind") == "bool" else io.get("exc")))
        elif k == "linux_pid_exists":
            if o.get("deny") and o.get("errno"):
                f.add("linux_pid_exists_errno:%d" % o["errno"])
            f.add("linux_pid_exists%s%s:%s" % ("_denied" if o.get("deny") else "", "_window" if o["mid"] else "",
                                              io.get("v") if io.get("kind") == "bool" else io.get("exc")))
        elif k == "pid_exists_arg":
            f.add("pid_exists_%s:%s" % (o["t"], io.get("v") if io.get("kind") == "bool" else io.get("exc")))
        elif k == "kev":
            f.add("kev:" + o["ev"]["k"])
        elif k == "iter":
            f.add("iter_form:" + (o.get("form") or ("none" if o["attrs"] is None else "kw")))
    # skipped PIDs / identity reuse
    objs = {}
    for (o, io, mo, so) in rows:
        if io.get("kind") == "yield":
            if io["obj"] in objs:
                f.add("same_object_again")
            objs[io["obj"]] = io["pid"]
    pid_objs = {}
    for (o, io, mo, so) in rows:
        if io.get("kind") == "yield":
            pid_objs.setdefault(io["pid"], set()).add(io["obj"])
    if any(len(v) > 1 for v in pid_objs.values()):
        f.add("pid_got_new_object")
    return f


# ------------------------------------------------------------------------------ correspondence


def reuse_attr_names(ctx):
    """the translator fact `reuseAttrs` of this run (a Lean list of string literals is valid JSON)"""
    try:
        with open(os.path.join(extract.GEN_DIR, "C04.lean"), encoding="utf-8") as f:
            return json.loads(extract.parse_generated(f.read())["reuseAttrs"][1])
    except Exception:
        return ["ppid"]


def known_ids(ctx):
    return {f["id"] for f in ctx.findings}


def check_batch(ctx, impl, res, hists, tags, sample_idx=()):
    results, nl = run_histories(ctx, impl, hists)
    kids = known_ids(ctx)
    ra = REGION_REUSE_ATTRS
    for j, rows in enumerate(results):
        h = hists[j]
        tag = tags[j]
        feats = features(h, rows)
        res.count("family:" + tag.split("#")[0])
        for f in feats:
            res.count("feature:" + f)
        res.count("ops", len(h))
        nontriv = bool(feats & {"same_object_again", "pid_got_new_object", "overlap", "mid_events", "info",
                                "pid_exists_True", "pid_exists_huge", "clear", "is_running_False",
                                "linux_pid_exists_window:True", "linux_pid_exists_window:False",
                                "linux_pid_exists:True", "posix_pid_exists:True", "pid_exists_float:TypeError", "tid_query"})
        sample = None
        if j in sample_idx:
            sample = {"family": tag, "history": h, "impl": [r[1] for r in rows]}
        res.case(h, nontrivial=nontriv, sample=sample)
        for kind, step, fid, note in judge(rows, ra, kids):
            inp = {"history": h[:step + 1], "source": tag}
            o, io, mo, so = rows[step]
            if kind == "finding":
                res.known_seen[fid] = res.known_seen.get(fid, 0) + 1
                res.count("in_region:" + fid)
            else:
                res.disagree(kind, inp, io, mo, so, note=note)
        rstats = {}
        for step, note, fid in recycled_replaced_oracle(rows, ra, kids, rstats):
            o, io, mo, so = rows[step]
            if fid is not None:
                res.known_seen[fid] = res.known_seen.get(fid, 0) + 1
                res.count("in_region:" + fid)
            else:
                res.disagree("spec", {"history": h[:step + 1], "source": tag, "oracle": "recycled_replaced"}, io, mo, so, note=note)
        for kk, vv in rstats.items():
            res.count("recycled_replaced:" + kk, vv)
        res.count("whole_iteration_judged", sum(1 for r in rows if r[0]["op"] == "iter"))
        for step, note in whole_iteration_oracle(rows, ra, valid_names(impl)):
            o, io, mo, so = rows[step]
            res.disagree("spec", {"history": h[:step + 1], "source": tag, "oracle": "whole_iteration"}, io, mo, so, note=note)
    return nl


def valid_names(impl):
    return sorted(impl.ps._as_dict_attrnames)


def listing_cases(ctx, impl, res):
    """byte level: `_pslinux.pids()` over a directory with arbitrary entry names vs `pidsOfEntries`"""
    rng = ctx.rng
    linux = impl.linux
    names_pool = [b"1", b"42", b"007", b"0", b"4194304", b"self", b"thread-self", b"net", b"1a", b"a1", b"-1", b"+1",
                  b"1.0", b" 1", b"1 ", b"12_3", "١٢".encode(), "１".encode(), "²".encode(),
                  b"99999999999999999999", b"stat", b"meminfo", b"\xff9", b"9\xff", b"0x10", b"1e3"]
    lines, cases = [], []
    tmp = impl.fp.path("listing-root")
    for c in range(ctx.n(25, 400)):
        shutil.rmtree(tmp, ignore_errors=True)
        os.makedirs(tmp)
        chosen = rng.sample(names_pool, rng.randrange(0, 9)) + [str(rng.randrange(10**rng.randrange(1, 12))).encode()
                                                                 for _ in range(rng.randrange(0, 4))]
        for nm in set(chosen):
            p = os.path.join(os.fsencode(tmp), nm)
            if rng.random() < 0.5:
                os.mkdir(p)
            else:
                open(p, "wb").close()
        saved = impl.ps.PROCFS_PATH
        impl.ps.PROCFS_PATH = tmp
        try:
            entries = impl.real_listdir(os.fsencode(tmp))
            fixed = list(entries)
            saved_ld = os.listdir
            os.listdir = lambda path=".": list(fixed)
            try:
                try:
                    got = {"kind": "pids", "l": [int(x) for x in linux.pids()]}
                except Exception as e:
                    got = {"kind": "exc", "exc": type(e).__name__}
            finally:
                os.listdir = saved_ld
        finally:
            impl.ps.PROCFS_PATH = saved
        lines.append({"op": "entries", "names": [e.hex() for e in fixed]})
        cases.append((fixed, got))
    shutil.rmtree(tmp, ignore_errors=True)
    outs = ctx.driver().batch(lines) if lines else []
    for (entries, got), m in zip(cases, outs):
        res.case(("listing", entries), nontrivial=any(e.isdigit() for e in entries) and any(not e.isdigit() for e in entries))
        res.count("family:listing")
        if got != m["model"]:
            res.disagree("spec", {"listing_entries": [e.hex() for e in entries]}, got, m["model"], m["model"],
                         note="_pslinux.pids() differs from the numeric entries of the directory")
    return len(lines)


class _AdValue:
    def __repr__(self):
        return "<ad_value>"


def attrs_all_cases(ctx, impl, res):
    """process_iter(attrs=[] / explicit names, ad_value=X) on the complete fake /proc/<pid>, with EACCES injected on one or
    two entries of some PID: `info` must have exactly the valid names as keys, and hold X exactly under the names whose
    getter, called on its own, raises AccessDenied / ZombieProcess (Lean: asDictVals, theorem C04_asdict_ad_value)."""
    rng = ctx.rng
    ps = impl.ps
    names = sorted(ps._as_dict_attrnames)
    sent = _AdValue()
    lines, cases = [], []
    for c in range(ctx.n(12, 300)):
        impl.reset()
        impl.want_full(True)
        pids = rng.sample([1, 2, 3, 5, 8, 300, 4194304], rng.randrange(1, 4))
        for i, pid in enumerate(pids):
            impl.kev({"k": "spawn", "p": mk_proc(pid, 100 + i, zombie=rng.random() < 0.2)})
        deny = set()
        for _ in range(rng.choice([0, 1, 1, 2])):
            deny.add((rng.choice(pids), rng.choice(c04_fullproc.DENIABLE)))
        impl.patches.deny = deny
        explicit = rng.random() < 0.3
        attrs = rng.sample(names, rng.randrange(1, 6)) if explicit else []
        want = sorted(attrs) if explicit else names
        outcomes = {pid: [(nm, c04_fullproc.getter_outcome(ps, pid, nm)) for nm in want] for pid in pids}
        reset_psutil_state(ps)
        impl.linux.BOOT_TIME = 1000000.0
        got = {}
        form = rng.choice(["kw", "kw", "pos", "swapped", "default", "default_kw"])
        res.count("attrs_all_form:" + form)
        oc = {(pid, nm): r for pid in pids for nm, r in outcomes[pid]}
        try:
            if form == "kw":
                it = ps.process_iter(attrs=list(attrs), ad_value=sent)
            elif form == "pos":
                it = ps.process_iter(list(attrs), sent)
            elif form == "swapped":
                it = ps.process_iter(ad_value=sent, attrs=list(attrs))
            elif form == "default":
                it = ps.process_iter(list(attrs))             # documented default: ad_value=None
            else:
                it = ps.process_iter(attrs=list(attrs))
            for p in it:
                if form.startswith("default"):
                    # None must stand exactly where the getter is denied (a getter may also return None by itself)
                    items = sorted([k, (v is None) if oc.get((int(p.pid), k)) in ("ad", "zombie") else False]
                                   for k, v in p.info.items())
                else:
                    items = sorted([k, v is sent] for k, v in p.info.items())
                got[int(p.pid)] = {"kind": "dict", "items": items}
        except Exception as e:  # noqa: BLE001
            got["exc"] = type(e).__name__
        impl.patches.deny = set()
        for pid in sorted(pids):
            lines.append({"op": "as_dict", "explicit": explicit,
                          "outs": [{"name": nm, "res": r} for nm, r in outcomes[pid] if not r.startswith("exc:")]})
            cases.append((pid, sorted(deny), attrs, outcomes[pid], got.get(pid, {"kind": "absent"}), got.get("exc")))
    impl.want_full(False)
    outs = ctx.driver().batch(lines) if lines else []
    for (pid, deny, attrs, outcome, got, exc), m in zip(cases, outs):
        inp = {"attrs_all": {"pid": pid, "deny": [list(d) for d in deny], "attrs": attrs}}
        res.case(("attrs_all", pid, deny, attrs, outcome), nontrivial=any(r in ("ad", "zombie") for _, r in outcome))
        res.count("family:attrs_all_ad_value")
        for _, r in outcome:
            res.count("getter_outcome:" + r.split(":")[0])
        odd = [(nm, r) for nm, r in outcome if r.startswith("exc:")]
        mo = m["model"]
        if mo.get("kind") == "dict":
            mo = {"kind": "dict", "items": sorted(mo["items"])}
        elif mo.get("exc") == "NoSuchProcess":
            mo = {"kind": "absent"}                 # process_iter skips the PID
        if exc is not None or odd:
            res.disagree("spec", inp, {"exception": exc, "getters": odd}, mo, mo,
                         note="a getter / process_iter(attrs=%r) raised something else than a psutil error with EACCES on %r"
                              % (attrs, deny))
        elif got != mo:
            res.disagree("spec", inp, got, mo, mo,
                         note="info of PID %d differs from the names/ad_value substitution the getters' own outcomes give" % pid)
    return len(lines)


def correspond(ctx, res):
    impl = Impl(ctx)
    try:
        res.rule = ("histories of kernel events and pids/pid_exists/process_iter/next/close/cache_clear/"
                    "is_running ops from 18 clause-directed families (PRNG from VERIF_SEED; process_iter called in every spelling of its signature), the lead witnesses, "
                    "an exhaustive sweep of short macro-step words around one recycled PID, the complete "
                    "pid_exists table (every kind of id × every boundary argument), byte-level directory "
                    "listings, and single visits of process_iter(attrs=names) with the process changing state between the OS "
                    "accesses of its as_dict scan (every one-way life over 5 instants x zombie flavour x 1-2 names, exhaustively); non-trivial = an object is yielded again / a PID gets a new object / generators "
                    "overlap / table changes right after a listing / info dict / pid_exists True or out of range / "
                    "cache_clear / is_running False; distinct = distinct op sequences")
        hists, tags = [], []
        CURRENT_REUSE[:] = reuse_attr_names(ctx) or ["ppid"]
        for tag, h in corpus():
            hists.append(h)
            tags.append(tag)
        # a getter that gained `_raise_if_pid_reused()` (fact `reuseAttrs` ≠ the pinned ["ppid"]): the witness of the
        # known finding with THAT name lies outside the recorded region, so it is a failing input, not a KNOWN-FINDING
        for nm in sorted(set(CURRENT_REUSE) - set(REGION_REUSE_ATTRS)):
            hists.append(reuse_witness(nm))
            tags.append("corpus:reuse-check:" + nm)
            res.count("reuse_fact_changed")
        for h in pid_exists_table():
            hists.append(h)
            tags.append("pid_exists_table")
        n = ctx.n(810, 54000)
        for i in range(n):
            fam = FAMILIES[i % len(FAMILIES)]
            hists.append(gen_history(ctx.rng, fam))
            tags.append(fam)
        n_rand = len(hists)
        maxlen = 3 if ctx.tier == "quick" else 4
        if ctx.budget_factor > 1:
            maxlen = 4
        for word, h in exhaustive_histories(maxlen):
            hists.append(h)
            tags.append("exhaustive")
        for h in exhaustive_tid_digits():
            hists.append(h)
            tags.append("exhaustive_tid_digits")
        n_digits = len(exhaustive_tid_digits())
        n_inflight = 0
        for word, h in exhaustive_inflight(maxlen):
            hists.append(h)
            tags.append("exhaustive_inflight")
            n_inflight += 1
        total_lines = 0
        CH = 1500
        for a in range(0, len(hists), CH):
            total_lines += check_batch(ctx, impl, res, hists[a:a + CH], tags[a:a + CH],
                                       sample_idx=(1, 3, 10, 13) if a == 0 else ())
        res.exhaustive = ("all %d words of length <= %d over the macro alphabet {reuse PID 5, exit 5, full iteration, "
                          "spawn 5, full iteration with attrs=['ppid'], iteration with attrs=['name'] during which 5 exits, start+1 next, resume 2 nexts, cache_clear, "
                          "is_running on the last object yielded for PID 5} containing an iteration; the complete "
                          "pid_exists table; all %d words of length <= %d over {is_running on the stale object, cache_clear, advance / close the "
                          "generator in flight, recycle PID 5 again, a complete other iteration} in the window of a generator in flight "
                          "(PID 5 recycled before / after it started), each followed by the end of that generator and three complete "
                          "iterations; the random families are samples" % (len(hists) - n_rand - n_inflight - n_digits, maxlen, n_inflight, maxlen)
                          + "; every ordered pair (thread-group id, thread id) over 15 numbers closed under decimal prefix / suffix / "
                            "infix / extension / permutation, each id asked about through psutil.pid_exists and _pslinux.pid_exists, "
                            "status-file layouts in rotation (%d histories)" % n_digits)
        total_lines += listing_cases(ctx, impl, res)
        total_lines += attrs_all_cases(ctx, impl, res)
        # the visit of one PID at the granularity of as_dict's OS accesses: the process turns zombie / is reaped between two
        # reads of the scan, every flavour of what a zombie's files give (Model/C04Scan.lean, seeded round 5c)
        total_lines += c04_scan.scan_cases(ctx, impl, res)
        res.extra["driver_lines"] = total_lines
        # two threads at once: deterministic bounded-pre-emption exploration (model-independent oracle + the Lean
        # model on item-boundary schedules + the Lean drain model on the drain-loop steps)
        from harness.props import c04_preempt
        c04_preempt.explore(ctx, res, impl, full=(ctx.tier == "thorough"), budget=int(60 * min(ctx.budget_factor, 10)))
        if ctx.tier == "thorough":
            res.extra["two_thread_runs"] = two_threads(ctx, impl, res, 150)
    finally:
        impl.close()


def two_threads(ctx, impl, res, runs):
    """Two real threads iterate at once while the main thread changes the table: safety clauses
    only (ascending, no duplicates, no exception, every yielded PID was listed at some point)."""
    ps = impl.ps
    done = 0
    for r in range(runs):
        impl.reset()
        ever = set()
        for pid in range(1, 9):
            impl.kev({"k": "spawn", "p": mk_proc(pid, 100 + pid)})
            ever.add(pid)
        outs = {}
        barrier = threading.Barrier(3)

        def work(i):
            try:
                barrier.wait()
                seqs = []
                for _ in range(4):
                    seqs.append([p.pid for p in ps.process_iter()])
                outs[i] = seqs
            except BaseException as e:  # noqa: BLE001
                outs[i] = {"exc": type(e).__name__}
        ths = [threading.Thread(target=work, args=(i,)) for i in range(2)]
        for th in ths:
            th.start()
        barrier.wait()
        clock = 500
        for _ in range(30):
            pid = ctx.rng.randrange(1, 12)
            if impl.k.find_proc(pid):
                impl.kev({"k": "exit", "pid": pid})
            else:
                clock += 1
                ever.add(pid)
                impl.kev({"k": "spawn", "p": mk_proc(pid, clock)})
        for th in ths:
            th.join()
        for i, seqs in outs.items():
            bad = None
            if isinstance(seqs, dict):
                bad = "exception %s out of process_iter() in a thread" % seqs["exc"]
            else:
                for s in seqs:
                    if any(a >= b for a, b in zip(s, s[1:])):
                        bad = "not strictly ascending: %r" % (s,)
                    if set(s) - ever:
                        bad = "yielded a PID that was never listed: %r" % (sorted(set(s) - ever),)
            if bad:
                res.disagree("spec", {"two_threads": True, "run": r}, seqs, None, None, note=bad)
        res.case(("threads", r, repr(outs)), nontrivial=True)
        res.count("family:two_threads")
        done += 1
    return done


def search(ctx, res, broken):
    correspond(ctx, res)


def _first_spec_failure(ctx, impl, hist):
    results, _ = run_histories(ctx, impl, [hist])
    for kind, step, fid, note in judge(results[0], REGION_REUSE_ATTRS, known_ids(ctx)):
        if kind == "spec":
            return step, results[0][step]
    for step, note in whole_iteration_oracle(results[0], REGION_REUSE_ATTRS, valid_names(impl)):
        return step, results[0][step]
    for step, note, fid in recycled_replaced_oracle(results[0], REGION_REUSE_ATTRS, known_ids(ctx)):
        if fid is None:
            return step, results[0][step]
    return None


def shrink(ctx, d):
    if "scan_case" in d["input"]:
        impl = Impl(ctx)
        try:
            small = c04_scan.shrink_case(ctx, impl, d["input"]["scan_case"])
            obs = c04_scan.run_case(impl, small)
            m = ctx.driver().batch([c04_scan.driver_line(small, obs)])[0]
            js = [j for j in c04_scan.judge_case(small, obs, m) if j[0] == "spec"]
            if js:
                _, note, iv, mv, spec = js[0]
                return dict(d, input=dict(d["input"], scan_case=small, source="shrunk"), impl=iv, model=mv, spec=spec, note=note)
        finally:
            impl.close()
        return d
    hist = d["input"].get("history")
    if not hist or "preempt" in d["input"]:
        return d
    impl = Impl(ctx)
    try:
        small = ddmin(hist, lambda h: _first_spec_failure(ctx, impl, h) is not None, max_tests=80)
        f = _first_spec_failure(ctx, impl, small)
        if f is not None:
            step, (o, io, mo, so) = f
            return dict(d, input={"history": small[:step + 1], "source": "shrunk"}, impl=io, model=mo, spec=so)
    finally:
        impl.close()
    return d


def replay(ctx, rp, res):
    inp = rp["input"]
    if "attrs_all" in inp or "listing_entries" in inp:
        impl = Impl(ctx)
        try:
            r2 = type(res)()
            for _ in range(40):                      # the generator is cheap: re-run it and look for the same kind of failure
                attrs_all_cases(ctx, impl, r2) if "attrs_all" in inp else listing_cases(ctx, impl, r2)
                if r2.disagreements:
                    return True
            return False
        finally:
            impl.close()
    if "preempt" in inp:
        from harness.props import c04_preempt
        return c04_preempt.replay(ctx, rp, res)
    if "scan_case" in inp:
        impl = Impl(ctx)
        try:
            return c04_scan.still_fails(ctx, impl, inp["scan_case"])
        finally:
            impl.close()
    impl = Impl(ctx)
    try:
        if inp.get("history"):
            return _first_spec_failure(ctx, impl, inp["history"]) is not None
        return True
    finally:
        impl.close()


def check_finding(ctx, fnd):
    """replay the finding's witness: does the implementation still differ from the specification
    there (and agree with the recorded defective behaviour)?"""
    if "preempt" in fnd["witness"]:
        from harness.props import c04_preempt
        impl = Impl(ctx)
        try:
            return "reproduces" if c04_preempt.check_finding_pop(ctx, impl) else "gone"
        finally:
            impl.close()
    hist = fnd["witness"]["history"]
    impl = Impl(ctx)
    try:
        results, _ = run_histories(ctx, impl, [hist])
        for (o, io, mo, so) in results[0]:
            if so is not None and strip_impl(io) != so:
                return "reproduces"
        return "gone"
    finally:
        impl.close()
