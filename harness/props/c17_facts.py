"""C17 translator: facts re-derived from the C sources (regex) and from _pslinux.py (ast).

Every fact lands in lean/PsutilModel/Generated/C17.lean and is consumed by Model/C17Gen.lean
(the configuration the driver runs) and by the proof obligations `*_cfg_good` of Props/C17.lean.
A shape that is not recognised any more raises NotRecognised: the fact is then skipped (baseline
value kept) and only the correspondence ties it.
"""
import ast
import ctypes
import os
import re
import sysconfig

from harness.common import extract
from harness.common.extract import NotRecognised, lean_bool, lean_bytes, lean_list, lean_nat, lean_str

INT_MAX = 2**31 - 1


def strip_c_comments(src):
    src = re.sub(r"/\*.*?\*/", " ", src, flags=re.S)
    src = re.sub(r"//[^\n]*", " ", src)
    return src


def c_source(snap, rel):
    return strip_c_comments(snap.source(rel))


def c_function(src, name):
    """Body text (between the outermost braces) of C function `name`."""
    m = re.search(r"\b%s\s*\([^)]*\)\s*\{" % re.escape(name), src)
    if not m:
        raise NotRecognised("C function %s not found" % name)
    i = m.end()
    depth = 1
    while i < len(src) and depth:
        if src[i] == "{":
            depth += 1
        elif src[i] == "}":
            depth -= 1
        i += 1
    if depth:
        raise NotRecognised("unbalanced braces in %s" % name)
    return src[m.end():i - 1]


def c_defines(src):
    out = {}
    for m in re.finditer(r"^[ \t]*#[ \t]*define[ \t]+(\w+)[ \t]+(\(?\s*-?(?:0[xX][0-9a-fA-F]+|\d+)[uUlL]*\s*\)?)[ \t]*$", src, re.M):
        out[m.group(1)] = c_eval(m.group(2), {})
    return out


def c_eval(expr, names):
    """Evaluate a small integer constant expression of C (ints, INT_MAX, #defines, + - * / << >> | & parentheses)."""
    env = {"INT_MAX": INT_MAX, "INT_MIN": -INT_MAX - 1, "CHAR_BIT": 8}
    env.update(names)

    def ident(m):
        w = m.group(0)
        if w not in env:
            raise NotRecognised("unknown identifier %s in %r" % (w, expr))
        return str(env[w])
    e = re.sub(r"\(\s*(?:int|long|unsigned|size_t)\s*\)", "", expr)
    e = re.sub(r"\b(0[xX][0-9a-fA-F]+|\d+)[uUlL]+\b", r"\1", e)
    e = re.sub(r"\b[A-Za-z_]\w*\b", lambda m: m.group(0) if re.fullmatch(r"0[xX][0-9a-fA-F]+", m.group(0)) else ident(m), e)
    if not re.fullmatch(r"[0-9a-fA-FxX\s()+\-*/<>|&]+", e):
        raise NotRecognised("not a constant expression: %r" % expr)
    e = e.replace("/", "//")
    try:
        v = eval(e, {"__builtins__": {}}, {})  # noqa: S307 (sanitised above)
    except Exception as exc:
        raise NotRecognised("cannot evaluate %r: %s" % (expr, exc))
    if not isinstance(v, int):
        raise NotRecognised("not an int: %r" % expr)
    return v


def lean_int(n):
    return "(%d)" % n if n < 0 else str(n)


def lean_opt_pair(p):
    return "none" if p is None else "(some (%s, %s))" % (lean_int(p[0]), lean_int(p[1]))


# ---------------------------------------------------------------------------------- users.c

UT_FIELDS = ("ut_user", "ut_line", "ut_host")


def users_decode_kind(src, field):
    """'bounded' / 'unbounded' for the way users.c turns `ut-><field>` into a Python string."""
    f = re.escape(field)
    unb = re.findall(r"PyUnicode_DecodeFSDefault\s*\(\s*ut->%s\s*\)" % f, src)
    bnd = re.findall(
        r"PyUnicode_DecodeFSDefaultAndSize\s*\(\s*ut->%s\s*,\s*strnlen\s*\(\s*ut->%s\s*,\s*sizeof\s*\(\s*ut->%s\s*\)\s*\)\s*\)" % (f, f, f),
        src)
    # any other use of the field as a string source is not understood
    other = re.findall(r"PyUnicode_\w+\s*\(\s*ut->%s\b" % f, src)
    if len(other) != len(unb) + len(bnd) or len(other) != 1:
        raise NotRecognised("decoding of %s not recognised (%d unbounded, %d bounded, %d total)" % (field, len(unb), len(bnd), len(other)))
    return "bounded" if bnd else "unbounded"


def users_filter(src):
    return bool(re.search(r"if\s*\(\s*ut->ut_type\s*!=\s*USER_PROCESS\s*\)\s*continue\s*;", src))


def users_local_lits(src):
    lits = re.findall(r"strcmp\s*\(\s*ut->ut_host\s*,\s*\"([^\"\\]*)\"\s*\)\s*==\s*0", src)
    n_cmp = len(re.findall(r"\bstrn?cmp\s*\(\s*ut->ut_host\b", src))
    if not lits or n_cmp != len(lits):
        raise NotRecognised("comparison of ut_host with display literals not recognised")
    m = re.findall(r"PyUnicode_DecodeFSDefault\s*\(\s*\"([^\"\\]*)\"\s*\)", src)
    if len(m) != 1:
        raise NotRecognised("replacement host literal not recognised")
    return lits, m[0]


def users_tuple_order(src):
    m = re.search(r"Py_BuildValue\s*\(\s*\"OOOd\"\s*_Py_PARSE_PID\s*,(.*?)\)\s*;", src, re.S)
    if not m:
        raise NotRecognised("Py_BuildValue(\"OOOd\" _Py_PARSE_PID, ...) not found")
    args = [a.strip() for a in m.group(1).split(",")]
    if len(args) != 5:
        raise NotRecognised("expected 5 tuple slots, got %r" % (args,))
    out = []
    for a in args:
        a = re.sub(r"^\(\s*\w+\s*\)\s*", "", a)          # casts
        if a.startswith("ut->"):
            out.append(a[4:])
            continue
        # a py_ variable: which ut field feeds it?
        srcs = set(re.findall(r"\b%s\s*=\s*PyUnicode_\w+\s*\(\s*ut->(\w+)" % re.escape(a), src))
        if len(srcs) != 1:
            raise NotRecognised("source of tuple slot %s not recognised" % a)
        out.append(srcs.pop())
    return out


def users_py(tree):
    fn = extract.find_def(tree, "users")
    loop = [n for n in fn.body if isinstance(n, ast.For)]
    if len(loop) != 1:
        raise NotRecognised("users(): loop not recognised")
    targets = call = None
    for st in loop[0].body:
        if isinstance(st, ast.Assign) and isinstance(st.targets[0], ast.Tuple) and extract.dotted(st.value) == "item":
            targets = [extract.dotted(e) for e in st.targets[0].elts]
        if isinstance(st, ast.Assign) and isinstance(st.value, ast.Call) and extract.dotted(st.value.func).endswith("suser"):
            call = st.value
    if targets is None or call is None or len(targets) != 5 or len(call.args) != 5 or call.keywords:
        raise NotRecognised("users(): unpack/suser shape not recognised")
    perm, ornone = [], []
    for k, a in enumerate(call.args):
        if isinstance(a, ast.BoolOp) and isinstance(a.op, ast.Or) and len(a.values) == 2 \
                and isinstance(a.values[1], ast.Constant) and a.values[1].value is None:
            ornone.append(k)
            a = a.values[0]
        if not isinstance(a, ast.Name) or a.id not in targets:
            raise NotRecognised("users(): suser argument %d not recognised" % k)
        perm.append(targets.index(a.id))
    return perm, ornone


# ---------------------------------------------------------------------------------- disk_partitions (Python)

def partitions_py(tree):
    fn = extract.find_def(tree, "disk_partitions")
    d = {}
    for n in ast.walk(fn):
        # if not line.startswith("nodev"): fstypes.add(line.strip())  else: fstype = line.split("\t")[1]; if fstype == "zfs": fstypes.add("zfs")
        if isinstance(n, ast.If) and isinstance(n.test, ast.UnaryOp) and isinstance(n.test.op, ast.Not) \
                and isinstance(n.test.operand, ast.Call) and extract.dotted(n.test.operand.func) == "line.startswith":
            d["nodevPrefix"] = extract.const(n.test.operand.args[0])
            adds = extract.calls_in(ast.Module(body=n.body, type_ignores=[]), "add")
            if len(adds) != 1 or extract.unparse(adds[0].args[0]) != "line.strip()":
                raise NotRecognised("non-nodev branch does not add line.strip()")
            kept = []
            for m in n.orelse:
                if isinstance(m, ast.Assign) and isinstance(m.value, ast.Subscript):
                    call = m.value.value
                    if not (isinstance(call, ast.Call) and extract.dotted(call.func) == "line.split"
                            and len(call.args) == 1 and extract.const(call.args[0]) == "\t"):
                        raise NotRecognised("nodev branch: split not on TAB")
                    d["nodevSplitIdx"] = extract.const(m.value.slice)
                if isinstance(m, ast.If) and isinstance(m.test, ast.Compare) and isinstance(m.test.ops[0], ast.Eq):
                    lit = extract.const(m.test.comparators[0])
                    a2 = extract.calls_in(m, "add")
                    if len(a2) != 1 or extract.const(a2[0].args[0]) != lit:
                        raise NotRecognised("nodev branch: kept literal mismatch")
                    kept.append(lit)
            d["nodevKept"] = kept
        # if device == 'none': device = ''
        if isinstance(n, ast.If) and isinstance(n.test, ast.Compare) and extract.dotted(n.test.left) == "device" \
                and isinstance(n.test.ops[0], ast.Eq) and len(n.body) == 1 and isinstance(n.body[0], ast.Assign) \
                and extract.dotted(n.body[0].targets[0]) == "device":
            if extract.const(n.body[0].value) != "":
                raise NotRecognised("'none' device not replaced by ''")
            d["noneDevice"] = extract.const(n.test.comparators[0])
        # if device in {"/dev/root", "rootfs"}: device = RootFsDeviceFinder().find() or device
        if isinstance(n, ast.If) and isinstance(n.test, ast.Compare) and extract.dotted(n.test.left) == "device" \
                and isinstance(n.test.ops[0], ast.In) and isinstance(n.test.comparators[0], (ast.Set, ast.Tuple, ast.List)):
            if extract.unparse(n.body[0]).replace(" ", "") != "device=RootFsDeviceFinder().find()ordevice":
                raise NotRecognised("root alias resolution not recognised")
            d["rootAliases"] = [extract.const(e) for e in n.test.comparators[0].elts]
        # if not all: if not device or fstype not in fstypes: continue
        if isinstance(n, ast.If) and extract.unparse(n.test) == "not all" and len(n.body) == 1 \
                and isinstance(n.body[0], ast.If) and any(isinstance(x, ast.Continue) for x in n.body[0].body):
            t = n.body[0].test
            parts = [extract.unparse(v) for v in t.values] if isinstance(t, ast.BoolOp) and isinstance(t.op, ast.Or) else [extract.unparse(t)]
            for p in parts:
                if p not in ("not device", "fstype not in fstypes"):
                    raise NotRecognised("unknown filter clause %r" % p)
            d["filterDevice"] = "not device" in parts
            d["filterFstype"] = "fstype not in fstypes" in parts
    for k in ("nodevPrefix", "nodevKept", "nodevSplitIdx", "noneDevice", "rootAliases"):
        if k not in d:
            raise NotRecognised("disk_partitions(): %s not recognised" % k)
    d.setdefault("filterDevice", False)
    d.setdefault("filterFstype", False)
    return d


# ---------------------------------------------------------------------------------- PSUTIL_STRNCPY

LINUX_C = ["_psutil_posix.c", "_psutil_linux.c", "_psutil_common.c", "arch/linux/net.c", "arch/linux/proc.c",
           "arch/linux/disk.c", "arch/linux/users.c", "arch/linux/mem.c"]


def strncpy_macro(hdr):
    m = re.search(r"#define\s+PSUTIL_STRNCPY\s*\(\s*dst\s*,\s*src\s*,\s*n\s*\)\s*\\\s*\n(.*?)(?<!\\)\n", hdr, re.S)
    if not m:
        raise NotRecognised("PSUTIL_STRNCPY definition not found")
    body = m.group(1).replace("\\\n", " ")
    c = re.search(r"\bstrncpy\s*\(\s*dst\s*,\s*src\s*,\s*n\s*(?:-\s*(\d+)\s*)?\)\s*;", body)
    if not c:
        raise NotRecognised("PSUTIL_STRNCPY does not call strncpy(dst, src, n - k)")
    t = re.search(r"\bdst\s*\[\s*n\s*(?:-\s*(\d+)\s*)?\]\s*=\s*(?:'\\0'|0)", body)
    rest = body[:c.start()] + body[c.end():]
    if t:
        rest = rest.replace(t.group(0), "")
    rest = re.sub(r"\(\s*void\s*\)\s*0", "", rest)      # a no-op statement left where a store used to be (tools/automut_c.py del-nul)
    if re.sub(r"[\s;]", "", rest):
        raise NotRecognised("PSUTIL_STRNCPY has statements that are not understood: %r" % rest.strip())
    return int(c.group(1) or 0), (int(t.group(1) or 0) if t else 0), bool(t)


def strncpy_sites(snap):
    n, ok = 0, True
    for rel in LINUX_C:
        try:
            src = c_source(snap, rel)
        except OSError:
            continue
        for m in re.finditer(r"PSUTIL_STRNCPY\s*\(", src):
            depth, i = 1, m.end()
            while i < len(src) and depth:
                depth += {"(": 1, ")": -1}.get(src[i], 0)
                i += 1
            args = src[m.end():i - 1]
            parts = [p.strip() for p in args.split(",")]
            n += 1
            s = re.fullmatch(r"sizeof\s*\(\s*(.+?)\s*\)", parts[2]) if len(parts) == 3 else None
            if not s or s.group(1) != parts[0] or not re.fullmatch(r"\w+\.\w+", parts[0]):
                ok = False
    if n == 0:
        raise NotRecognised("no PSUTIL_STRNCPY call site found")
    return n, ok


# ---------------------------------------------------------------------------------- MAC formatting

def mac_facts(src):
    body = c_function(src, "psutil_convert_ipaddr")
    b = re.search(r"char\s+buf\s*\[\s*(\w+)\s*\]", body)
    if not b:
        raise NotRecognised("buf declaration not found")
    if b.group(1) == "NI_MAXHOST":
        with open("/usr/include/netdb.h") as f:
            h = re.search(r"#\s*define\s+NI_MAXHOST\s+(\d+)", f.read())
        if not h:
            raise NotRecognised("NI_MAXHOST not found in netdb.h")
        size = int(h.group(1))
    elif b.group(1).isdigit():
        size = int(b.group(1))
    else:
        raise NotRecognised("buf size %s" % b.group(1))
    s = re.search(r"sprintf\s*\(\s*ptr\s*,\s*\"%02([xX])(.)\"\s*,\s*data\s*\[\s*n\s*\]\s*(&\s*0xff\s*)?\)", body, re.I)
    st = re.search(r"ptr\s*\+=\s*(\d+)\s*;", body)
    ln = re.search(r"len\s*=\s*lladdr->sll_halen\s*;", body)
    fin = re.search(r"\*\s*--\s*ptr\s*=\s*'\\0'", body)
    if not (s and st and ln and fin):
        raise NotRecognised("MAC formatting loop not recognised")
    return {"bufSize": size, "step": int(st.group(1)), "masked": bool(s.group(3)), "lower": s.group(1) == "x",
            "sep": ord(s.group(2))}


# ---------------------------------------------------------------------------------- affinity

def aff_get_facts(src):
    body = c_function(src, "psutil_proc_cpu_affinity_get")
    i = re.search(r"ncpus\s*=\s*sizeof\s*\(\s*unsigned\s+long\s*\)\s*\*\s*CHAR_BIT\s*;", body)
    if i:
        init = ctypes.sizeof(ctypes.c_ulong) * 8
    else:
        i = re.search(r"ncpus\s*=\s*(\d+)\s*;", body)
        if not i:
            raise NotRecognised("initial ncpus not recognised")
        init = int(i.group(1))
    mul = re.search(r"ncpus\s*=\s*ncpus\s*\*\s*(\d+)\s*;|ncpus\s*\*=\s*(\d+)\s*;", body)
    if not mul:
        raise NotRecognised("doubling statement not recognised")
    factor = int(mul.group(1) or mul.group(2))
    g = re.search(r"if\s*\(\s*ncpus\s*>(=?)\s*([^{;]+?)\)\s*\{[^}]*PyExc_OverflowError[^}]*return\s+NULL\s*;[^}]*\}", body, re.S)
    guard = None
    if g and g.start() < mul.start():
        guard = c_eval(g.group(2), {}) - (1 if g.group(1) else 0)
    return init, guard, factor


def aff_set_facts(src):
    body = c_function(src, "psutil_proc_cpu_affinity_set")
    checked = bool(re.search(r"\bcpu_set_t\s+cpu_set\s*;", body)) and bool(re.search(r"\bCPU_SET\s*\(\s*value\s*,\s*&cpu_set\s*\)", body)) \
        and bool(re.search(r"\bCPU_ZERO\s*\(\s*&cpu_set\s*\)", body)) and not re.search(r"__bits|CPU_SET_S", body)
    if not re.search(r"long\s+value\s*=\s*PyLong_AsLong\s*\(\s*item\s*\)", body):
        raise NotRecognised("item conversion not recognised")
    minus1 = bool(re.search(r"if\s*\(\s*\(\s*value\s*==\s*-1\s*\)\s*\|\|\s*PyErr_Occurred\s*\(\s*\)\s*\)", body))
    with open("/usr/include/x86_64-linux-gnu/bits/cpu-set.h") as f:
        h = re.search(r"#\s*define\s+__CPU_SETSIZE\s+(\d+)", f.read())
    if not h:
        raise NotRecognised("__CPU_SETSIZE not found")
    return int(h.group(1)) // 8, checked, minus1


# ---------------------------------------------------------------------------------- check_pid_range

def pid_range_facts(src):
    body = c_function(src, "psutil_check_pid_range")
    if not re.search(r"PyArg_ParseTuple\s*\(\s*args\s*,\s*_Py_PARSE_PID\s*,\s*&pid\s*\)", body):
        raise NotRecognised("pid parse not recognised")
    neg = bool(re.search(r"if\s*\(\s*pid\s*<\s*0\s*\)\s*\{[^}]*PyExc_ValueError[^}]*return\s+NULL", body, re.S))
    size = sysconfig.get_config_var("SIZEOF_PID_T")
    if size not in (4, 8):
        raise NotRecognised("SIZEOF_PID_T = %r" % (size,))
    return size * 8, neg


# ---------------------------------------------------------------------------------- ioprio

def ioprio_c_facts(src):
    defs = c_defines(src)
    if "IOPRIO_CLASS_SHIFT" not in defs:
        raise NotRecognised("IOPRIO_CLASS_SHIFT not found")
    shift = defs["IOPRIO_CLASS_SHIFT"]
    if not re.search(r"#define\s+IOPRIO_PRIO_VALUE\s*\(\s*class\s*,\s*data\s*\)\s*\(\s*\(\s*\(\s*class\s*\)\s*<<\s*IOPRIO_CLASS_SHIFT\s*\)\s*\|\s*data\s*\)", src):
        raise NotRecognised("IOPRIO_PRIO_VALUE not recognised")
    if "IOPRIO_PRIO_MASK" not in defs:
        defs["IOPRIO_PRIO_MASK"] = (1 << shift) - 1
    body = c_function(src, "psutil_proc_ioprio_set")
    use = re.search(r"ioprio\s*=\s*IOPRIO_PRIO_VALUE\s*\(\s*ioclass\s*,\s*iodata\s*\)\s*;", body)
    um = re.search(r"_Py_PARSE_PID\s*\"([a-zA-Z]{2})\"\s*,\s*&pid\s*,\s*&ioclass\s*,\s*&iodata", body)
    use = use or re.search(r"ioprio\s*=\s*\(\s*int\s*\)\s*IOPRIO_PRIO_VALUE\s*\(\s*ioclass\s*,\s*iodata\s*\)\s*;", body)
    if not use or not um:
        raise NotRecognised("psutil_proc_ioprio_set not recognised")
    units = "i" + um.group(1)                     # _Py_PARSE_PID = "i" (pid_t is 32-bit, see pidBits)
    unsigned = {"ioclass": units[1] in "IkKHB", "iodata": units[2] in "IkKHB"}
    pre = body[:use.start()]
    excs = set()

    def guard(var):
        # `if (... var < LO ... var > HI ...) { ... PyExc_… ... return NULL; }` before the shift
        for m in re.finditer(r"if\s*\((.*?)\)\s*\{([^}]*PyExc_(\w+)[^}]*)\}", pre, re.S):
            cond = m.group(1)
            if "return" not in m.group(2):
                continue
            excs.add(m.group(3))
            lo = re.search(r"\b%s\s*<\s*([^|&]+?)\s*(?:\|\||$)" % var, cond)
            hi = re.search(r"\b%s\s*>\s*([^|&]+?)\s*(?:\|\||$)" % var, cond)
            if lo and hi:
                return (c_eval(lo.group(1), defs), c_eval(hi.group(1), defs))
            if hi and unsigned[var]:
                return (0, c_eval(hi.group(1), defs))      # an unsigned variable needs no lower bound
            if lo or hi:
                raise NotRecognised("one-sided range check on %s" % var)
        if re.search(r"\b%s\s*[<>]" % var, pre):
            raise NotRecognised("comparison on %s not understood" % var)
        return None
    g1, g2 = guard("ioclass"), guard("iodata")
    if len(excs) > 1 or (excs and not excs <= {"ValueError", "OSError"}):
        raise NotRecognised("range check raises %s" % sorted(excs))
    return shift, g1, g2, excs == {"OSError"}, units


def ionice_py_facts(tree):
    enum_cls = extract.find_class(tree, "IOPriority")
    members = {}
    for st in enum_cls.body:
        if isinstance(st, ast.Assign):
            members[st.targets[0].id] = extract.const(st.value)
    proc = extract.find_class(tree, "Process")
    fn = None
    for n in ast.walk(proc):
        if isinstance(n, ast.FunctionDef) and n.name == "ionice_set":
            fn = n
    if fn is None:
        raise NotRecognised("ionice_set not found")

    def member(e):
        d = extract.dotted(e)
        if d.startswith("IOPriority.") and d.split(".", 1)[1] in members:
            return members[d.split(".", 1)[1]]
        return extract.const(e)

    def raises_value_error(ifn):
        return any(isinstance(x, ast.Raise) for x in ast.walk(ifn))
    novalue, vrange, cguard = None, None, None
    call_seen = False
    for st in fn.body:
        if isinstance(st, ast.Return) and extract.calls_in(st, "proc_ioprio_set"):
            call_seen = True
            c = extract.calls_in(st, "proc_ioprio_set")[0]
            if [extract.unparse(a) for a in c.args] != ["self.pid", "ioclass", "value"]:
                raise NotRecognised("proc_ioprio_set arguments not recognised")
            continue
        if not isinstance(st, ast.If):
            continue
        t = st.test
        src = extract.unparse(t)
        if isinstance(t, ast.BoolOp) and isinstance(t.op, ast.And) and extract.unparse(t.values[0]) == "value" \
                and isinstance(t.values[1], ast.Compare) and isinstance(t.values[1].ops[0], ast.In):
            novalue = sorted(member(e) for e in t.values[1].comparators[0].elts)
        elif isinstance(t, ast.BoolOp) and isinstance(t.op, ast.Or) and len(t.values) == 2 and raises_value_error(st):
            a, b = t.values
            if all(isinstance(x, ast.Compare) and len(x.ops) == 1 for x in (a, b)) \
                    and isinstance(a.ops[0], ast.Lt) and isinstance(b.ops[0], ast.Gt) \
                    and extract.dotted(a.left) == extract.dotted(b.left):
                rng = (member(a.comparators[0]), member(b.comparators[0]))
                if extract.dotted(a.left) == "value":
                    vrange = rng
                elif extract.dotted(a.left) == "ioclass":
                    cguard = rng
                else:
                    raise NotRecognised("range check on %s" % src)
            else:
                raise NotRecognised("check %s not understood" % src)
        elif isinstance(t, ast.Compare) and extract.dotted(t.left) == "ioclass" and isinstance(t.ops[0], ast.NotIn) \
                and raises_value_error(st):
            vals = sorted(member(e) for e in t.comparators[0].elts)
            if vals != list(range(vals[0], vals[-1] + 1)):
                raise NotRecognised("ioclass whitelist is not an interval")
            cguard = (vals[0], vals[-1])
        elif src == "value is None":
            continue
        else:
            raise NotRecognised("ionice_set: statement %s not understood" % src)
    if not call_seen or novalue is None or vrange is None:
        raise NotRecognised("ionice_set shape not recognised")
    return novalue, vrange, cguard


def parse_formats(snap):
    """(C function, format) of EVERY PyArg_ParseTuple call in the C files of the Linux build — total: a format that is
    not made of string literals / _Py_PARSE_PID is reported verbatim (and then fails the obligation)."""
    out = []
    for rel in LINUX_C:
        try:
            src = c_source(snap, rel)
        except OSError:
            continue
        for m in re.finditer(r"PyArg_ParseTuple(?:AndKeywords)?\s*\(", src):
            depth, i = 1, m.end()
            while i < len(src) and depth:
                depth += {"(": 1, ")": -1}.get(src[i], 0)
                i += 1
            args = src[m.end():i - 1]
            parts = args.split(",")
            raw = parts[1].strip() if len(parts) > 1 else ""
            toks = re.findall(r"_Py_PARSE_PID|\"[^\"]*\"", raw)
            if toks and re.sub(r"_Py_PARSE_PID|\"[^\"]*\"|\s", "", raw) == "":
                fmt = "".join("i" if t == "_Py_PARSE_PID" else t.strip('"') for t in toks)
            else:
                fmt = "?" + re.sub(r"\s+", "", raw)
            # enclosing function: the last `name(...) {` at column 0 before the call
            fn = "?"
            for mm in re.finditer(r"^(\w+)\s*\([^;{}]*\)\s*\{", src[:m.start()], re.M):
                fn = mm.group(1)
            out.append((fn, fmt))
    if not out:
        raise NotRecognised("no PyArg_ParseTuple call found")
    return sorted(out)


# ---------------------------------------------------------------------------------- IFF table

def iff_table(src):
    body = c_function(src, "psutil_net_if_flags")
    ents = re.findall(r"#ifdef\s+(IFF_\w+)\s+if\s*\(\s*flags\s*&\s*(IFF_\w+)\s*\)\s*if\s*\(\s*!\s*append_flag\s*\(\s*py_retlist\s*,\s*\"(\w+)\"\s*\)\s*\)\s*goto\s+error\s*;\s*#endif", body)
    n_app = len(re.findall(r"append_flag\s*\(", body))
    if not ents or n_app != len(ents) or any(a != b for a, b, _ in ents):
        raise NotRecognised("flag table not recognised (%d entries, %d append_flag calls)" % (len(ents), n_app))
    m = re.search(r"flags\s*=\s*ifr\.ifr_flags\s*&\s*(0[xX][0-9a-fA-F]+)\s*;", body)
    if not m:
        raise NotRecognised("flags mask not recognised")
    return [(a, c) for a, _, c in ents], int(m.group(1), 16)


def iff_header():
    with open("/usr/include/net/if.h") as f:
        h = f.read()
    vals = re.findall(r"\b(IFF_\w+)\s*=\s*(0x[0-9a-fA-F]+)", h)
    if len(vals) < 10:
        raise NotRecognised("net/if.h enum not recognised")
    defined = set(re.findall(r"#\s*define\s+(IFF_\w+)\s+\1\b", h))
    return [(k, int(v, 16)) for k, v in vals if k in defined]


def iff_docs(snap):
    p = os.path.join(snap.dir, "docs", "index.rst")
    with open(p, encoding="utf-8") as f:
        t = f.read()
    m = re.search(r"Possible flags are:(.*?)\(some flags", t, re.S)
    if not m:
        raise NotRecognised("flags paragraph not found in docs/index.rst")
    names = re.findall(r"``(\w+)``", m.group(1))
    if len(names) < 5:
        raise NotRecognised("flag names not found")
    return names


def isup_flag(tree):
    fn = extract.find_def(tree, "net_if_stats")
    for n in ast.walk(fn):
        if isinstance(n, ast.Assign) and extract.dotted(n.targets[0]) == "isup" and isinstance(n.value, ast.Compare) \
                and isinstance(n.value.ops[0], ast.In) and extract.dotted(n.value.comparators[0]) == "flags":
            return extract.const(n.value.left)
    raise NotRecognised("isup computation not recognised")


def eth_speed_cast(src):
    body = c_function(src, "psutil_ethtool_cmd_speed")
    m = re.search(r"return\s*\(\s*(\(\s*(?:uint32_t|__u32|u32|unsigned(?:\s+int)?)\s*\)\s*)?ecmd->speed_hi\s*<<\s*16\s*\)\s*\|\s*ecmd->speed\s*;", body)
    if not m:
        raise NotRecognised("speed_hi << 16 | speed not recognised")
    return bool(m.group(1))


# ---------------------------------------------------------------------------------- all facts

def facts(snap, F):
    cache = {}

    def memo(key, fn):
        if key not in cache:
            try:
                cache[key] = ("ok", fn())
            except Exception as e:  # re-raised on every use so each fact records its own skip
                cache[key] = ("err", e)
        st, v = cache[key]
        if st == "err":
            raise v
        return v

    users_c = lambda: memo("users.c", lambda: c_source(snap, "arch/linux/users.c"))
    proc_c = lambda: memo("proc.c", lambda: c_source(snap, "arch/linux/proc.c"))
    posix_c = lambda: memo("posix.c", lambda: c_source(snap, "_psutil_posix.c"))
    common_c = lambda: memo("common.c", lambda: c_source(snap, "_psutil_common.c"))
    pslinux = lambda: memo("pslinux", lambda: extract.parse_module(snap, "_pslinux.py"))

    for fld in UT_FIELDS:
        F.try_add("%sBounded" % {"ut_user": "user", "ut_line": "line", "ut_host": "host"}[fld], "Bool",
                  lambda fld=fld: lean_bool(users_decode_kind(users_c(), fld) == "bounded"),
                  "users.c decodes %s with PyUnicode_DecodeFSDefaultAndSize(p, strnlen(p, sizeof field)) (true) or with PyUnicode_DecodeFSDefault(p) = strlen (false)" % fld)
    F.try_add("filterUserProcess", "Bool", lambda: lean_bool(users_filter(users_c())),
              "`if (ut->ut_type != USER_PROCESS) continue;` present in the getutent loop")
    F.try_add("localLits", "List (List Nat)",
              lambda: lean_list(users_local_lits(users_c())[0], lambda s: lean_bytes(s.encode())),
              "literals ut_host is strcmp'ed with")
    F.try_add("localName", "List Nat", lambda: lean_bytes(users_local_lits(users_c())[1].encode()),
              "host shown for those")
    F.try_add("tupleOrder", "List String", lambda: lean_list(users_tuple_order(users_c()), lean_str),
              "C sources of the five slots of the users() tuple, in Py_BuildValue order")
    F.try_add("usersPyPerm", "List Nat", lambda: lean_list(memo("upy", lambda: users_py(pslinux()))[0], lean_nat),
              "_pslinux.users(): suser slot k takes tuple index perm[k]")
    F.try_add("usersPyOrNone", "List Nat", lambda: lean_list(memo("upy", lambda: users_py(pslinux()))[1], lean_nat),
              "_pslinux.users(): suser slots written as `x or None`")

    pp = lambda: memo("ppy", lambda: partitions_py(pslinux()))
    F.try_add("nodevPrefix", "List Nat", lambda: lean_bytes(pp()["nodevPrefix"].encode()), "disk_partitions(): prefix of pseudo-filesystem lines")
    F.try_add("nodevKept", "List (List Nat)", lambda: lean_list(pp()["nodevKept"], lambda s: lean_bytes(s.encode())), "nodev types kept nevertheless")
    F.try_add("nodevSplitIdx", "Nat", lambda: lean_nat(pp()["nodevSplitIdx"]), "index into line.split('\\t') on a nodev line")
    F.try_add("noneDevice", "List Nat", lambda: lean_bytes(pp()["noneDevice"].encode()), "device spelling replaced by ''")
    F.try_add("rootAliases", "List (List Nat)", lambda: lean_list(pp()["rootAliases"], lambda s: lean_bytes(s.encode())), "device spellings resolved by RootFsDeviceFinder")
    F.try_add("filterDevice", "Bool", lambda: lean_bool(pp()["filterDevice"]), "`not device` clause of the all=False filter present")
    F.try_add("filterFstype", "Bool", lambda: lean_bool(pp()["filterFstype"]), "`fstype not in fstypes` clause of the all=False filter present")

    sm = lambda: memo("strncpy", lambda: strncpy_macro(snap.source("_psutil_common.h")))
    F.try_add("strncpyCopyMinus", "Nat", lambda: lean_nat(sm()[0]), "PSUTIL_STRNCPY: strncpy(dst, src, n - K)")
    F.try_add("strncpyTermMinus", "Nat", lambda: lean_nat(sm()[1]), "PSUTIL_STRNCPY: dst[n - K] = 0")
    F.try_add("strncpyHasTerm", "Bool", lambda: lean_bool(sm()[2]), "PSUTIL_STRNCPY stores a terminator")
    F.try_add("strncpySitesSizeofDst", "Bool", lambda: lean_bool(memo("sites", lambda: strncpy_sites(snap))[1]),
              "every PSUTIL_STRNCPY call site passes sizeof(<its own dst array>)")

    mf = lambda: memo("mac", lambda: mac_facts(posix_c()))
    F.try_add("macBufSize", "Nat", lambda: lean_nat(mf()["bufSize"]), "size of buf in psutil_convert_ipaddr (NI_MAXHOST from <netdb.h>)")
    F.try_add("macStep", "Nat", lambda: lean_nat(mf()["step"]), "ptr += K after each sprintf")
    F.try_add("macMasked", "Bool", lambda: lean_bool(mf()["masked"]), "data[n] & 0xff")
    F.try_add("macLowerHex", "Bool", lambda: lean_bool(mf()["lower"]), "%02x (true) / %02X")
    F.try_add("macSep", "Nat", lambda: lean_nat(mf()["sep"]), "separator printed after each byte")

    ag = lambda: memo("affget", lambda: aff_get_facts(proc_c()))
    F.try_add("affInitBits", "Nat", lambda: lean_nat(ag()[0]), "initial ncpus of the cpu_affinity_get loop")
    F.try_add("affGuard", "Option Int", lambda: "none" if ag()[1] is None else "(some %d)" % ag()[1],
              "`if (ncpus > G) -> OverflowError` placed before the multiplication (none = absent)")
    F.try_add("affFactor", "Int", lambda: lean_int(ag()[2]), "ncpus = ncpus * K")

    as_ = lambda: memo("affset", lambda: aff_set_facts(proc_c()))
    F.try_add("cpuSetBytes", "Nat", lambda: lean_nat(as_()[0]), "sizeof(cpu_set_t) = __CPU_SETSIZE / 8 from <bits/cpu-set.h>")
    F.try_add("cpuSetChecked", "Bool", lambda: lean_bool(as_()[1]), "cpu_affinity_set uses glibc's CPU_SET on a cpu_set_t local")
    F.try_add("cpuMinusOneRejected", "Bool", lambda: lean_bool(as_()[2]), "`value == -1` -> ValueError")

    pr = lambda: memo("pidrange", lambda: pid_range_facts(common_c()))
    F.try_add("pidBits", "Nat", lambda: lean_nat(pr()[0]), "width of pid_t (format unit _Py_PARSE_PID)")
    F.try_add("pidNegGuard", "Bool", lambda: lean_bool(pr()[1]), "`if (pid < 0)` -> ValueError in psutil_check_pid_range")

    ic = lambda: memo("ioprio_c", lambda: ioprio_c_facts(proc_c()))
    ip = lambda: memo("ioprio_py", lambda: ionice_py_facts(pslinux()))
    F.try_add("ioprioSetUnits", "String", lambda: lean_str(ic()[4]),
              "psutil_proc_ioprio_set: PyArg_ParseTuple format units of (pid, ioclass, iodata), _Py_PARSE_PID written as i")
    F.try_add("parseFormats", "List (String × String)",
              lambda: lean_list(parse_formats(snap), lambda p: "(%s, %s)" % (lean_str(p[0]), lean_str(p[1]))),
              "every PyArg_ParseTuple call of the Linux build: (C function, format string; _Py_PARSE_PID written as i)")
    F.try_add("ioprioShift", "Nat", lambda: lean_nat(ic()[0]), "IOPRIO_CLASS_SHIFT")
    F.try_add("ioprioCGuard", "Option (Int × Int)", lambda: lean_opt_pair(ic()[1]), "C-side range check on ioclass before the shift")
    F.try_add("ioprioCDataGuard", "Option (Int × Int)", lambda: lean_opt_pair(ic()[2]), "C-side range check on iodata")
    F.try_add("ioprioCGuardOSError", "Bool", lambda: lean_bool(ic()[3]), "the C-side range check raises OSError(EINVAL) (true) / ValueError (false)")
    F.try_add("ioprioPyClassGuard", "Option (Int × Int)", lambda: lean_opt_pair(ip()[2]), "ionice_set(): interval ioclass is restricted to (none = any int)")
    F.try_add("ioprioPyValueRange", "Int × Int", lambda: "(%s, %s)" % (lean_int(ip()[1][0]), lean_int(ip()[1][1])), "ionice_set(): value range")
    F.try_add("ioprioPyNoValueClasses", "List Int", lambda: lean_list(ip()[0], lean_int), "ionice_set(): classes that accept no value")

    F.try_add("ethSpeedCast", "Bool", lambda: lean_bool(eth_speed_cast(memo("net.c", lambda: c_source(snap, "arch/linux/net.c")))),
              "net.c widens speed_hi to a 32-bit unsigned type before `<< 16`")

    it = lambda: memo("iff", lambda: iff_table(posix_c()))
    F.try_add("iffTable", "List (String × String)", lambda: lean_list(it()[0], lambda e: "(%s, %s)" % (lean_str(e[0]), lean_str(e[1]))),
              "psutil_net_if_flags: (macro, name) in source order")
    F.try_add("iffMask", "Nat", lambda: lean_nat(it()[1]), "flags = ifr.ifr_flags & MASK")
    F.try_add("iffHeader", "List (String × Nat)", lambda: lean_list(iff_header(), lambda e: "(%s, %d)" % (lean_str(e[0]), e[1])),
              "IFF_* macros defined by the <net/if.h> the extension is compiled against")
    F.try_add("iffDocNames", "List String", lambda: lean_list(iff_docs(snap), lean_str), "flag names listed in docs/index.rst (net_if_stats)")
    F.try_add("isupFlag", "String", lambda: lean_str(isup_flag(pslinux())), "net_if_stats(): isup = '<flag>' in flags")
