"""C06 translator: facts about psutil/_pslinux.py's stat/status parsers → Generated/C06.lean."""
import ast
import re

from harness.common import extract
from harness.common.extract import NotRecognised


def _proc_fn(tree, name):
    return extract.find_def(tree, name, cls="Process")


def _bytes_const(n):
    if isinstance(n, ast.Constant) and isinstance(n.value, bytes):
        return n.value
    raise NotRecognised("not a bytes constant: %s" % ast.dump(n)[:60])


def _is_name(n, ident):
    return isinstance(n, ast.Name) and n.id == ident


def _plus_const(n, ident_pred):
    """`<expr> + k` where ident_pred(expr) → k"""
    if isinstance(n, ast.BinOp) and isinstance(n.op, ast.Add) and ident_pred(n.left):
        k = extract.const(n.right)
        if isinstance(k, int) and k >= 0:
            return k
    raise NotRecognised("not `x + const`: %s" % ast.unparse(n))


def _find_call(n, var):
    """`var.find(b'c')` / `var.rfind(b'c')` → (method, byte)"""
    if isinstance(n, ast.Call) and isinstance(n.func, ast.Attribute) and _is_name(n.func.value, var) \
            and n.func.attr in ("find", "rfind") and len(n.args) == 1 and not n.keywords:
        b = _bytes_const(n.args[0])
        if len(b) == 1:
            return n.func.attr, b[0]
    raise NotRecognised("not %s.find/rfind(b'c'): %s" % (var, ast.unparse(n)))


def _val(v):
    if isinstance(v, NotRecognised):
        raise v
    return v


class _Partial(dict):
    """per-key results of an extractor: a value, or the NotRecognised that THIS key ran into — one
    unrecognised statement must not take the other facts of the function with it"""
    def need(self, k):
        if k not in self:
            raise NotRecognised("%s not found" % k)
        v = self[k]
        if isinstance(v, NotRecognised):
            raise v
        return v


def parse_stat_facts(tree):
    fn = _proc_fn(tree, "_parse_stat_file")
    out = _Partial()
    idx = {}
    fallback = False

    def guarded(key, f):
        try:
            out[key] = f()
        except NotRecognised as e:
            out[key] = e

    def rpar_of(v):
        meth, ch = _find_call(v, "data")
        if ch != ord(")"):
            raise NotRecognised("rpar looks for %r" % chr(ch))
        return meth == "rfind"

    def name_of(v):
        # data[data.find(b'(') + 1 : rpar]
        if not (isinstance(v, ast.Subscript) and _is_name(v.value, "data") and isinstance(v.slice, ast.Slice)
                and v.slice.step is None and _is_name(v.slice.upper, "rpar")):
            raise NotRecognised("name slice: %s" % ast.unparse(v))
        lo = v.slice.lower
        if not (isinstance(lo, ast.BinOp) and isinstance(lo.op, ast.Add) and extract.const(lo.right) == 1):
            raise NotRecognised("name slice lower: %s" % ast.unparse(lo))
        meth, ch = _find_call(lo.left, "data")
        if ch != ord("("):
            raise NotRecognised("name slice looks for %r" % chr(ch))
        return meth == "find"

    def skip_of(v):
        # data[rpar + 2 :].split()
        if not (isinstance(v, ast.Call) and isinstance(v.func, ast.Attribute) and v.func.attr == "split"
                and not v.args and not v.keywords):
            raise NotRecognised("fields: %s" % ast.unparse(v))
        sub = v.func.value
        if not (isinstance(sub, ast.Subscript) and _is_name(sub.value, "data") and isinstance(sub.slice, ast.Slice)
                and sub.slice.upper is None and sub.slice.step is None):
            raise NotRecognised("fields slice: %s" % ast.unparse(sub))
        if _is_name(sub.slice.lower, "rpar"):
            return 0
        return _plus_const(sub.slice.lower, lambda e: _is_name(e, "rpar"))

    zero_keys = set()
    for st in ast.walk(fn):
        if isinstance(st, ast.Assign) and len(st.targets) == 1:
            t, v = st.targets[0], st.value
            if _is_name(t, "rpar"):
                guarded("statUsesRfind", lambda: rpar_of(v))
            elif _is_name(t, "name"):
                guarded("nameFromFirstLpar", lambda: name_of(v))
            elif _is_name(t, "fields"):
                guarded("statSkip", lambda: skip_of(v))
            elif isinstance(t, ast.Subscript) and _is_name(t.value, "ret"):
                key = extract.const(t.slice)
                if isinstance(v, ast.Subscript) and _is_name(v.value, "fields"):
                    i = extract.const(v.slice)
                    if not isinstance(i, int) or i < 0:
                        idx[key] = NotRecognised("index of %s: %s" % (key, ast.unparse(v)))
                    elif key in idx and idx[key] != i:
                        idx[key] = NotRecognised("two indices for %s" % key)
                    else:
                        idx[key] = i
                elif _is_name(v, "name") and key == "name":
                    out["nameKeyOk"] = True
                elif isinstance(v, ast.Constant) and v.value == 0:
                    zero_keys.add(key)
                else:
                    idx[key] = NotRecognised("ret[%r] = %s" % (key, ast.unparse(v)))
    # the IndexError fallback for blkio_ticks
    for st in ast.walk(fn):
        if isinstance(st, ast.Try):
            body_keys = [extract.const(s.targets[0].slice) for s in st.body
                         if isinstance(s, ast.Assign) and isinstance(s.targets[0], ast.Subscript)]
            for h in st.handlers:
                if h.type is not None and extract.dotted(h.type) == "IndexError":
                    hk = [extract.const(s.targets[0].slice) for s in h.body
                          if isinstance(s, ast.Assign) and isinstance(s.targets[0], ast.Subscript)
                          and isinstance(s.value, ast.Constant) and s.value.value == 0]
                    if body_keys == ["blkio_ticks"] and hk == ["blkio_ticks"]:
                        fallback = True
    for k in zero_keys - {"blkio_ticks"}:
        idx[k] = NotRecognised("constant 0 stored for %s" % k)
    out.setdefault("nameKeyOk", False)
    out["idx"] = idx
    out["blkioFallback"] = fallback
    return out


def _stat_keys_in(node):
    """keys K in `self._parse_stat_file()['K']` or `values['K']` (values = self._parse_stat_file())"""
    keys = []
    for n in ast.walk(node):
        if isinstance(n, ast.Subscript) and isinstance(n.slice, ast.Constant) and isinstance(n.slice.value, str):
            v = n.value
            if (isinstance(v, ast.Call) and extract.dotted(v.func) == "self._parse_stat_file") or _is_name(v, "values"):
                keys.append(n.slice.value)
    return keys


def method_key(tree, meth, wrapper):
    """The single stat key `meth` reads, which must sit inside `wrapper(...)` (int/float/decode/None)."""
    fn = _proc_fn(tree, meth)
    keys = _stat_keys_in(fn)
    if len(keys) != 1:
        raise NotRecognised("%s reads keys %s" % (meth, keys))
    if wrapper is not None:
        ok = False
        for c in ast.walk(fn):
            if isinstance(c, ast.Call) and extract.dotted(c.func) == wrapper and len(c.args) == 1 \
                    and _stat_keys_in(c.args[0]) == keys:
                ok = True
        if not ok:
            raise NotRecognised("%s: key not wrapped in %s()" % (meth, wrapper))
    return keys[0]


def _tick_expr_key(v):
    """`float(values['K']) / CLOCK_TICKS` → K"""
    if isinstance(v, ast.BinOp) and isinstance(v.op, ast.Div) and _is_name(v.right, "CLOCK_TICKS") \
            and isinstance(v.left, ast.Call) and extract.dotted(v.left.func) == "float" and len(v.left.args) == 1:
        ks = _stat_keys_in(v.left.args[0])
        if len(ks) == 1:
            return ks[0]
    raise NotRecognised("not float(values[K]) / CLOCK_TICKS: %s" % ast.unparse(v))


def cpu_times_keys(tree):
    """the stat key behind each of the five positional arguments of pcputimes(...): a key, or the NotRecognised
    of that argument alone"""
    fn = _proc_fn(tree, "cpu_times")
    var = {}
    ret = None
    for st in fn.body:
        if isinstance(st, ast.Assign) and len(st.targets) == 1 and isinstance(st.targets[0], ast.Name):
            if _is_name(st.targets[0], "values"):
                if not (isinstance(st.value, ast.Call) and extract.dotted(st.value.func) == "self._parse_stat_file"):
                    raise NotRecognised("cpu_times: values = %s" % ast.unparse(st.value))
                continue
            try:
                var[st.targets[0].id] = _tick_expr_key(st.value)
            except NotRecognised as e:
                var[st.targets[0].id] = e
        elif isinstance(st, ast.Return):
            ret = st.value
    if not (isinstance(ret, ast.Call) and extract.dotted(ret.func) == "pcputimes" and len(ret.args) == 5):
        raise NotRecognised("cpu_times: return shape")
    out = []
    for a in ret.args:
        if isinstance(a, ast.Name) and a.id in var:
            out.append(var[a.id])
        else:
            try:
                out.append(_tick_expr_key(a))
            except NotRecognised as e:
                out.append(e)
    return out


def create_time_key(tree):
    fn = _proc_fn(tree, "create_time")
    key = method_key(tree, "create_time", "float")
    ret = [s for s in fn.body if isinstance(s, ast.Return)]
    if len(ret) != 1:
        raise NotRecognised("create_time: returns")
    v = ret[0].value
    # (ctime / CLOCK_TICKS) + bt
    if not (isinstance(v, ast.BinOp) and isinstance(v.op, ast.Add)):
        raise NotRecognised("create_time: %s" % ast.unparse(v))
    l, r = v.left, v.right
    if _is_name(l, "bt"):
        l, r = r, l
    if not (_is_name(r, "bt") and isinstance(l, ast.BinOp) and isinstance(l.op, ast.Div)
            and _is_name(l.left, "ctime") and _is_name(l.right, "CLOCK_TICKS")):
        raise NotRecognised("create_time: %s" % ast.unparse(v))
    return key


def threads_facts(tree):
    fn = _proc_fn(tree, "threads")
    out = _Partial()

    def guarded(keys, f):
        try:
            r = f()
        except NotRecognised as e:
            r = {k: e for k in keys}
        out.update(r)

    def slice_of(v):
        # st[st.find(b')') + 2 :]
        if not (_is_name(v.value, "st") and isinstance(v.slice, ast.Slice) and v.slice.upper is None):
            raise NotRecognised("threads slice: %s" % ast.unparse(v))
        lo = v.slice.lower
        if isinstance(lo, ast.BinOp) and isinstance(lo.op, ast.Add):
            call, k = lo.left, extract.const(lo.right)
        else:
            call, k = lo, 0
        meth, ch = _find_call(call, "st")
        if ch != ord(")"):
            raise NotRecognised("threads looks for %r" % chr(ch))
        if not isinstance(k, int) or k < 0:
            raise NotRecognised("threads slice lower: %s" % ast.unparse(lo))
        return {"threadsUsesRfind": meth == "rfind", "threadsSkip": k}

    def tick_of(name, v):
        if not (isinstance(v, ast.BinOp) and isinstance(v.op, ast.Div) and _is_name(v.right, "CLOCK_TICKS")
                and isinstance(v.left, ast.Call) and extract.dotted(v.left.func) == "float"
                and isinstance(v.left.args[0], ast.Subscript) and _is_name(v.left.args[0].value, "values")):
            raise NotRecognised("threads: %s = %s" % (name, ast.unparse(v)))
        i = extract.const(v.left.args[0].slice)
        if not isinstance(i, int) or i < 0:
            raise NotRecognised("threads: index of %s" % name)
        return {name: i}

    for st in ast.walk(fn):
        if isinstance(st, ast.Assign) and len(st.targets) == 1:
            t, v = st.targets[0], st.value
            if _is_name(t, "st") and isinstance(v, ast.Subscript):
                guarded(["threadsUsesRfind", "threadsSkip"], lambda: slice_of(v))
            elif _is_name(t, "st"):
                # f.read().strip()
                out["strip"] = (isinstance(v, ast.Call) and isinstance(v.func, ast.Attribute) and v.func.attr == "strip"
                                and not v.args) or NotRecognised("threads: st = %s" % ast.unparse(v))
            elif _is_name(t, "values"):
                try:
                    ok = (isinstance(v, ast.Call) and isinstance(v.func, ast.Attribute) and v.func.attr == "split"
                          and _is_name(v.func.value, "st") and len(v.args) == 1 and _bytes_const(v.args[0]) == b" ")
                except NotRecognised:
                    ok = False
                out["split"] = ok or NotRecognised("threads: values = %s" % ast.unparse(v))
            elif isinstance(t, ast.Name) and t.id in ("utime", "stime"):
                guarded([t.id], lambda: tick_of(t.id, v))
            elif _is_name(t, "ntuple"):
                ok = (isinstance(v, ast.Call) and extract.dotted(v.func).endswith("pthread") and len(v.args) == 3
                      and ast.unparse(v.args[0]) == "int(thread_id)" and _is_name(v.args[1], "utime")
                      and _is_name(v.args[2], "stime"))
                out["ntuple"] = ok or NotRecognised("threads: ntuple = %s" % ast.unparse(v))
    return out


def threads_index(th, name):
    """values index of utime/stime — only meaningful when strip/split/ntuple have the known shape"""
    for k in ("strip", "split", "ntuple"):
        th.need(k)
    return th.need(name)


_PAT = re.compile(rb'^(\(\?m\)\^|\^)?((?:[A-Za-z_: ]|\\[nt])+?)((?:\\t\(\\d\+\))+)$')


def regex_facts(tree, meth, groups):
    """(key bytes, anchored) of the `re.compile(br'...')` default argument of `meth`."""
    fn = _proc_fn(tree, meth)
    defaults = [d for d in fn.args.defaults + fn.args.kw_defaults if d is not None]
    comp = [d for d in defaults if isinstance(d, ast.Call) and extract.dotted(d.func) == "re.compile"]
    if len(comp) != 1:
        raise NotRecognised("%s: re.compile default not found" % meth)
    c = comp[0]
    pat = _bytes_const(c.args[0])
    multiline = False
    flags = list(c.args[1:]) + [k.value for k in c.keywords if k.arg == "flags"]
    for f in flags:
        if extract.dotted(f) in ("re.M", "re.MULTILINE"):
            multiline = True
        else:
            raise NotRecognised("%s: flags %s" % (meth, ast.unparse(f)))
    m = _PAT.match(pat)
    if not m:
        raise NotRecognised("%s: pattern %r" % (meth, pat))
    pre, key, grp = m.group(1), m.group(2), m.group(3)
    if grp.count(rb"(\d+)") != groups:
        raise NotRecognised("%s: %d groups" % (meth, grp.count(rb"(\d+)")))
    if pre == b"^" and not multiline:
        # `^` without MULTILINE: only offset 0 — not one of the two shapes the model knows
        raise NotRecognised("%s: ^ without MULTILINE" % meth)
    anchored = pre is not None
    key = key.replace(rb"\n", b"\n").replace(rb"\t", b"\t")
    # the method must use findall on that pattern over self._read_status_file()
    src = ast.unparse(fn)
    if ".findall(data)" not in src or "self._read_status_file()" not in src:
        raise NotRecognised("%s: findall(data) over _read_status_file() not found" % meth)
    return key, anchored


def status_binary(tree):
    fn = _proc_fn(tree, "_read_status_file")
    opens = [n for n in ast.walk(fn) if isinstance(n, ast.Call) and extract.dotted(n.func) in ("open_binary", "open_text", "open")]
    if len(opens) != 1:
        raise NotRecognised("_read_status_file: %d open calls" % len(opens))
    name = extract.dotted(opens[0].func)
    if name == "open":
        raise NotRecognised("_read_status_file uses bare open()")
    reads = [n for n in ast.walk(fn) if isinstance(n, ast.Return)]
    if len(reads) != 1 or ast.unparse(reads[0].value) != "f.read()":
        raise NotRecognised("_read_status_file: return %s" % [ast.unparse(r.value) for r in reads])
    return name == "open_binary"


# ------------------------------------------------------------------ extension: code around the parsers

def _enclosing_if_tests(root, target):
    """unparsed tests of the `if` statements (innermost last) whose BODY holds `target`, inside `root`;
    an `else:` branch is written `not (<test>)`"""
    chain = []

    def walk(node, acc):
        if node is target:
            chain.extend(acc)
            return True
        for field, val in ast.iter_fields(node):
            items = val if isinstance(val, list) else [val]
            for it in items:
                if not isinstance(it, ast.AST):
                    continue
                acc2 = acc
                if isinstance(node, ast.If) and field == "body":
                    acc2 = acc + [ast.unparse(node.test)]
                elif isinstance(node, ast.If) and field == "orelse":
                    acc2 = acc + ["not (%s)" % ast.unparse(node.test)]
                if walk(it, acc2):
                    return True
        return False
    walk(root, [])
    return chain


def tmap_facts(snap):
    """_psposix.get_terminal_map: glob patterns, FileNotFoundError guard, the condition under which an entry is
    stored, @memoize — each extracted on its own."""
    tree = extract.parse_module(snap, "_psposix.py")
    fn = extract.find_def(tree, "get_terminal_map")
    out = _Partial({"memoized": "memoize" in extract.decorators(fn)})

    def globs_of():
        globs = None
        for st in ast.walk(fn):
            if isinstance(st, ast.Assign) and len(st.targets) == 1 and _is_name(st.targets[0], "ls"):
                parts, todo = [], [st.value]
                while todo:
                    n = todo.pop(0)
                    if isinstance(n, ast.BinOp) and isinstance(n.op, ast.Add):
                        todo = [n.left, n.right] + todo
                    elif isinstance(n, ast.Call) and extract.dotted(n.func) == "glob.glob" and len(n.args) == 1 and not n.keywords \
                            and isinstance(extract.const(n.args[0]), str):
                        parts.append(extract.const(n.args[0]))
                    else:
                        # total: an operand of another shape is reported as its source text
                        parts.append("<" + ast.unparse(n) + ">")
                globs = parts
        if globs is None:
            raise NotRecognised("get_terminal_map: `ls = ...` not found")
        return globs

    def loop_of():
        loops = [n for n in fn.body if isinstance(n, ast.For)]
        if len(loops) != 1 or not _is_name(loops[0].iter, "ls") or not _is_name(loops[0].target, "name"):
            raise NotRecognised("get_terminal_map: loop over ls")
        return loops[0]

    def store_of(loop):
        stores = [n for n in ast.walk(loop) if isinstance(n, ast.Assign) and isinstance(n.targets[0], ast.Subscript)
                  and _is_name(n.targets[0].value, "ret")]
        if len(stores) != 1 or not _is_name(stores[0].value, "name"):
            raise NotRecognised("get_terminal_map: stores into ret: %s" % [ast.unparse(x) for x in stores])
        key = ast.unparse(stores[0].targets[0].slice)
        if key not in ("os.stat(name).st_rdev", "st.st_rdev"):
            raise NotRecognised("get_terminal_map: key %s" % key)
        if key == "st.st_rdev" and "st = os.stat(name)" not in ast.unparse(loop):
            raise NotRecognised("get_terminal_map: st is not os.stat(name)")
        return stores[0]

    def skips_of(loop):
        # the os.stat call must sit in a try whose only handler is FileNotFoundError: pass/continue
        guarded = False
        for t in ast.walk(loop):
            if isinstance(t, ast.Try) and "os.stat(name)" in "".join(ast.unparse(b) for b in t.body):
                hs = t.handlers
                guarded = (len(hs) == 1 and hs[0].type is not None and extract.dotted(hs[0].type) == "FileNotFoundError"
                           and all(isinstance(b, (ast.Pass, ast.Continue)) for b in hs[0].body))
        return guarded

    for key, f in (("globs", globs_of), ("skipsVanished", lambda: skips_of(loop_of())),
                   ("guards", lambda: _enclosing_if_tests(loop_of(), store_of(loop_of())))):
        try:
            out[key] = f()
        except NotRecognised as e:
            out[key] = e
    if not isinstance(out["guards"], NotRecognised):
        out["checksChr"] = out["guards"] in (["stat.S_ISCHR(st.st_mode)"], ["S_ISCHR(st.st_mode)"])
    else:
        out["checksChr"] = out["guards"]
    return out


def boot_time_facts(tree):
    fn = extract.find_def(tree, "boot_time")
    keys = [c for c in ast.walk(fn) if isinstance(c, ast.Call) and isinstance(c.func, ast.Attribute)
            and c.func.attr == "startswith" and _is_name(c.func.value, "line")]
    if len(keys) != 1 or len(keys[0].args) != 1:
        raise NotRecognised("boot_time: startswith calls")
    key = _bytes_const(keys[0].args[0])
    idx = None
    for c in ast.walk(fn):
        if isinstance(c, ast.Call) and extract.dotted(c.func) == "float" and len(c.args) == 1:
            a = c.args[0]
            if isinstance(a, ast.Subscript) and ast.unparse(a.value) == "line.strip().split()":
                idx = extract.const(a.slice)
    if not isinstance(idx, int) or idx < 0:
        raise NotRecognised("boot_time: float(line.strip().split()[i]) not found")
    src = ast.unparse(fn)
    if "if BOOT_TIME is None:\n" not in src or "BOOT_TIME = ret" not in src or "raise RuntimeError" not in src:
        raise NotRecognised("boot_time: BOOT_TIME pinning / RuntimeError shape")
    return {"key": key, "idx": idx}


def create_boot(tree):
    """HOW `_pslinux.Process.create_time` obtains the boot time it adds. TOTAL — always a string:
         "or"        `bt = BOOT_TIME or boot_time()`   (truthiness: a cached 0.0 counts as unset and /proc/stat is re-read)
         "isNotNone" `bt = BOOT_TIME if BOOT_TIME is not None else boot_time()`   (a cached value is used, 0.0 included)
         "fresh"     `bt = boot_time()`   (the cache is never consulted)
         "other:<text>"  anything else (the text of the expression, or what is wrong with the assignment)
       `bt` is the name the returned expression adds (fact iStart / create_time_key insists on `(ctime / CLOCK_TICKS) + bt`);
       it must be assigned exactly once, at the top level of the function, and neither BOOT_TIME nor boot_time may be
       rebound inside the function."""
    try:
        fn = _proc_fn(tree, "create_time")
    except NotRecognised as e:
        return "other:%s" % e
    stores = [n for n in ast.walk(fn) if isinstance(n, ast.Name) and isinstance(n.ctx, (ast.Store, ast.Del))]
    rebound = sorted({n.id for n in stores if n.id in ("BOOT_TIME", "boot_time")}
                     | {a.arg for a in ast.walk(fn) if isinstance(a, ast.arg) and a.arg in ("BOOT_TIME", "boot_time", "bt")}
                     | {nm for g in ast.walk(fn) if isinstance(g, (ast.Global, ast.Nonlocal)) for nm in g.names
                        if nm in ("BOOT_TIME", "boot_time", "bt")})
    if rebound:
        return "other:%s rebound inside create_time" % ",".join(rebound)
    n_bt = len([n for n in stores if n.id == "bt"])
    top = [st for st in fn.body if isinstance(st, ast.Assign) and len(st.targets) == 1 and _is_name(st.targets[0], "bt")]
    if n_bt != 1 or len(top) != 1:
        return "other:bt assigned %d times (%d at top level)" % (n_bt, len(top))
    v = top[0].value

    def is_name(n, ident):
        return isinstance(n, ast.Name) and n.id == ident and isinstance(n.ctx, ast.Load)

    def is_boot_call(n):
        return isinstance(n, ast.Call) and is_name(n.func, "boot_time") and not n.args and not n.keywords

    if is_boot_call(v):
        return "fresh"
    if isinstance(v, ast.BoolOp) and isinstance(v.op, ast.Or) and len(v.values) == 2 \
            and is_name(v.values[0], "BOOT_TIME") and is_boot_call(v.values[1]):
        return "or"
    if isinstance(v, ast.IfExp) and is_name(v.body, "BOOT_TIME") and is_boot_call(v.orelse) \
            and isinstance(v.test, ast.Compare) and len(v.test.ops) == 1 and isinstance(v.test.ops[0], ast.IsNot) \
            and is_name(v.test.left, "BOOT_TIME") and len(v.test.comparators) == 1 \
            and isinstance(v.test.comparators[0], ast.Constant) and v.test.comparators[0].value is None:
        return "isNotNone"
    return "other:%s" % ast.unparse(v)


def threads_scan_facts(tree):
    fn = _proc_fn(tree, "threads")
    out = _Partial()
    loops = [(i, n) for i, n in enumerate(fn.body) if isinstance(n, ast.For)]
    if len(loops) != 1 or not _is_name(loops[0][1].iter, "thread_ids"):
        raise NotRecognised("threads: one loop over thread_ids expected")
    li, loop = loops[0]
    before, after = fn.body[:li], fn.body[li + 1:]

    def sorts_of():
        listing = [s for s in before if isinstance(s, ast.Assign) and _is_name(s.targets[0], "thread_ids")]
        if len(listing) != 1 or not ast.unparse(listing[0].value).startswith("os.listdir("):
            raise NotRecognised("threads: thread_ids = os.listdir(..)")
        sorts = [s for s in before if ast.unparse(s) == "thread_ids.sort()"]
        other = [s for s in before if "thread_ids" in ast.unparse(s) and s not in listing and s not in sorts]
        if other or "sorted(" in ast.unparse(listing[0].value) or "reverse" in ast.unparse(fn):
            raise NotRecognised("threads: thread_ids touched in an unknown way: %s" % [ast.unparse(o) for o in other])
        return bool(sorts)

    def handlers_of():
        skips = skips_esrch = False
        for t in ast.walk(loop):
            if isinstance(t, ast.Try):
                # what the handler protects: opening AND reading the thread's stat file
                tb = "\n".join(ast.unparse(b) for b in t.body)
                protects = "open_binary(fname)" in tb and "f.read()" in tb
                for h in t.handlers:
                    names = set()
                    if isinstance(h.type, ast.Tuple):
                        names = {extract.dotted(e) for e in h.type.elts}
                    elif h.type is not None:
                        names = {extract.dotted(h.type)}
                    body = [ast.unparse(b) for b in h.body]
                    if protects and body == ["hit_enoent = True", "continue"]:
                        skips = skips or "FileNotFoundError" in names
                        skips_esrch = skips_esrch or "ProcessLookupError" in names
        return skips, skips_esrch

    def init_of():
        inits = [s for s in before if isinstance(s, ast.Assign) and len(s.targets) == 1 and _is_name(s.targets[0], "hit_enoent")]
        if len(inits) != 1 or not isinstance(inits[0].value, ast.Constant) or not isinstance(inits[0].value.value, bool):
            raise NotRecognised("threads: hit_enoent initialisation %s" % [ast.unparse(i) for i in inits])
        return inits[0].value.value is False

    def checks_of():
        checks = [s for s in after if isinstance(s, ast.If) and ast.unparse(s.test) == "hit_enoent"
                  and [ast.unparse(b) for b in s.body] == ["self._raise_if_not_alive()"] and not s.orelse]
        if not after or not isinstance(after[-1], ast.Return) or not _is_name(after[-1].value, "retlist"):
            raise NotRecognised("threads: return retlist")
        return bool(checks)

    for key, f in (("sorts", sorts_of), ("skipsVanished", lambda: handlers_of()[0]), ("skipsEsrch", lambda: handlers_of()[1]),
                   ("hitStartsFalse", init_of), ("checksAlive", checks_of)):
        try:
            out[key] = f()
        except NotRecognised as e:
            out[key] = e
    return out


def runtime_regex(snap, meth, groups):
    """Fallback when the regex is not a literal `re.compile(br'..')` default (helper functions, constants):
    read the compiled pattern object from the imported module."""
    ps_mod = snap_psutil(snap)
    f = getattr(ps_mod._pslinux.Process, meth)
    seen = 0
    while hasattr(f, "__wrapped__") and seen < 5:
        f = f.__wrapped__
        seen += 1
    pats = [d for d in (f.__defaults__ or ()) if isinstance(d, re.Pattern)]
    if len(pats) != 1 or not isinstance(pats[0].pattern, bytes):
        raise NotRecognised("%s: no single compiled bytes pattern among the defaults" % meth)
    pat, flags = pats[0].pattern, pats[0].flags
    if flags & ~(re.M) & ~re.compile(b"").flags:
        raise NotRecognised("%s: flags %r" % (meth, flags))
    m = _PAT.match(pat)
    if not m:
        raise NotRecognised("%s: pattern %r" % (meth, pat))
    pre, key, grp = m.group(1), m.group(2), m.group(3)
    if grp.count(rb"(\d+)") != groups:
        raise NotRecognised("%s: %d groups" % (meth, grp.count(rb"(\d+)")))
    if pre == b"^" and not (flags & re.M):
        raise NotRecognised("%s: ^ without MULTILINE" % meth)
    anchored = pre is not None
    return key.replace(rb"\n", b"\n").replace(rb"\t", b"\t"), anchored


def regex_facts_any(snap, tree, meth, groups):
    try:
        return regex_facts(tree, meth, groups)
    except NotRecognised:
        fn = _proc_fn(tree, meth)
        src = ast.unparse(fn)
        if ".findall(data)" not in src or "self._read_status_file()" not in src:
            raise
        return runtime_regex(snap, meth, groups)


# ------------------------------------------------------------------ status patterns: exact source + structural form

_UNIT = re.compile(rb'(?:(\\t|\\s)(\*|\+)?)?\(\\d\+\)')
_STRUCT = re.compile(rb'^(\(\?m\)\^|\^)?((?:[A-Za-z_: ]|\\[n])+?)((?:(?:(?:\\t|\\s)(?:\*|\+)?)?\(\\d\+\))+)$')


def compiled_pattern(snap, meth):
    """The compiled regex object that is the default argument of Process.<meth> in the IMPORTED module: what the
    code really runs with, however the source spells it (literal, helper function, module constant)."""
    ps_mod = snap_psutil(snap)
    f = getattr(ps_mod._pslinux.Process, meth)
    seen = 0
    while hasattr(f, "__wrapped__") and seen < 5:
        f = f.__wrapped__
        seen += 1
    pats = [d for d in (f.__defaults__ or ()) if isinstance(d, re.Pattern)]
    if len(pats) != 1 or not isinstance(pats[0].pattern, bytes):
        raise NotRecognised("%s: no single compiled bytes pattern among the defaults" % meth)
    return pats[0]


def extra_flags(snap, meth):
    """flags of the compiled pattern other than the bytes default and re.M, as an int (0 = none)"""
    rt = compiled_pattern(snap, meth)
    return int(rt.flags & ~re.compile(b"").flags & ~re.M)


def pattern_source(snap, tree, meth):
    """(exact pattern bytes, MULTILINE?) — from the `def` line literal when it is one, else from the compiled object;
    both must agree when both exist."""
    rt = compiled_pattern(snap, meth)
    fn = _proc_fn(tree, meth)
    defaults = [d for d in fn.args.defaults + fn.args.kw_defaults if d is not None]
    comp = [d for d in defaults if isinstance(d, ast.Call) and extract.dotted(d.func) == "re.compile"]
    if len(comp) == 1 and comp[0].args and isinstance(comp[0].args[0], ast.Constant) \
            and isinstance(comp[0].args[0].value, bytes) and comp[0].args[0].value != rt.pattern:
        raise NotRecognised("%s: source literal and imported module disagree" % meth)
    src = ast.unparse(fn)
    if ".findall(data)" not in src or "self._read_status_file()" not in src:
        raise NotRecognised("%s: findall(data) over _read_status_file() not found" % meth)
    return rt.pattern, bool(rt.flags & re.M)


def pattern_struct(snap, tree, meth, groups):
    """structural form: (key bytes, anchored, (ws_class, min, unbounded))"""
    pat, multiline = pattern_source(snap, tree, meth)
    if extra_flags(snap, meth):
        raise NotRecognised("%s: flags %r" % (meth, compiled_pattern(snap, meth).flags))
    m = _STRUCT.match(pat)
    if not m:
        raise NotRecognised("%s: pattern %r is not [(?m)^]KEY(SEP(\\d+)){n}" % (meth, pat))
    pre, key, grp = m.group(1), m.group(2), m.group(3)
    units = _UNIT.findall(grp)
    if len(units) != groups or b"".join((a + q + rb"(\d+)") for a, q in units) != grp:
        raise NotRecognised("%s: groups %r" % (meth, grp))
    if len(set(units)) != 1:
        raise NotRecognised("%s: different separators %r" % (meth, units))
    atom, quant = units[0]
    if pre == b"^" and not multiline:
        raise NotRecognised("%s: ^ without MULTILINE" % meth)
    if pre is None and multiline:
        pass        # MULTILINE without ^ changes nothing
    sep = (atom == rb"\s", 0 if (quant == b"*" or atom == b"") else 1, quant in (b"*", b"+"))
    return key.replace(rb"\n", b"\n"), pre is not None, sep


def clock_ticks_rhs(tree):
    """the value node of the single module-level `CLOCK_TICKS = <expr>`; None when there is not exactly one
    assignment to that name in the whole module"""
    top = [st for st in tree.body if isinstance(st, ast.Assign) and any(_is_name(t, "CLOCK_TICKS") for t in st.targets)]
    every = [st for st in ast.walk(tree)
             if (isinstance(st, (ast.Assign, ast.AugAssign, ast.AnnAssign))
                 and any(_is_name(t, "CLOCK_TICKS") for t in (st.targets if isinstance(st, ast.Assign) else [st.target])))]
    if len(top) == 1 and len(every) == 1:
        return top[0].value
    return None


def clock_ticks_expr(tree):
    rhs = clock_ticks_rhs(tree)
    if rhs is None:
        return "<CLOCK_TICKS is not assigned exactly once at module level>"
    return ast.unparse(rhs)


def public_name_facts(snap):
    """psutil/__init__.py Process.name(): threshold of the truncation test, guards of `name = extended_name`,
    source of extended_name — each on its own"""
    tree = extract.parse_module(snap, "__init__.py")
    fn = extract.find_def(tree, "name", cls="Process")
    out = _Partial()

    def min_of():
        cmps = [c for c in ast.walk(fn) if isinstance(c, ast.Compare) and ast.unparse(c.left) == "len(bname)"
                and len(c.ops) == 1]
        if len(cmps) != 1:
            raise NotRecognised("name(): %d comparisons of len(bname)" % len(cmps))
        k = extract.const(cmps[0].comparators[0])
        if not isinstance(k, int) or k < 0:
            raise NotRecognised("name(): len(bname) compared with %s" % ast.unparse(cmps[0].comparators[0]))
        if isinstance(cmps[0].ops[0], ast.GtE):
            return k
        if isinstance(cmps[0].ops[0], ast.Gt):
            return k + 1
        raise NotRecognised("name(): %s" % ast.unparse(cmps[0]))

    def assign_of(target, value_pred):
        hits = [st for st in ast.walk(fn) if isinstance(st, ast.Assign) and len(st.targets) == 1
                and _is_name(st.targets[0], target) and value_pred(st.value)]
        if len(hits) != 1:
            raise NotRecognised("name(): %d assignments `%s = ...` of the expected kind" % (len(hits), target))
        return hits[0]

    def guards_of():
        st = assign_of("name", lambda v: _is_name(v, "extended_name"))
        if "bname = os.fsencode(name) if POSIX else b''" not in ast.unparse(fn):
            raise NotRecognised("name(): bname is not os.fsencode(name)")
        return _enclosing_if_tests(fn, st)

    for key, f in (("min", min_of), ("guards", guards_of),
                   ("source", lambda: ast.unparse(assign_of("extended_name", lambda v: True).value))):
        try:
            out[key] = f()
        except NotRecognised as e:
            out[key] = e
    return out


# ------------------------------------------------------------------ histories: oneshot() and the memoize_when_activated caches

class _Propagates(Exception):
    """an exception travelling up through the statements of oneshot() (symbolic walk)"""


def _call_pair(call):
    """`a.b.meth(args)` → ("a.b", "meth") when the arguments are exactly `(self)` or `()`, else the method is
    written with its arguments so that nothing is silently taken for the plain call"""
    if isinstance(call.func, ast.Attribute):
        recv, meth = ast.unparse(call.func.value), call.func.attr
    else:
        recv, meth = "", ast.unparse(call.func)
    args = [ast.unparse(a) for a in call.args] + ["%s=%s" % (k.arg, ast.unparse(k.value)) for k in call.keywords]
    if args not in ([], ["self"]):
        meth += "(" + ", ".join(args) + ")"
    return (recv, meth)


def oneshot_flow(stmts, yield_raises, consts):
    """Symbolic walk over the statements of the generator `oneshot()`: which calls are reached BEFORE the `yield`
    and which AFTER it, when the `yield` returns normally resp. when it raises (an exception propagates out of the
    `with` block: it is thrown into the generator at the `yield`). try/except/else/finally, `with`, `if` over module
    constants (POSIX, LINUX, …), `raise` and `return` are followed; the representative exception is an ordinary
    `Exception` subclass. Anything else is recorded as ("", <source>) and has no effect in the model. Total."""
    pre, post = [], []
    state = {"after": False}

    def emit(pair):
        (post if state["after"] else pre).append(pair)

    def catches(h):
        if h.type is None:
            return True
        names = [extract.dotted(e) for e in (h.type.elts if isinstance(h.type, ast.Tuple) else [h.type])]
        return any(n in ("Exception", "BaseException") for n in names)

    def expr(v):
        if isinstance(v, (ast.Yield, ast.YieldFrom)):
            state["after"] = True
            if yield_raises:
                raise _Propagates()
        elif isinstance(v, ast.Call):
            emit(_call_pair(v))
        elif isinstance(v, ast.Constant):
            pass                                  # docstring
        else:
            emit(("", ast.unparse(v)))

    class _Return(Exception):
        pass

    def block(body):
        for st in body:
            one(st)

    def one(st):
        if isinstance(st, ast.Expr):
            expr(st.value)
        elif isinstance(st, ast.Assign) and isinstance(st.value, (ast.Yield, ast.YieldFrom)):
            expr(st.value)
        elif isinstance(st, ast.Pass):
            pass
        elif isinstance(st, ast.Raise):
            raise _Propagates()
        elif isinstance(st, ast.Return):
            raise _Return()
        elif isinstance(st, (ast.With, ast.AsyncWith)):
            block(st.body)
        elif isinstance(st, ast.If):
            t = ast.unparse(st.test)
            neg = t.startswith("not ")
            nm = t[4:] if neg else t
            if nm in consts and isinstance(consts[nm], bool):
                block(st.body if (consts[nm] != neg) else st.orelse)
            else:
                emit(("", "if " + t))             # a condition the walk cannot decide: the branch is NOT followed
        elif isinstance(st, ast.Try):
            pending = None
            try:
                try:
                    block(st.body)
                except _Propagates as e:
                    hs = [h for h in st.handlers if catches(h)]
                    if not hs:
                        raise
                    block(hs[0].body)             # may re-raise (`raise`) → _Propagates again
                else:
                    block(st.orelse)
            except (_Propagates, _Return) as e:
                pending = e
            block(st.finalbody)
            if pending is not None:
                raise pending
        else:
            emit(("", ast.unparse(st).split("\n")[0]))

    try:
        block(stmts)
    except (_Propagates, _Return):
        pass
    return pre, post


def oneshot_facts(snap):
    """Process.oneshot() of psutil/__init__.py: the guard of the nested no-op branch, and the calls made on entry,
    on a normal exit and on an exit by exception of the branch that really opens a block."""
    tree = extract.parse_module(snap, "__init__.py")
    fn = extract.find_def(tree, "oneshot", cls="Process")
    ps_mod = snap_psutil(snap)
    consts = {k: getattr(ps_mod, k) for k in ("POSIX", "LINUX", "WINDOWS", "MACOS", "OSX", "FREEBSD", "OPENBSD", "NETBSD",
                                              "BSD", "SUNOS", "AIX") if isinstance(getattr(ps_mod, k, None), bool)}

    def has_yield(nodes):
        return any(isinstance(n, (ast.Yield, ast.YieldFrom)) for b in nodes for n in ast.walk(b))
    # the `if` that separates "a block is already open on this object" from "open one": both branches yield
    split = [n for n in ast.walk(fn) if isinstance(n, ast.If) and has_yield(n.body) and has_yield(n.orelse)]
    if len(split) == 1:
        test = ast.unparse(split[0].test)
        npre, npost = oneshot_flow(split[0].body, False, consts)
        nested_body = ["%s.%s" % c if c[0] else c[1] for c in npre] + ["yield"] + ["%s.%s" % c if c[0] else c[1] for c in npost]
        real = split[0].orelse
    else:
        test, nested_body, real = "<no nested-entry guard>", [], fn.body
    enter, leave = oneshot_flow(real, False, consts)
    enter_x, leave_exc = oneshot_flow(real, True, consts)
    dec = "contextlib.contextmanager" in extract.decorators(fn) or "contextmanager" in extract.decorators(fn)
    return {"test": test, "nested_body": nested_body, "enter": enter, "leave": leave, "leave_exc": leave_exc,
            "contextmanager": dec}


def memoized_methods(tree, cls):
    """names of the methods of class `cls` decorated with @memoize_when_activated (also those defined under an
    `if POSIX:` inside the class body)"""
    for n in tree.body:
        if isinstance(n, ast.ClassDef) and n.name == cls:
            return [f.name for f in ast.walk(n) if isinstance(f, (ast.FunctionDef, ast.AsyncFunctionDef))
                    and "memoize_when_activated" in extract.decorators(f)]
    raise NotRecognised("class %s not found" % cls)


def platform_oneshot_calls(tree, which):
    """the calls in the body of _pslinux.Process.oneshot_enter / oneshot_exit (straight-line walk)"""
    fn = _proc_fn(tree, which)
    pre, post = oneshot_flow(fn.body, False, {})
    return pre + post


def memo_slot_sources(snap):
    """_common.memoize_when_activated: the statements of cache_activate / cache_deactivate (what happens to the
    `_cache` slot of the object), and how the wrapper reads the slot"""
    tree = extract.parse_module(snap, "_common.py")
    fn = extract.find_def(tree, "memoize_when_activated")
    out = {}
    for inner in ("cache_activate", "cache_deactivate", "wrapper"):
        defs = [n for n in fn.body if isinstance(n, ast.FunctionDef) and n.name == inner]
        if len(defs) != 1:
            out[inner] = NotRecognised("memoize_when_activated: inner function %s" % inner)
            continue
        body = [st for st in defs[0].body if not (isinstance(st, ast.Expr) and isinstance(st.value, ast.Constant))]
        out[inner] = [ast.unparse(st) for st in body]
    return out


def _pairs(lst):
    return extract.lean_list([extract.lean_pair(extract.lean_str(a), extract.lean_str(b)) for a, b in lst])


def history_facts(snap, F, tree):
    memo = {}

    def once(k, fn):
        if k not in memo:
            memo[k] = fn()
        return memo[k]
    of = lambda: once("of", lambda: oneshot_facts(snap))
    ms = lambda: once("ms", lambda: memo_slot_sources(snap))
    S, L = extract.lean_str, extract.lean_list
    F.try_add("oneshotNestedTest", "String", lambda: S(of()["test"]),
              "psutil/__init__.py Process.oneshot(): the condition under which entering a block does nothing but `yield`")
    F.try_add("oneshotNestedBody", "List String", lambda: L([S(x) for x in of()["nested_body"]]),
              "Process.oneshot(): what that branch does")
    F.try_add("oneshotIsContextManager", "Bool", lambda: extract.lean_bool(of()["contextmanager"]),
              "Process.oneshot is decorated with @contextlib.contextmanager")
    F.try_add("oneshotEnter", "List (String × String)", lambda: _pairs(of()["enter"]),
              "Process.oneshot(): the (receiver, method) calls made before the `yield` of the branch that opens a block")
    F.try_add("oneshotLeave", "List (String × String)", lambda: _pairs(of()["leave"]),
              "Process.oneshot(): the calls reached after the `yield` RETURNED (the block was left normally)")
    F.try_add("oneshotLeaveExc", "List (String × String)", lambda: _pairs(of()["leave_exc"]),
              "Process.oneshot(): the calls reached after the `yield` RAISED (an exception propagates out of the block)")
    F.try_add("feMemoized", "List String",
              lambda: L([S(x) for x in memoized_methods(extract.parse_module(snap, "__init__.py"), "Process")]),
              "psutil/__init__.py Process: the methods decorated with @memoize_when_activated")
    F.try_add("plMemoized", "List String", lambda: L([S(x) for x in memoized_methods(tree, "Process")]),
              "psutil/_pslinux.py Process: the methods decorated with @memoize_when_activated")
    F.try_add("plEnterCalls", "List (String × String)", lambda: _pairs(platform_oneshot_calls(tree, "oneshot_enter")),
              "_pslinux.Process.oneshot_enter(): its calls")
    F.try_add("plExitCalls", "List (String × String)", lambda: _pairs(platform_oneshot_calls(tree, "oneshot_exit")),
              "_pslinux.Process.oneshot_exit(): its calls")
    F.try_add("memoActivateSrc", "List String", lambda: L([S(x) for x in _val(ms()["cache_activate"])]),
              "_common.memoize_when_activated.cache_activate: its statements (a FRESH dict goes into the `_cache` slot)")
    F.try_add("memoDeactivateSrc", "List String", lambda: L([S(x) for x in _val(ms()["cache_deactivate"])]),
              "_common.memoize_when_activated.cache_deactivate: its statements (the `_cache` slot is deleted)")
    F.try_add("memoWrapperSrc", "List String", lambda: L([S(x) for x in _val(ms()["wrapper"])]),
              "_common.memoize_when_activated.wrapper: its statements (no slot: run undecorated; slot of this thread: look up / store on a miss)")


def facts(snap, F):
    tree = extract.parse_module(snap, "_pslinux.py")
    memo = {}

    def once(k, fn):
        if k not in memo:
            memo[k] = fn()
        return memo[k]

    ps = lambda: once("ps", lambda: parse_stat_facts(tree))
    th = lambda: once("th", lambda: threads_facts(tree))
    ct = lambda: once("ct", lambda: cpu_times_keys(tree))

    def idx_of(keyfn):
        def f():
            k = keyfn()
            i = ps()["idx"].get(k)
            if i is None:
                raise NotRecognised("no index for key %r" % k)
            if isinstance(i, NotRecognised):
                raise i
            return extract.lean_nat(i)
        return f

    B = extract.lean_bool
    F.try_add("statUsesRfind", "Bool", lambda: B(ps().need("statUsesRfind")),
              "_parse_stat_file: the closing parenthesis is located with data.rfind(b')') (true) or .find (false)")
    F.try_add("nameFromFirstLpar", "Bool", lambda: B(ps().need("nameFromFirstLpar")),
              "_parse_stat_file: name = data[data.find(b'(') + 1 : rpar] (find = true, rfind = false)")
    F.try_add("statSkip", "Nat", lambda: extract.lean_nat(ps().need("statSkip")),
              "_parse_stat_file: fields = data[rpar + k:].split()")
    F.try_add("iStatus", "Nat", idx_of(lambda: method_key(tree, "status", None)), "fields index status() reads")
    F.try_add("iPpid", "Nat", idx_of(lambda: method_key(tree, "ppid", "int")), "fields index ppid() reads through int()")
    F.try_add("iTty", "Nat", idx_of(lambda: method_key(tree, "terminal", "int")), "fields index terminal() reads through int()")
    for j, nm in enumerate(["iUtime", "iStime", "iCutime", "iCstime", "iBlkio"]):
        F.try_add(nm, "Nat", idx_of(lambda j=j: _val(ct()[j])),
                  "fields index feeding pcputimes positional argument %d (float(..) / CLOCK_TICKS)" % j)
    F.try_add("iStart", "Nat", idx_of(lambda: create_time_key(tree)),
              "fields index create_time() reads: float(..) / CLOCK_TICKS + bt")
    F.try_add("iCpu", "Nat", idx_of(lambda: method_key(tree, "cpu_num", "int")), "fields index cpu_num() reads through int()")
    F.try_add("blkioFallback", "Bool", lambda: B(ps().need("blkioFallback")),
              "_parse_stat_file: IndexError on the blkio_ticks index stores 0")
    F.try_add("nameKeyIsName", "Bool",
              lambda: B(method_key(tree, "name", "decode") == "name" and ps().need("nameKeyOk")),
              "name() returns decode(ret['name']) and ret['name'] is the slice between the parentheses")
    F.try_add("threadsUsesRfind", "Bool", lambda: B(th().need("threadsUsesRfind")),
              "threads(): the closing parenthesis is located with st.rfind(b')') (true) or st.find (false)")
    F.try_add("threadsSkip", "Nat", lambda: extract.lean_nat(th().need("threadsSkip")), "threads(): st[idx + k:]")
    F.try_add("tUtime", "Nat", lambda: extract.lean_nat(threads_index(th(), "utime")), "threads(): values index of user time")
    F.try_add("tStime", "Nat", lambda: extract.lean_nat(threads_index(th(), "stime")), "threads(): values index of system time")
    F.try_add("statusBinary", "Bool", lambda: B(status_binary(tree)),
              "_read_status_file opens the file with open_binary (no universal-newline translation)")
    for nm, meth, g in (("uid", "uids", 3), ("gid", "gids", 3), ("thr", "num_threads", 1), ("ctx", "num_ctx_switches", 1)):
        st = lambda meth=meth, g=g: once("st:" + meth, lambda: pattern_struct(snap, tree, meth, g))
        F.try_add(nm + "Key", "List Nat", lambda st=st: extract.lean_bytes(st()[0]),
                  "%s(): literal text of the regex before the (SEP(\\d+)){%d} groups" % (meth, g))
        F.try_add(nm + "Anchored", "Bool", lambda st=st: B(st()[1]),
                  "%s(): the regex is anchored to a line start ((?m)^ / re.MULTILINE)" % meth)
        F.try_add(nm + "Sep", "Bool × Nat × Bool",
                  lambda st=st: "(%s, %d, %s)" % (B(st()[2][0]), st()[2][1], B(st()[2][2])),
                  "%s(): separator before each (\\d+) group: (class is \\s rather than \\t, minimal count, has a */+ quantifier); \\t = (false, 1, false)" % meth)
        F.try_add(nm + "PatternSrc", "List Nat", lambda meth=meth: extract.lean_bytes(once("src:" + meth, lambda: pattern_source(snap, tree, meth))[0]),
                  "%s(): the exact source of the compiled status regex (def-line literal = pattern object of the imported module)" % meth)

    F.try_add("statusRegexExtraFlags", "List Nat",
              lambda: extract.lean_list([str(extra_flags(snap, m)) for m in ("uids", "gids", "num_threads", "num_ctx_switches")]),
              "flags of the four compiled status regexes other than re.M (re.I = 2, re.S = 16, re.X = 64 ...): 0 = none")
    F.try_add("clockTicksExpr", "String", lambda: extract.lean_str(clock_ticks_expr(tree)),
              "_pslinux.py: the expression the module-level constant CLOCK_TICKS is defined by")
    nf = lambda: once("nf", lambda: public_name_facts(snap))
    F.try_add("nameExtendMin", "Nat", lambda: extract.lean_nat(nf().need("min")),
              "psutil/__init__.py Process.name(): N of `len(bname) >= N` (a kernel name of N bytes or more may be truncated)")
    F.try_add("nameExtendGuards", "List String", lambda: extract.lean_list([extract.lean_str(g) for g in nf().need("guards")]),
              "Process.name(): the `if` conditions under which `name = extended_name` runs (innermost last)")
    F.try_add("nameExtendSource", "String", lambda: extract.lean_str(nf().need("source")),
              "Process.name(): the expression extended_name is assigned from")

    tm = lambda: once("tm", lambda: tmap_facts(snap))
    bt = lambda: once("bt", lambda: boot_time_facts(tree))
    ts = lambda: once("ts", lambda: threads_scan_facts(tree))
    F.try_add("tmapGlobs", "List String", lambda: extract.lean_list([extract.lean_str(g) for g in tm().need("globs")]),
              "_psposix.get_terminal_map: the patterns of ls = glob.glob(..) + glob.glob(..)")
    F.try_add("tmapSkipsVanished", "Bool", lambda: B(tm().need("skipsVanished")),
              "get_terminal_map: os.stat(name) sits in try/except FileNotFoundError: pass")
    F.try_add("tmapChecksChr", "Bool", lambda: B(tm().need("checksChr")),
              "get_terminal_map: only character devices (stat.S_ISCHR) enter the map")
    F.try_add("tmapStoreGuards", "List String", lambda: extract.lean_list([extract.lean_str(g) for g in tm().need("guards")]),
              "get_terminal_map: the `if` conditions under which `ret[st.st_rdev] = name` runs (innermost last)")
    F.try_add("tmapMemoized", "Bool", lambda: B(tm().need("memoized")), "get_terminal_map is decorated with @memoize")
    F.try_add("btimeKey", "List Nat", lambda: extract.lean_bytes(bt()["key"]), "boot_time(): line.startswith(KEY)")
    F.try_add("btimeIdx", "Nat", lambda: extract.lean_nat(bt()["idx"]), "boot_time(): float(line.strip().split()[IDX])")
    F.try_add("createBoot", "String", lambda: extract.lean_str(create_boot(tree)),
              "create_time(): how bt is obtained: or (BOOT_TIME or boot_time()) | isNotNone (BOOT_TIME if BOOT_TIME is not None else boot_time()) | fresh (boot_time()) | other:<text>")
    F.try_add("threadsSorts", "Bool", lambda: B(ts().need("sorts")), "threads(): thread_ids.sort() before the loop")
    F.try_add("threadsSkipsVanished", "Bool", lambda: B(ts().need("skipsVanished")),
              "threads(): except (FileNotFoundError, ...): hit_enoent = True; continue")
    F.try_add("threadsChecksAlive", "Bool", lambda: B(ts().need("checksAlive")),
              "threads(): if hit_enoent: self._raise_if_not_alive()")
    F.try_add("threadsSkipsEsrch", "Bool", lambda: B(ts().need("skipsEsrch")),
              "threads(): ProcessLookupError (ESRCH from open or read of task/<tid>/stat) is caught like FileNotFoundError")
    F.try_add("threadsHitStartsFalse", "Bool", lambda: B(ts().need("hitStartsFalse")),
              "threads(): hit_enoent = False before the loop (the final liveness check runs only after a vanished thread)")

    def statuses():
        ps_mod = snap_psutil(snap)
        tbl = ps_mod._pslinux.PROC_STATUSES
        items = []
        for k, v in tbl.items():
            if not isinstance(k, str) or not isinstance(v, str):
                raise NotRecognised("PROC_STATUSES entry %r" % (k,))
            items.append(extract.lean_pair(extract.lean_bytes(k.encode()), extract.lean_str(v)))
        return extract.lean_list(items)

    F.try_add("statuses", "List (List Nat × String)", statuses, "PROC_STATUSES (letter bytes, STATUS_* value)")

    def fields(nt):
        def f():
            ps_mod = snap_psutil(snap)
            obj = getattr(ps_mod._pslinux, nt, None) or getattr(ps_mod._common, nt)
            return extract.lean_list([extract.lean_str(x) for x in obj._fields])
        return f
    F.try_add("pcputimesFields", "List String", fields("pcputimes"), "pcputimes._fields")
    F.try_add("pthreadFields", "List String", fields("pthread"), "pthread._fields")
    history_facts(snap, F, tree)


_PS = {}


def snap_psutil(snap):
    """Import the snapshot's psutil once per process (the runner's ctx.psutil does the same import)."""
    import sys
    if "psutil" in sys.modules:
        return sys.modules["psutil"]
    return snap.import_psutil()
