"""C16 — model-independent bounded-pre-emption exploration of oneshot() vs plain calls.

The scheduler of c16_sched.py follows the step sequence of the Lean model and therefore needs the
implementation to have the model's bytecode shape (LOAD_ATTR _cache / BINARY_SUBSCR / CALL /
STORE_SUBSCR …). A rewrite of memoize_when_activated makes it *drift*: that is a broken
correspondence, but not yet a failing input. This module is the failing-input search for that
case (and a cheap independent sample on every run): it makes no assumption about the shape of
the code. Two real threads run

    A (block owner):  enter oneshot() · call m · exit  [· enter · call m · exit]
    B (plain caller): call m

and a controller hands a baton between them at EVERY bytecode executed inside any code object
nested in `_common.memoize_when_activated` (wrapper, cache_activate, cache_deactivate and
whatever helper closures a refactor adds), inside `Process.oneshot` and inside the platform
`oneshot_enter/oneshot_exit`. Explored: every schedule with at most two pre-emptions,

    A runs a points · B runs b points · A runs to completion · B runs to completion      (AB)
    B runs b points · A runs a points · B runs to completion · A runs to completion      (BA)

for all (a, b) — quick tier: a stratified sample; search / thorough: all of them — and the
three-pre-emption schedules in which B's call straddles two program items of A

    A up to the start of item i · B runs b points · A up to the start of item j > i · B to completion · A to completion

for all (i, j, b) (always all of them: a plain call that begins in one block and ends in the next).

Programs (PROGS): the three original ones (explicit block, same method in both threads; run on the platform-level method
name()/stat and on the front-end-level method memory_info()/statm) and, with explicitly named methods (PROGS2):
as_dict() in the owner thread instead of an explicit block (as_dict enters oneshot() internally), a nested block, an exit
by an exception, a plain caller using ANOTHER source than the owner (status, smaps), methods that cross both cache levels
(cpu_times / ppid / uids: front-end `_cache` over `_proc._cache`) in one or both threads, mixed levels on one source, and
TWO plain callers (three threads: plans A a · B b · C c · A end · B end · C end and rotations).

Oracle — written from the property statement only. The content version of every source is bumped at
every baton hand-over and at the start of every program item, so the version a call returns tells
in which epoch its source was read:
  * no call raises anything but a psutil error (spurious KeyError / AttributeError / RuntimeError …);
  * a call made by A inside its k-th block returns a version ≥ the version current when that block
    was entered (read in that block) and ≤ the version current at its return;
  * a value in the dict returned by A's as_dict() was read inside that as_dict() call (or inside the enclosing block);
  * after a block was left — normally or by an exception — A's next call returns a version ≥ the one current at its start;
  * a nested enter/exit pair does not end the block (values after it still ≥ the OUTER entry; the block interval used for
    B's calls stays open until the outermost exit);
  * a call made outside the caller's own blocks (B's, C's, or A's between blocks) returns a version ≤ the one current at
    its return and ≥ the one current at its start: the literal clause "valid at some moment of the call". Until fix 447541f
    a value from an overlapping block of another thread was accepted (then-recorded finding C16-xthread-hit-predates-call);
    the cache now serves the activating thread only and such a value is a violation;
  * inside one outermost block the owner gets ONE answer per method (first read; until 447541f the then-recorded finding
    C16-owner-entry-overwritten was only counted).
"""
import sys
import threading

from harness.props import c16_sched

PS_ERRORS = c16_sched.PS_ERRORS


class Boom(Exception):
    """the exception thrown in a block's body"""


def meth_files():
    from harness.props import c16
    m = {}
    for x in c16.STAT_M:
        m[x] = ["stat"]
    for x in c16.STATUS_M:
        m[x] = ["status"]
    m.update({"memory_maps": ["smaps"], "memory_full_info": ["smaps", "smaps_rollup", "statm"], "memory_info": ["statm"],
              "cmdline": ["cmdline"], "io_counters": ["io"]})
    return m


# Bytecodes that read and write nothing but the executing frame's own value stack, fast locals and constants, or only move
# its instruction pointer: no other thread can observe them, and they observe nothing of another thread. Pre-empting a
# thread right before such a bytecode is indistinguishable from pre-empting it right before the next bytecode that is NOT
# of this kind, so they are not scheduling points (every other bytecode of the watched code objects is one).
FRAME_LOCAL_OPS = frozenset([
    "RESUME", "NOP", "CACHE", "EXTENDED_ARG", "POP_TOP", "PUSH_NULL", "COPY", "SWAP", "LOAD_CONST", "LOAD_FAST",
    "LOAD_FAST_CHECK", "LOAD_FAST_AND_CLEAR", "STORE_FAST", "DELETE_FAST", "JUMP_FORWARD", "JUMP_BACKWARD",
    "JUMP_BACKWARD_NO_INTERRUPT", "POP_JUMP_IF_TRUE", "POP_JUMP_IF_FALSE", "POP_JUMP_IF_NONE", "POP_JUMP_IF_NOT_NONE",
    "KW_NAMES", "MAKE_CELL", "COPY_FREE_VARS", "PUSH_EXC_INFO", "POP_EXCEPT",
])


def _local_offsets(code):
    import dis
    return frozenset(i.offset for i in dis.get_instructions(code) if i.opname in FRAME_LOCAL_OPS)


def _nested_codes(code, acc):
    acc.add(code)
    for c in code.co_consts:
        if hasattr(c, "co_code") and c not in acc:
            _nested_codes(c, acc)
    return acc


class CoopLock:
    """Stand-in for `Process._lock` (a threading.RLock) that never blocks the OS thread while the explorer holds the
    other threads parked: a failed non-blocking acquire hands the baton back to the controller (the thread is
    'waiting for the lock') and retries when it is granted again. Re-entrant like the lock it wraps."""

    def __init__(self, ex, real):
        self.ex = ex
        self.real = real

    def __enter__(self):
        while not self.real.acquire(blocking=False):
            self.ex._blocked()
        return self

    def __exit__(self, *a):
        self.real.release()

    def acquire(self, blocking=True, timeout=-1):
        while not self.real.acquire(blocking=False):
            if not blocking:
                return False
            self.ex._blocked()
        return True

    def release(self):
        self.real.release()


class Explorer:
    def __init__(self, impl, target):
        c16_sched.ensure_opcode_tracing()
        self.impl = impl
        self.ps = impl.ps
        self.target_name = target
        self.meths = c16_sched.TARGETS[target] if target else []      # legacy programs: ["call", index]
        self.mfiles = meth_files()
        self.files = sorted({f for _, f in self.meths})
        self.watched = set()
        _nested_codes(self.ps._common.memoize_when_activated.__code__, self.watched)
        self.watched.discard(self.ps._common.memoize_when_activated.__code__)
        one = self.ps.Process.oneshot
        self.watched.add(getattr(one, "__wrapped__", one).__code__)
        for nm in ("oneshot_enter", "oneshot_exit"):
            f = getattr(self.ps._psplatform.Process, nm, None)
            if f is not None:
                self.watched.add(f.__code__)
        self.local_offsets = {c: _local_offsets(c) for c in self.watched}

    # ---- worker side -------------------------------------------------------------------
    def _tracer(self, frame, event, arg):
        if event == "call" and frame.f_code in self.watched:
            frame.f_trace_opcodes = True
            return self._local
        return None

    def _local(self, frame, event, arg):
        if event == "opcode" and not self.free and frame.f_lasti not in self.local_offsets[frame.f_code]:
            self._point()
        return self._local

    def _point(self):
        tid = self.tids[threading.get_ident()]
        self.npoints[tid] += 1
        if self.budget[tid] is None:
            return
        if self.budget[tid] > 0:
            self.budget[tid] -= 1
            return
        # budget used up: hand the baton back and wait for the next grant
        self.parked[tid] = True
        self.ctrl.set()
        self.go[tid].wait()
        self.go[tid].clear()

    def _blocked(self):
        """called by CoopLock in a worker thread whose acquire failed"""
        tid = self.tids.get(threading.get_ident())
        if tid is None or self.free:
            import time
            time.sleep(0.0002)
            return
        self.lock_waits += 1
        self.blocked[tid] = True
        self.parked[tid] = True
        self.ctrl.set()
        self.go[tid].wait()
        self.go[tid].clear()
        self.blocked[tid] = False

    def _bump(self):
        self.version += 1
        for f in self.files:
            self.impl.ver[f] = self.version
            self.impl.dirty.add(f)           # written right before the implementation opens it (Impl._open)

    def _meth(self, item):
        return self.meths[item[1]][0] if isinstance(item[1], int) else item[1]

    def _files_of(self, progs):
        fs = set()
        for pr in progs:
            for it in pr:
                if it[0] == "call":
                    fs.update(self.mfiles.get(self._meth(it), []))
                elif it[0] in ("asdict", "piter"):
                    for n in it[1]:
                        fs.update(self.mfiles.get(n, []))
        return sorted(fs)

    def _worker(self, tid, prog):
        self.tids[threading.get_ident()] = tid
        out = self.results[tid] = []
        log = self.log[tid] = []
        cms = []
        # wait for the first grant before doing anything
        self.parked[tid] = True
        self.ctrl.set()
        self.go[tid].wait()
        self.go[tid].clear()
        sys.settrace(self._tracer)
        try:
            for item in prog:
                self.item_points[tid].append(self.npoints[tid])
                self._bump()
                v0 = self.version
                if item[0] == "call":
                    meth = self._meth(item)
                    o = dict(self.impl.outcome(meth, getattr(self.impl.p, meth)), meth=meth)
                    out.append(o)
                    log.append(("call", v0, self.version, o, len(cms)))
                elif item[0] in ("asdict", "piter"):
                    try:
                        if item[0] == "piter":
                            # psutil.process_iter(attrs=…): the Process objects of its module-level cache are SHARED
                            # between the threads that iterate; as_dict() runs on the shared object
                            d = None
                            for pr in self.ps.process_iter(attrs=list(item[1])):
                                if pr is self.impl.p:
                                    d = pr.info
                            if d is None:
                                raise RuntimeError("process_iter() did not yield the cached Process object")
                        else:
                            d = self.impl.p.as_dict(attrs=list(item[1]))
                        vals = {}
                        for n, v in d.items():
                            try:
                                vals[n] = self.impl.decode(n, v)
                            except Exception as e:  # noqa: BLE001
                                vals[n] = ["undecodable", repr(v)[:80], type(e).__name__]
                        o = {"kind": "dict", "values": vals}
                    except BaseException as e:  # noqa: BLE001
                        o = {"kind": "exc", "exc": type(e).__name__, "at": "as_dict"}
                    out.append(o)
                    log.append(("asdict", v0, self.version, o, len(cms)))
                elif item[0] == "exit_exc":
                    o = None
                    if cms:
                        cm = cms.pop()
                        try:
                            try:
                                raise Boom()
                            except Boom:
                                cm.__exit__(*sys.exc_info())
                        except Boom:
                            pass
                        except BaseException as e:  # noqa: BLE001
                            o = {"kind": "exc", "exc": type(e).__name__, "at": "exit"}
                            out.append(o)
                    log.append(("exit", v0, self.version, o, len(cms)))
                elif item[0] == "enter":
                    cm = self.impl.p.oneshot()
                    try:
                        cm.__enter__()
                        cms.append(cm)
                        log.append(("enter", v0, self.version, None, len(cms)))
                    except BaseException as e:  # noqa: BLE001
                        o = {"kind": "exc", "exc": type(e).__name__, "at": "enter"}
                        out.append(o)
                        log.append(("enter", v0, self.version, o, len(cms)))
                elif item[0] == "exit":
                    o = None
                    if cms:
                        try:
                            cms.pop().__exit__(None, None, None)
                        except BaseException as e:  # noqa: BLE001
                            o = {"kind": "exc", "exc": type(e).__name__, "at": "exit"}
                            out.append(o)
                    log.append(("exit", v0, self.version, o, len(cms)))
        except BaseException as e:  # noqa: BLE001
            out.append({"kind": "exc", "exc": type(e).__name__, "at": "worker"})
            log.append(("call", self.version, self.version, out[-1], len(cms)))
        finally:
            sys.settrace(None)
            self.done[tid] = True
            self.parked[tid] = True
            self.ctrl.set()

    # ---- controller side ---------------------------------------------------------------
    def _grant(self, tid, n):
        """let thread `tid` run `n` watched bytecodes (None = to completion)"""
        if self.done[tid]:
            return
        self._bump()
        self.budget[tid] = n
        self.parked[tid] = False
        self.ctrl.clear()
        self.go[tid].set()
        while not self.parked[tid]:
            if not self.ctrl.wait(10.0):
                raise c16_sched.Drift("thread %d neither finished nor reached a scheduling point" % tid)
            self.ctrl.clear()

    def run(self, progs, plan):
        """plan: list of (tid, n|None). Returns (results per thread, logs per thread, points per thread, problem)."""
        self.impl.reset_light()
        # cooperative stand-in for the object's RLock; the object is also what process_iter() has cached
        self.impl.p._lock = CoopLock(self, self.impl.p._lock)
        self.ps._pmap[self.impl.p.pid] = self.impl.p
        self.lock_waits = 0
        self.blocked = {t: False for t in range(len(progs))}
        self.version = 0
        self.free = False
        self.files = self._files_of(progs)
        self.tids, self.results, self.log = {}, {}, {}
        self.go = {t: threading.Event() for t in range(len(progs))}
        self.parked = {t: False for t in range(len(progs))}
        self.done = {t: False for t in range(len(progs))}
        self.budget = {t: None for t in range(len(progs))}
        self.npoints = {t: 0 for t in range(len(progs))}
        self.item_points = {t: [] for t in range(len(progs))}
        self.ctrl = threading.Event()
        threads = [threading.Thread(target=self._worker, args=(t, p), daemon=True) for t, p in enumerate(progs)]
        problem = None
        try:
            for t, th in enumerate(threads):
                th.start()
                while not self.parked[t]:
                    self.ctrl.wait(10.0)
                    self.ctrl.clear()
            for tid, n in plan:
                self._grant(tid, n)
            # everybody to completion; a thread waiting for the lock is retried after the others have moved
            pending = [t for t in range(len(progs)) if not self.done[t]]
            while pending and problem is None:
                progressed = False
                for t in list(pending):
                    before = self.npoints[t]
                    self._grant(t, None)
                    if self.done[t]:
                        pending.remove(t)
                        progressed = True
                    elif self.npoints[t] > before:
                        progressed = True
                if not progressed:
                    problem = "deadlock: threads %r all wait for Process._lock and none of them can move" % pending
        except c16_sched.Drift as e:
            problem = str(e)
        finally:
            self.free = True
            for t in self.go:
                self.budget[t] = None
                self.go[t].set()
            for th in threads:
                th.join(10.0)
            if any(th.is_alive() for th in threads):
                problem = (problem or "") + " [a worker thread did not terminate]"
        return ({str(t): self.results.get(t, []) for t in range(len(progs))},
                {t: self.log.get(t, []) for t in range(len(progs))},
                {"n": dict(self.npoints), "items": {t: list(v) for t, v in self.item_points.items()},
                 "lock_waits": self.lock_waits}, problem)


def _bad_outcome(who, kind, o):
    if o is None:
        return None
    if o.get("kind") == "exc" and o.get("exc") not in PS_ERRORS:
        return "thread %d: %s raised a spurious %s" % (who, kind, o["exc"])
    if o.get("kind") == "undecodable":
        return "thread %d: undecodable value %s" % (who, o.get("repr"))
    if o.get("kind") == "dict":
        for n, v in o["values"].items():
            if v and v[0] == "undecodable":
                return "thread %d: as_dict()[%r] undecodable: %s" % (who, n, v[1])
    return None


def _blocks_of(log):
    """outermost blocks of one thread: [(entry version, exit version)]; an as_dict()/process_iter(attrs) call outside any
    block is a block of its own; nested enter/exit pairs change nothing"""
    blocks, cur, nest = [], None, 0
    for kind, v0, v1, o, depth in log:
        if kind == "enter" and o is None:
            if nest == 0:
                cur = v0
            nest += 1
        elif kind == "exit" and nest > 0:
            nest -= 1
            if nest == 0:
                blocks.append((cur, v1))
                cur = None
        elif kind == "asdict" and cur is None:
            blocks.append((v0, v1))
    if cur is not None:
        blocks.append((cur, 10 ** 9))
    return blocks


def judge(logs, stats=None):
    """Returns a description of the first violated clause, or None. Every thread may own blocks (explicit oneshot()
    blocks, as_dict(), process_iter(attrs)); a call made outside the caller's own blocks is a plain call. `stats` (a dict)
    collects things that are counted, not judged."""
    for who in sorted(logs):
        for kind, v0, v1, o, depth in logs[who]:
            why = _bad_outcome(who, kind, o)
            if why:
                return why
    blocks = {who: _blocks_of(logs[who]) for who in logs}
    for who in sorted(logs):
        others = [b for w, bs in blocks.items() if w != who for b in bs]
        cur = None          # version current when the open outermost block of `who` was entered
        nest = 0
        first = {}          # method -> first version it returned in the open outermost block
        for kind, v0, v1, o, depth in logs[who]:
            if kind == "enter" and o is None:
                if nest == 0:
                    cur = v0
                    first = {}
                nest += 1
            elif kind == "exit" and nest > 0:
                nest -= 1
                if nest == 0:
                    cur = None
            elif kind == "call" and o and o.get("kind") == "ok":
                val = o["value"][0]
                if cur is not None:
                    lo, what = cur, "inside a block entered at version %d" % cur
                else:
                    # plain call: the literal clause — a moment of the call itself. (Until fix 447541f a value from an
                    # overlapping block of ANOTHER thread was tolerated as recorded finding C16-xthread-hit-predates-call; the
                    # cache now serves its owner only, so such a value is a violation.)
                    lo, what = v0, "outside its own blocks during versions %d..%d" % (v0, v1)
                if val is not None and not (lo <= val <= v1):
                    if cur is None and stats is not None:
                        stats["plain_value_predates_call"] = stats.get("plain_value_predates_call", 0) + 1
                    return "thread %d: a call %s returned version %d at version %d" % (who, what, val, v1)
                if cur is not None and val is not None:
                    # first-read clause for the block owner: one method, one outermost block, one answer (was finding
                    # C16-owner-entry-overwritten until 447541f)
                    m = o.get("meth")
                    if m in first and first[m] != val:
                        if stats is not None:
                            stats["owner_value_replaced_in_block"] = stats.get("owner_value_replaced_in_block", 0) + 1
                        return ("thread %d: inside ONE block %s() answered version %d and later version %d (the first read "
                                "of the block was replaced)" % (who, m, first[m], val))
                    first.setdefault(m, val)
            elif kind == "asdict" and o and o.get("kind") == "dict":
                lo = cur if cur is not None else v0
                for n, v in sorted(o["values"].items()):
                    if v and v[0] is not None and not (lo <= v[0] <= v1):
                        return ("thread %d: as_dict()[%r] returned version %d, not read during the call/block (versions %d..%d)"
                                % (who, n, v[0], lo, v1))
    return None


PROGS = [
    ("one_block", [[["enter"], ["call", 0], ["exit"]], [["call", 0]]]),
    ("two_blocks", [[["enter"], ["call", 0], ["exit"], ["enter"], ["call", 0], ["exit"]], [["call", 0]]]),
    ("empty_then_call", [[["enter"], ["exit"], ["enter"], ["call", 0], ["exit"]], [["call", 0]]]),
]

# programs with explicitly named methods (family, name, programs)
PROGS2 = [
    ("asdict", "asdict_owner", [[["asdict", ["name", "cpu_times", "ppid"]]], [["call", "name"]]]),
    ("asdict", "asdict_two_level", [[["asdict", ["cpu_times", "uids"]], ["asdict", ["cpu_times"]]], [["call", "cpu_times"]]]),
    ("nested", "nested_block", [[["enter"], ["call", "name"], ["enter"], ["call", "name"], ["exit"], ["call", "name"],
                                 ["exit"], ["call", "name"]], [["call", "name"]]]),
    ("nested", "asdict_in_block", [[["enter"], ["call", "cpu_times"], ["asdict", ["name", "cpu_times"]],
                                    ["call", "name"], ["exit"]], [["call", "cpu_times"]]]),
    ("exc", "exit_by_exception", [[["enter"], ["call", "name"], ["exit_exc"], ["call", "name"], ["enter"],
                                   ["call", "name"], ["exit"]], [["call", "name"]]]),
    ("other_source", "owner_stat_caller_status", [[["enter"], ["call", "name"], ["exit"]], [["call", "num_threads"]]]),
    ("other_source", "owner_status_caller_smaps", [[["enter"], ["call", "num_threads"], ["call", "memory_maps"], ["exit"]],
                                                   [["call", "memory_maps"]]]),
    ("two_level", "cpu_times_two_blocks", [[["enter"], ["call", "cpu_times"], ["exit"], ["enter"], ["call", "cpu_times"],
                                            ["exit"]], [["call", "cpu_times"]]]),
    ("two_level", "ppid_both", [[["enter"], ["call", "ppid"], ["exit"]], [["call", "ppid"]]]),
    ("two_level", "uids_gids", [[["enter"], ["call", "uids"], ["call", "gids"], ["exit"]], [["call", "uids"]]]),
    ("two_level", "owner_two_level_caller_one", [[["enter"], ["call", "cpu_times"], ["exit"]], [["call", "name"]]]),
    ("two_level", "owner_one_caller_two_level", [[["enter"], ["call", "name"], ["exit"], ["enter"], ["call", "cpu_times"],
                                                  ["exit"]], [["call", "cpu_times"]]]),
    ("three_threads", "two_plain_callers", [[["enter"], ["call", "name"], ["exit"]], [["call", "name"]], [["call", "cpu_times"]]]),
    # ---- the lock: as_dict() / oneshot() from a second thread while a block is open WAITS (Process._lock is taken for the
    # whole block); two threads on one shared object (process_iter()'s cached Process objects) serialise; nobody deadlocks
    ("lock_wait", "asdict_in_other_block", [[["enter"], ["call", "name"], ["call", "cpu_times"], ["exit"], ["call", "name"]],
                                            [["asdict", ["name", "cpu_times"]]]]),
    ("lock_wait", "asdict_both_shared", [[["asdict", ["name", "cpu_times", "ppid"]], ["call", "name"]],
                                         [["asdict", ["name", "cpu_times"]]]]),
    ("lock_wait", "block_both", [[["enter"], ["call", "name"], ["exit"], ["call", "name"]],
                                 [["enter"], ["call", "name"], ["call", "name"], ["exit"]]]),
    ("lock_wait", "nested_asdict_vs_asdict", [[["enter"], ["asdict", ["name", "uids"]], ["call", "name"], ["exit"]],
                                              [["asdict", ["name", "uids"]], ["call", "uids"]]]),
    ("lock_wait", "process_iter_two_threads", [[["piter", ["name", "cpu_times"]]], [["piter", ["name", "ppid"]]]]),
    ("three_threads", "three_asdict", [[["asdict", ["name", "cpu_times"]]], [["asdict", ["name"]]], [["call", "name"]]]),
]


def plans(na, nb, a_items, full, rng, budget):
    """Plans (lists of (tid, points)); every plan is completed by "thread 0 to the end, thread 1 to the end".
    two pre-emptions:   A a · B b · A end · B end        and        B b · A a · B end · A end
    three pre-emptions: A up to the start of its i-th program item · B b · A up to the start of its j-th item (j > i) ·
                        B end · A end      (a plain call straddling the end of one block and the start of the next)
    All of them when `full`, else a stratified sample of `budget` two-pre-emption plans + (at most `budget`) three-pre-emption ones."""
    two = [[(0, a), (1, b), (0, None), (1, None)] for a in range(na + 1) for b in range(nb + 1)]
    two += [[(1, b), (0, a), (1, None), (0, None)] for a in range(na + 1) for b in range(nb + 1)]
    three = [[(0, pi), (1, b), (0, pj - pi), (1, None), (0, None)]
             for i, pi in enumerate(a_items) for pj in a_items[i + 1:] + [na] for b in range(1, nb + 1)]
    if full or len(two) <= budget:
        return three + two
    if len(three) > budget:
        three = rng.sample(three, budget)
    keep = [p for p in two if p[0][1] % 7 == 0 and p[1][1] in (0, nb, na)]
    if len(keep) > budget // 2:
        keep = rng.sample(keep, budget // 2)
    rest = [p for p in two if p not in keep]
    return three + keep + rng.sample(rest, max(0, min(len(rest), budget - len(keep))))


def plans3(n, full, rng, budget, cap=2500):
    """three threads: A a · B b · C c · (everybody to the end), for the six orders of who runs first; `cap` plans at most"""
    import itertools
    allp = []
    for order in itertools.permutations(range(3)):
        for a in range(0, n[order[0]] + 1, 4 if order[0] == 0 else 1):
            for b in range(0, n[order[1]] + 1, 4 if order[1] == 0 else 1):
                for c in range(0, n[order[2]] + 1, 8 if order[2] == 0 else 2):
                    allp.append([(order[0], a), (order[1], b), (order[2], c)] + [(t, None) for t in order])
    k = cap if full else budget
    return allp if len(allp) <= k else rng.sample(allp, k)


def _solo_points(ex, progs):
    """scheduling points of each thread when run alone, and of the plain callers when they run inside a block of A"""
    _, _, pts, prob = ex.run(progs, [(t, None) for t in range(len(progs))])
    if prob:
        return None, None, prob
    n = dict(pts["n"])
    for st in pts["items"][0][1:]:
        _, _, p2, _ = ex.run(progs, [(0, st)] + [(t, None) for t in range(1, len(progs))])
        for t in range(1, len(progs)):
            n[t] = max(n[t], p2["n"][t])
    return n, pts["items"][0], None


def _explore_program(ctx, res, ex, family, pname, progs, target, full, budget, stop_at_first, cap=None):
    n, a_items, prob = _solo_points(ex, progs)
    inp0 = {"target": target, "progs": progs, "program": pname}
    if prob:
        res.disagree("model", {"preempt": dict(inp0, plan="solo")}, prob, None, None,
                     note="bounded-pre-emption explorer could not run the programs: " + prob)
        return 0, False, False
    if len(progs) == 2:
        pl = plans(n[0], n[1], a_items, full, ctx.rng, budget)
        exhaustive = full
        if full and cap and len(pl) > cap:
            three = [p for p in pl if len(p) == 5]
            two = [p for p in pl if len(p) == 4]
            pl = three + ctx.rng.sample(two, max(0, cap - len(three)))
            exhaustive = False
    else:
        pl = plans3(n, full, ctx.rng, budget, cap=cap or 2500)
        exhaustive = False
    total, found = 0, False
    stats = {}
    for plan in pl:
        out, logs, pts, prob = ex.run(progs, plan)
        total += 1
        if pts.get("lock_waits"):
            res.count("preempt:lock_waits", pts["lock_waits"])
            res.count("preempt:schedules_with_a_lock_wait")
        res.count("preempt:%s:%s:%d-switch" % (family, pname, len(plan) - len(progs)))
        res.case(("preempt", family, pname, plan), nontrivial=all(k is None or k > 0 for _, k in plan))
        why = prob or judge(logs, stats)
        if why and not found:
            found = True
            res.disagree("spec", {"preempt": dict(inp0, plan=plan, points=[n[t] for t in sorted(n)])},
                         {"results": out, "log": {str(k): v for k, v in logs.items()}}, None, {"clause": why},
                         note="bounded-pre-emption exploration (model-independent oracle): " + why)
            if not full or stop_at_first:
                break
    for k, v in stats.items():
        res.count("preempt:" + k, v)
    return total, found, exhaustive


# thorough tier: plans per program of PROGS2 (all three-pre-emption plans first, the rest sampled); the three original
# programs (PROGS, both cache levels) are always enumerated completely
THOROUGH_CAP_NEW = 600


def explore(ctx, res, full=False, budget=400):
    """Runs the exploration; records a 'spec' disagreement for the first violating schedule of each program.
    quick: a stratified sample (`budget` ≈ plans per original program×target, a third of it per new program);
    thorough: every two-/three-pre-emption plan of the original programs, and of the new two-thread programs up to a cap
    (beyond it: all three-pre-emption plans + a sample; reported in `preempt_exhaustive`);
    failing-input search (ctx.budget_factor > 1): all three-pre-emption plans + 1500 (original programs) / 400 (new programs) sampled
    two-pre-emption plans per program, programs in order, stops at the first violation."""
    from harness.props import c16
    impl = c16.Impl(ctx)
    old = sys.getswitchinterval()
    total = 0
    search = ctx.budget_factor > 1
    exh, sampled = [], []
    try:
        done = False
        for target in ("proc", "front"):
            ex = Explorer(impl, target)
            for pname, progs in PROGS:
                n, found, e = _explore_program(ctx, res, ex, target, pname, progs, target, full, budget // 2 if not full else budget, search,
                                               cap=1500 if search else None)
                total += n
                (exh if e else sampled).append("%s:%s" % (target, pname))
                if found and search:
                    done = True
                    break
            if done:
                break
        if not done:
            ex = Explorer(impl, None)
            for family, pname, progs in PROGS2:
                n, found, e = _explore_program(ctx, res, ex, family, pname, progs, None, full, max(12, budget // 4), search,
                                               cap=400 if search else THOROUGH_CAP_NEW)
                total += n
                (exh if e else sampled).append(pname)
                if found and search:
                    break
        res.extra["preempt_schedules"] = res.extra.get("preempt_schedules", 0) + total
        res.extra["preempt_programs"] = len(PROGS) * 2 + len(PROGS2)
        res.extra["preempt_budget"] = ("scheduling points = every bytecode of the watched code objects that is not frame-local "
                                       "(FRAME_LOCAL_OPS); quick: %d+%d sampled plans per original program and cache level, "
                                       "%d (+ as many three-pre-emption plans) per new program; thorough: all plans of the original "
                                       "programs, at most %d per new program (three-pre-emption plans first); failing-input search: "
                                       "1500 / 400 per program, stops at the first violation"
                                       % (budget // 2, budget // 2, max(12, budget // 4), THOROUGH_CAP_NEW))
        if full:
            res.extra["preempt_exhaustive"] = (
                "every schedule with at most two pre-emptions (A a points, B b points, A to the end, B to the end; and B first) and every "
                "three-pre-emption schedule in which B's call straddles two program items of A, at the granularity of every bytecode of "
                "memoize_when_activated's closures, Process.oneshot and oneshot_enter/exit that is not frame-local (FRAME_LOCAL_OPS), "
                "for the programs: %s; "
                "all three-pre-emption schedules + a sample of the others for: %s" % (", ".join(exh) or "-", ", ".join(sampled) or "-"))
    finally:
        sys.setswitchinterval(old)
        impl.close()
    return total


def replay(ctx, rp, res):
    from harness.props import c16
    p = rp["input"]["preempt"]
    impl = c16.Impl(ctx)
    try:
        ex = Explorer(impl, p.get("target"))
        out, logs, _, prob = ex.run(p["progs"], [tuple(x) for x in p["plan"]])
        return bool(prob or judge(logs))
    finally:
        impl.close()
