"""C16 — model-independent bounded-pre-emption exploration of oneshot() vs plain calls.

The scheduler of c16_sched.py follows the step sequence of the Lean model and therefore needs the
implementation to have the model's bytecode shape (LOAD_ATTR _cache / BINARY_SUBSCR / CALL /
STORE_SUBSCR …). A rewrite of memoize_when_activated makes it *drift*: that is a broken
correspondence, but not yet a failing input. This module is the failing-input search for that
case (and a cheap independent sample on every run): it makes no assumption about the shape of
the code. Two real threads run

    A (block owner):  enter oneshot() · call m · exit  [· enter · call m · exit]
    B (plain caller): call m

and a controller hands a baton between them at EVERY bytecode executed inside any code object
nested in `_common.memoize_when_activated` (wrapper, cache_activate, cache_deactivate and
whatever helper closures a refactor adds), inside `Process.oneshot` and inside the platform
`oneshot_enter/oneshot_exit`. Explored: every schedule with at most two pre-emptions,

    A runs a points · B runs b points · A runs to completion · B runs to completion      (AB)
    B runs b points · A runs a points · B runs to completion · A runs to completion      (BA)

for all (a, b) — quick tier: a stratified sample; search / thorough: all of them — and the
three-pre-emption schedules in which B's call straddles two program items of A

    A up to the start of item i · B runs b points · A up to the start of item j > i · B to completion · A to completion

for all (i, j, b) (always all of them: a plain call that begins in one block and ends in the next).

Oracle — written from the property statement only. The content version of every source is bumped at
every baton hand-over and at the start of every program item, so the version a call returns tells
in which epoch its source was read:
  * no call raises anything but a psutil error (spurious KeyError / AttributeError / RuntimeError …);
  * a call made by A inside its k-th block returns a version ≥ the version current when that block
    was entered (read in that block) and ≤ the version current at its return;
  * B's call returns a version ≤ the one current at its return and ≥ the smaller of (version at the
    start of B's call, version at the entry of any block of A that overlapped B's call) — the second
    term is the recorded finding C16-xthread-hit-predates-call (sharing the block's cache between
    threads is oneshot's design), accepted here so that only NEW violations are reported.
"""
import sys
import threading

from harness.props import c16_sched

PS_ERRORS = c16_sched.PS_ERRORS


def _nested_codes(code, acc):
    acc.add(code)
    for c in code.co_consts:
        if hasattr(c, "co_code") and c not in acc:
            _nested_codes(c, acc)
    return acc


class Explorer:
    def __init__(self, impl, target):
        c16_sched.ensure_opcode_tracing()
        self.impl = impl
        self.ps = impl.ps
        self.target_name = target
        self.meths = c16_sched.TARGETS[target]
        self.watched = set()
        _nested_codes(self.ps._common.memoize_when_activated.__code__, self.watched)
        self.watched.discard(self.ps._common.memoize_when_activated.__code__)
        one = self.ps.Process.oneshot
        self.watched.add(getattr(one, "__wrapped__", one).__code__)
        for nm in ("oneshot_enter", "oneshot_exit"):
            f = getattr(self.ps._psplatform.Process, nm, None)
            if f is not None:
                self.watched.add(f.__code__)

    # ---- worker side -------------------------------------------------------------------
    def _tracer(self, frame, event, arg):
        if event == "call" and frame.f_code in self.watched:
            frame.f_trace_opcodes = True
            return self._local
        return None

    def _local(self, frame, event, arg):
        if event == "opcode" and not self.free:
            self._point()
        return self._local

    def _point(self):
        tid = self.tids[threading.get_ident()]
        self.npoints[tid] += 1
        if self.budget[tid] is None:
            return
        if self.budget[tid] > 0:
            self.budget[tid] -= 1
            return
        # budget used up: hand the baton back and wait for the next grant
        self.parked[tid] = True
        self.ctrl.set()
        self.go[tid].wait()
        self.go[tid].clear()

    def _bump(self):
        self.version += 1
        for _, f in self.meths:
            self.impl.ver[f] = self.version
            self.impl._write(f)

    def _worker(self, tid, prog):
        self.tids[threading.get_ident()] = tid
        out = self.results[tid] = []
        log = self.log[tid] = []
        cms = []
        # wait for the first grant before doing anything
        self.parked[tid] = True
        self.ctrl.set()
        self.go[tid].wait()
        self.go[tid].clear()
        sys.settrace(self._tracer)
        try:
            for item in prog:
                self.item_points[tid].append(self.npoints[tid])
                self._bump()
                v0 = self.version
                if item[0] == "call":
                    meth = self.meths[item[1]][0]
                    o = self.impl.outcome(meth, getattr(self.impl.p, meth))
                    out.append(o)
                    log.append(("call", v0, self.version, o, len(cms)))
                elif item[0] == "enter":
                    cm = self.impl.p.oneshot()
                    try:
                        cm.__enter__()
                        cms.append(cm)
                        log.append(("enter", v0, self.version, None, len(cms)))
                    except BaseException as e:  # noqa: BLE001
                        o = {"kind": "exc", "exc": type(e).__name__, "at": "enter"}
                        out.append(o)
                        log.append(("enter", v0, self.version, o, len(cms)))
                elif item[0] == "exit":
                    o = None
                    if cms:
                        try:
                            cms.pop().__exit__(None, None, None)
                        except BaseException as e:  # noqa: BLE001
                            o = {"kind": "exc", "exc": type(e).__name__, "at": "exit"}
                            out.append(o)
                    log.append(("exit", v0, self.version, o, len(cms)))
        finally:
            sys.settrace(None)
            self.done[tid] = True
            self.parked[tid] = True
            self.ctrl.set()

    # ---- controller side ---------------------------------------------------------------
    def _grant(self, tid, n):
        """let thread `tid` run `n` watched bytecodes (None = to completion)"""
        if self.done[tid]:
            return
        self._bump()
        self.budget[tid] = n
        self.parked[tid] = False
        self.ctrl.clear()
        self.go[tid].set()
        while not self.parked[tid]:
            if not self.ctrl.wait(10.0):
                raise c16_sched.Drift("thread %d neither finished nor reached a scheduling point" % tid)
            self.ctrl.clear()

    def run(self, progs, plan):
        """plan: list of (tid, n|None). Returns (results per thread, logs per thread, points per thread, problem)."""
        self.impl.reset()
        self.version = 0
        self.free = False
        self.tids, self.results, self.log = {}, {}, {}
        self.go = {t: threading.Event() for t in range(len(progs))}
        self.parked = {t: False for t in range(len(progs))}
        self.done = {t: False for t in range(len(progs))}
        self.budget = {t: None for t in range(len(progs))}
        self.npoints = {t: 0 for t in range(len(progs))}
        self.item_points = {t: [] for t in range(len(progs))}
        self.ctrl = threading.Event()
        threads = [threading.Thread(target=self._worker, args=(t, p), daemon=True) for t, p in enumerate(progs)]
        problem = None
        try:
            for t, th in enumerate(threads):
                th.start()
                while not self.parked[t]:
                    self.ctrl.wait(10.0)
                    self.ctrl.clear()
            for tid, n in plan:
                self._grant(tid, n)
            for tid in range(len(progs)):
                self._grant(tid, None)
        except c16_sched.Drift as e:
            problem = str(e)
        finally:
            self.free = True
            for t in self.go:
                self.budget[t] = None
                self.go[t].set()
            for th in threads:
                th.join(10.0)
            if any(th.is_alive() for th in threads):
                problem = (problem or "") + " [a worker thread did not terminate]"
        return ({str(t): self.results.get(t, []) for t in range(len(progs))},
                {t: self.log.get(t, []) for t in range(len(progs))},
                {"n": dict(self.npoints), "items": {t: list(v) for t, v in self.item_points.items()}}, problem)


def judge(logs):
    """Returns a description of the first violated clause, or None."""
    a, b = logs.get(0, []), logs.get(1, [])
    for who, lg in ((0, a), (1, b)):
        for kind, v0, v1, o, depth in lg:
            if o is not None and o.get("kind") == "exc" and o.get("exc") not in PS_ERRORS:
                return "thread %d: %s raised a spurious %s" % (who, kind, o["exc"])
            if o is not None and o.get("kind") == "undecodable":
                return "thread %d: undecodable value %s" % (who, o.get("repr"))
    # A's blocks: (entry version, exit version)
    blocks = []
    cur = None
    for kind, v0, v1, o, depth in a:
        if kind == "enter" and o is None and cur is None:
            cur = v0
        elif kind == "exit" and cur is not None and depth == 0:
            blocks.append((cur, v1))
            cur = None
        elif kind == "call" and o and o.get("kind") == "ok":
            val = o["value"][0]
            lo = cur if cur is not None else v0
            if val is not None and not (lo <= val <= v1):
                return ("thread 0: a call %s a block entered at version %d returned version %d at version %d"
                        % ("inside" if cur is not None else "outside", lo, val, v1))
    if cur is not None:
        blocks.append((cur, 10 ** 9))
    for kind, v0, v1, o, depth in b:
        if kind == "call" and o and o.get("kind") == "ok":
            val = o["value"][0]
            lo = v0
            for (e0, e1) in blocks:
                if e0 <= v1 and e1 >= v0:          # the block overlapped B's call
                    lo = min(lo, e0)
            if val is not None and not (lo <= val <= v1):
                return "thread 1: a plain call made during versions %d..%d returned version %d (allowed from %d)" % (v0, v1, val, lo)
    return None


PROGS = [
    ("one_block", [[["enter"], ["call", 0], ["exit"]], [["call", 0]]]),
    ("two_blocks", [[["enter"], ["call", 0], ["exit"], ["enter"], ["call", 0], ["exit"]], [["call", 0]]]),
    ("empty_then_call", [[["enter"], ["exit"], ["enter"], ["call", 0], ["exit"]], [["call", 0]]]),
]


def plans(na, nb, a_items, full, rng, budget):
    """Plans (lists of (tid, points)); every plan is completed by "thread 0 to the end, thread 1 to the end".
    two pre-emptions:   A a · B b · A end · B end        and        B b · A a · B end · A end
    three pre-emptions: A up to the start of its i-th program item · B b · A up to the start of its j-th item (j > i) ·
                        B end · A end      (a plain call straddling the end of one block and the start of the next)
    All of them when `full`, else all three-pre-emption plans + a stratified sample of `budget` two-pre-emption plans."""
    two = [[(0, a), (1, b), (0, None), (1, None)] for a in range(na + 1) for b in range(nb + 1)]
    two += [[(1, b), (0, a), (1, None), (0, None)] for a in range(na + 1) for b in range(nb + 1)]
    three = [[(0, pi), (1, b), (0, pj - pi), (1, None), (0, None)]
             for i, pi in enumerate(a_items) for pj in a_items[i + 1:] + [na] for b in range(1, nb + 1)]
    if full or len(two) <= budget:
        return three + two
    three = [p for k, p in enumerate(three) if k % 3 == 0] if len(three) > budget else three
    keep = [p for p in two if p[0][1] % 7 == 0 and p[1][1] in (0, nb, na)]
    rest = [p for p in two if p not in keep]
    return three + keep + rng.sample(rest, max(0, min(len(rest), budget - len(keep))))


def explore(ctx, res, full=False, budget=400):
    """Runs the exploration; records a 'spec' disagreement for the first violating schedule of each program."""
    from harness.props import c16
    impl = c16.Impl(ctx)
    old = sys.getswitchinterval()
    total = 0
    try:
        for target in ("proc", "front"):
            ex = Explorer(impl, target)
            for pname, progs in PROGS:
                # dry runs: number of scheduling points of each thread when run alone
                _, _, pts, prob = ex.run(progs, [(0, None), (1, None)])
                if prob:
                    res.disagree("model", {"preempt": {"target": target, "progs": progs, "plan": "solo"}}, prob, None, None,
                                 note="bounded-pre-emption explorer could not run the programs: " + prob)
                    continue
                na, nb = pts["n"][0], pts["n"][1]
                # B's path is longer when it runs inside a block of A (lookup miss, compute, store): measure that too
                for st in pts["items"][0][1:]:
                    _, _, p2, _ = ex.run(progs, [(0, st), (1, None)])
                    nb = max(nb, p2["n"][1])
                found = False
                for plan in plans(na, nb, pts["items"][0], full, ctx.rng, budget):
                    out, logs, _, prob = ex.run(progs, plan)
                    total += 1
                    res.count("preempt:%s:%s:%d-switch" % (target, pname, len(plan) - 2))
                    res.case(("preempt", target, pname, plan), nontrivial=all(n is None or n > 0 for _, n in plan))
                    why = prob or judge(logs)
                    if why and not found:
                        found = True
                        res.disagree("spec", {"preempt": {"target": target, "progs": progs, "plan": plan,
                                                           "points": [na, nb], "program": pname}},
                                     {"results": out, "log": {str(k): v for k, v in logs.items()}}, None,
                                     {"clause": why},
                                     note="bounded-pre-emption exploration (model-independent oracle): " + why)
                        if not full:
                            break
        res.extra["preempt_schedules"] = res.extra.get("preempt_schedules", 0) + total
        if full:
            res.extra["preempt_exhaustive"] = ("every schedule with at most two pre-emptions (A a points, B b points, A to the end, B to the end; "
                                               "and B first) of %d programs on both cache levels, at the granularity of every bytecode of "
                                               "memoize_when_activated's closures, Process.oneshot and oneshot_enter/exit" % len(PROGS))
    finally:
        sys.setswitchinterval(old)
        impl.close()
    return total


def replay(ctx, rp, res):
    from harness.props import c16
    p = rp["input"]["preempt"]
    impl = c16.Impl(ctx)
    try:
        ex = Explorer(impl, p["target"])
        out, logs, _, prob = ex.run(p["progs"], [tuple(x) for x in p["plan"]])
        return bool(prob or judge(logs))
    finally:
        impl.close()
