"""C05 — children(), parent() and parents() describe the real process tree.

Model: lean/PsutilModel/Model/C05.lean (+C05Gen), Spec: Spec/C05.lean (+C05Stat), theorems: Props/C05.lean.

Correspondence: process tables (pid, ppid, start time) with arbitrary parent links — forests,
self-loops, 2-/3-cycles, unlisted parents, every ordering of start times incl. ties — are written
as a fake procfs (`/proc/<pid>/stat` with field 4 = ppid, field 22 = starttime, adversarial comm
names); the REAL `psutil.Process(pid).children()/children(recursive=True)/parent()/parents()` run
on it (front end → _pslinux.ppid_map/_parse_stat_file → the files) and are compared with the Lean
model and with the specification the driver prints alongside. Histories: the object is created on
one table, optionally `is_running()` sees a second one, the call sees a third, and the table may
change between `ppid_map()` and the per-child look-ups (processes vanishing / PIDs recycled while
the tree is walked). Small tables are enumerated exhaustively.
"""
import contextlib
import errno
import itertools
import os
import shutil
import signal

from harness.common.fakeproc import FakeProc, reset_psutil_state
from harness.common.shrink import ddmin
from harness.props import c05_facts

PROP = "C05"
DRIVER_MODULES = ["PsutilModel.Model.C05Gen", "PsutilModel.Spec.C05", "PsutilModel.Spec.C05Stat", "PsutilModel.Spec.C05Dyn"]
NEEDS_EXT = True
TRUSTED = [
    "C05 world: a call sees (a) the table when the caller's identity is checked and ppid_map() runs, (b) a possibly different table for the per-child look-ups; kernel events happen between psutil's file reads, not inside one (DESIGN §4.6). parent()/parents(): every look-up (identity check, own stat, Process(ppid)) of every step has its own world",
    "C05 times: create_time() is a float `starttime/CLOCK_TICKS + boot_time`; the model compares the integer starttime ticks. The harness checks on every run that this float map is strictly increasing over the tick range it uses",
    "C05 stat renderer (Spec/C05Stat.lean): transcription of the documented /proc/<pid>/stat layout; the Python renderer of the harness is checked byte-for-byte against it on every stat case",
    "C05 errors: a stat read is gone (no /proc/<pid>, or the directory still listed with its stat file gone) / unreadable (EACCES, injected at psutil's open_binary) / read; `Process(pid)` and the `create_time()` that follows are one look-up; the caller object is built on a readable stat; the ENOENT-then-zombie two-read race of wrap_exceptions (ZombieProcess) is not modelled (C03)",
    "C05 PID range (Spec/C05Range.lean): every PID the kernel hands out is below PID_MAX_LIMIT = 2^22 (proc(5) pid_max, include/linux/threads.h, 64-bit); sizeof(pid_t) is taken from the interpreter's build configuration (SIZEOF_PID_T) when the limit of the _Py_PARSE_PID conversion is computed",
    "C05 parents() while the table changes: the worlds of each look-up are those the harness recorded at its hooks (construction of _pslinux.Process, _proc.ppid()); inside oneshot() a stat memo filled by another method is handed to the model as the table that method ran on (PStep.withStatMemo)",
]
ASSUMPTIONS = [
    "listed PIDs are unique; a vanished process is a missing /proc/<pid> or a listed /proc/<pid> without stat file; an unreadable stat file exists but its open raises EACCES",
    "parent()/parents(): `_LOWEST_PID`, once cached, is still the lowest listed PID (true on every real system: PID 1/0 never goes away); cases with a stale cache are compared with the model only",
    "int()/float() of a stat token are modelled for the decimal tokens the kernel writes",
]
MANIFEST = {
    "level_text": "Machine-checked Lean 4 proofs over a transcription of ppid_map()/children()/parent()/parents()/_raise_if_pid_reused(): for EVERY ppid map and every start-time assignment (forests, self-loops, cycles, unlisted parents, ties) children() is exactly the set of listed processes whose parent link is the caller and that are not older than it, children(recursive=True) is exactly the inductive reachability closure minus the caller, each PID once (C05_children_exact, C05_children_rec_exact, C05_nodup, C05_not_self, C05_no_older), the walk terminates on any graph (C05_terminates: a proved fuel bound; without the `seen` guard divergence is proved), parent()/parents() equal psutil's reading 'named by ppid() unless younger, and the lowest listed PID has no parent' (C05_parent_spec, C05_parents_chain, C05_parents_terminates: a CHARACTERISATION of the code) and equal the LITERAL statement (parentLit/ChainLit: no lowest-PID rule) exactly off the region where the lowest listed PID shows a parent (C05_parent_literal, C05_parents_literal; counterexample C05_lowest_pid_parent_counterexample = known finding C05-lowest-pid-parent), a caller whose incarnation is gone or whose PID was recycled gets NoSuchProcess whatever the object saw before — children() at full strength (C05_dead_caller_NSP, C05_recycled_caller_NSP), parent()/parents() at full strength too since /repo d7107b4 (fixes/C05-parent-root-recycled.diff: the lowest-PID stop of parent() checks the caller's identity before it answers None): fact rootGuarded pinned by the obligation cfg_root_guarded, C05_recycled_caller_NSP_parent_full and C05_dead_caller_NSP_X_parent_full hold for EVERY recycled/dead caller, the lowest listed PID included; what the unguarded stop did (None/[] for a recycled caller that is the lowest listed PID) is kept as a what-if for that configuration (C05_recycled_lowest_pid_counterexample, C05_recycled_lowest_pid_unguarded; former finding C05-recycled-lowest-pid, now a fixed: line whose witness is replayed on every run), and both stat readers recover ppid/starttime for every comm byte string (C05_stat_roundtrip). Richer world (Model/C05Dyn): any set of other processes with an unreadable or vanished stat file is left out and never fails children() (C05_unreadable_left_out[_rec], C05_unreadable_never_returned; false without the hypothesis that readable processes stay readable during the walk: C05_unreadable_mid_walk_counterexample), zombies are processes like any other (a modelling decision recorded as C05_model_state_letter_unread[_parents]; the code's zombie paths are tied by the correspondence only), parents() over ANY sequence of worlds — ancestors exiting, reaped, recycled, re-parented between two parent() calls — is the step-wise chain (C05_parents_dyn_spec), each element the parent of the previous one when looked up, never younger, no PID twice (C05_parents_dyn_links), terminating within |PIDs|+2 iterations (C05_parents_dyn_terminates), ending with NoSuchProcess at an element that is no longer itself (C05_parent_dyn_dead_NSP); inside oneshot() a cached ppid is answered without identity check (model lemma C05_model_oneshot_cache_hit), while a stat memo filled by another method still goes through the identity check (C05_oneshot_statmemo_parent). Round 3: the rich model of parent()/parents() is proved equal to the plain one on constant readable tables for every configuration (C05_static_parent_refines, C05_static_parents_refines; formerly a run-time flag); a recycled caller gets NoSuchProcess whatever is unreadable — the new owner included (C05_dead_caller_NSP_X, C05_recycled_caller_NSP_X[_parent], C05_parents_dyn_dead_NSP); with NO hypothesis on the look-up world a value returned by children() is exact and the only other outcome is AccessDenied(c) for a process c that turned unreadable (C05_children_value_exact, C05_children_outcomes); a value returned by parent() is the right one in any worlds (C05_parent_dyn_sound). Audit round: completeness of parents() while the table changes against the literal chain (C05_parent_dyn_literal, C05_parents_dyn_literal); SEQUENCES of calls on one object (Model/C05Seq): while the incarnation lives no call changes the object, so every single-call theorem holds for the n-th call (C05_seq_object_unchanged, C05_seq_children_exact), flags are only set by a call that saw it dead (C05_seq_flags_sound), a dead object stays dead (C05_seq_dead_stays_dead); the ORDER of children() is unspecified (a set) and characterised (C05_children_order_flat, C05_children_order_docstring: the docstring's order is not the code's). The model is tied to the code by translator facts (the three `<=`, the seen guard, the own-PID drop, the parents() cycle stop, the identity pre-checks incl. the `_gone` test, the lowest-PID stop, rfind/index facts, the except tuple of ppid_map(), POSIX ppid() uncached, create_time() cached, the range gate of Process(pid); 25 facts, extractors total and independent) feeding the proof obligations cfg_good/scfg_good/xcfg_good/ocfg_good/rcfg_good, and by a differential run of the real methods over fake procfs tables, random and exhaustive, incl. histories of several calls on one object and the unsorted order of children(). Seeded round 5 (PID magnitude): every look-up through a new Process object passes the range gate of Process(pid) (Model/C05Range: Process._init -> cext.check_pid_range -> OverflowError -> NoSuchProcess; facts checkPidRangeLimit / checkPidRangeShapeKnown read off psutil/_psutil_common.c for the Linux build, initRangeOnlyC off Process._init; obligation rcfg_good: nothing below PID_MAX_LIMIT = 2^22 is refused and the translator has read every use of `pid`); under it the gated walkers are the walkers above on every table whose PIDs lie anywhere in the kernel's range (C05_range_gate_transparent, C05_range_children_refines, C05_range_parents_refines), so the clauses hold for PIDs of any magnitude (C05_range_listed_opens, C05_range_children_exact, C05_range_children_rec_exact, C05_range_parent_spec, C05_range_parents_chain); any smaller limit refuses a listed process (C05_range_limit_necessary; C05_range_small_limit_counterexample = seeded C05-7: limit 262144 drops child 300000 and its subtree, parent() of its child is None). The driver's model runs through the gate with the extracted limit, the specification never looks at a PID's magnitude; the correspondence relabels cases of every other family into the whole range [1, 2^22) in six ways and sweeps 57 boundary PIDs through the five roles of a tree.",
    "level_note": "Trusted: Lean kernel + {propext, Classical.choice, Quot.sound}; the translator; the correspondence harness; float create_time modelled by integer ticks (monotonicity checked at run time); atomic file reads; Process(pid)+create_time() as one look-up. The specification is silent (model-only comparison) about WHICH exception an unreadable stat file on the path of parent()/parents() produces, about a caller whose own stat file is unreadable while it is still the same incarnation (a recycled unreadable caller must get NoSuchProcess), and on a oneshot ppid() cache hit; for processes turning unreadable during the walk of children() the specification is the exact value or AccessDenied(that process). The specification of parent()/parents() is the LITERAL statement; inside the region of the known finding C05-lowest-pid-parent (the lowest listed PID shows a parent) the check accepts exactly psutil's reading and still requires equality with the Lean model; the region of the former finding C05-recycled-lowest-pid (dead caller that is the lowest listed PID; fixed in /repo d7107b4) is no longer tolerated: an implementation that answers None/[] there is a violation with a concrete replay. The order of children()'s list is compared with the model only (unspecified by the statement). The zombie paths of the code (wrap_exceptions/_raise_if_zombie) and @memoize_when_activated are not in the model (correspondence only).",
    "technique": "Lean 4 proof (DFS invariant + fuel bound, induction over the reachability relation, case analysis) + translator-fed proof obligations + differential correspondence on fake procfs with exhaustive small tables",
    "design_ref": "DESIGN.md §5 C05",
}

BOOT = 1000.0
MAX_TICKS = 4096

# Known findings of parent()/parents() (findings/C05.json). The driver prints three readings of the statement:
#   spec        literal: the process named by ppid() unless younger; a dead caller gets NoSuchProcess whatever its PID
#   spec_stop   the same with psutil's rule "the lowest listed PID has no parent" (applied after the identity check)
#   spec_found  …with that rule applied BEFORE the identity check (psutil before /repo d7107b4)
# Region of FINDING_ROOT_PARENT = inputs on which spec_stop differs from spec (the lowest listed PID shows a parent and
# the call gets to it); region of FINDING_ROOT_RECYCLED = inputs on which spec_found differs from spec_stop (the caller
# is dead AND its PID is the lowest listed one). Inside a region the implementation must give exactly the literal
# value or that region's reading; everywhere the implementation must equal the Lean model.
# C05-recycled-lowest-pid is FIXED (/repo d7107b4, `fixed:` line in findings/C05.json): the tag below suppresses nothing
# any more (runner: a tag that is not listed as known counts as a violation) — it only names the region in the replay note.
FINDING_ROOT_PARENT = "C05-lowest-pid-parent"
FINDING_ROOT_RECYCLED = "C05-recycled-lowest-pid"


def spec_verdict(obs, m, accept=None):
    """→ None (obs is the literal specification) | finding id (obs is the accepted deviation of that finding's
    region) | "spec" (a failing input)"""
    sp = m["spec"]
    if obs == sp or (accept is not None and accept(obs)):
        return None
    ss = m.get("spec_stop", sp)
    sf = m.get("spec_found", ss)
    if ss is not None and ss != sp and obs == ss:
        return FINDING_ROOT_PARENT
    if sf is not None and sf != ss and obs == sf:
        return FINDING_ROOT_RECYCLED
    return "spec"


def regions_of(m):
    sp = m["spec"]
    ss = m.get("spec_stop", sp)
    sf = m.get("spec_found", ss)
    out = []
    if sp is not None and ss is not None and ss != sp:
        out.append(FINDING_ROOT_PARENT)
    if ss is not None and sf is not None and sf != ss:
        out.append(FINDING_ROOT_RECYCLED)
    return out

facts = c05_facts.facts


# ------------------------------------------------------------------------------ fake procfs

PRE = [b"%d" % x for x in (11, 12, 34816, 13, 4194560, 101, 0, 3, 0, 7, 9, 0, 0, 20, 0, 1, 0)]        # fields 5..21
POST = [b"%d" % x for x in (10485760, 250, 18446744073709551615, 1, 1, 0, 0, 0, 0, 0, 0, 0, 0, 0, 17, 3,
                             0, 0, 0, 0, 0, 0, 0, 0, 0, 0, 0, 0, 0, 0)]                                # fields 23..52
COMMS = [b"x", b"a b", b"a) S 999 (", b"((", b"))", b") 1 2 3 4", b"\n) R 7 ", b"kworker/0:1", b") (", b"", b"p)\t5"]


def comm_of(pid):
    return COMMS[(pid * 7 + 3) % len(COMMS)]


def state_of(pid):
    return [b"S", b"R", b"Z", b"D", b"S", b"I", b"T"][pid % 7]      # zombies are listed processes too


def row_state(row):
    """state letter of a row: plain rows [pid, ppid, start] keep the per-PID letter; rows of the richer
    world carry "R" (any non-zombie letter), "Z" (zombie) or "X" (stat unreadable; letter irrelevant)"""
    if len(row) < 4:
        return state_of(row[0])
    if row[3] == "Z":
        return b"Z"
    st = state_of(row[0])
    return b"S" if st == b"Z" else st


def render_stat(pid, comm, state, ppid, pre, start, post):
    return b"%d (%s) %s" % (pid, comm, b" ".join([state, b"%d" % ppid] + list(pre) + [b"%d" % start] + list(post))) + b"\n"


class _Budget(BaseException):
    """raised inside the implementation when it exceeds its step budget (observable: diverged)"""


class Impl:
    def __init__(self, ctx):
        self.ps = ctx.psutil
        self.plat = self.ps._psplatform
        self.fp = FakeProc(self.ps, prefix="psv-c05-")
        self.cur = {}
        self.ticks = self.plat.CLOCK_TICKS
        self.fp.write("stat", b"cpu  1 2 3 4 5 6 7 8 9 10\nbtime %d\n" % int(BOOT))
        self.real_ppid_map = self.ps._ppid_map
        self.RealProc = self.plat.Process
        self.real_parent = self.ps.Process.parent
        self.counter = [0, None]
        outer = self

        class Counting(self.RealProc):
            __slots__ = ()

            def __init__(self, pid):
                c = outer.counter
                c[0] += 1
                if c[1] is not None and c[0] > c[1]:
                    raise _Budget()
                if outer.after_snapshot:
                    # the k-th look-up after ppid_map(): first let the scheduled kernel events happen,
                    # then remember in which state this PID is examined
                    outer.lookup_no += 1
                    for ev in outer.events.pop(outer.lookup_no, []):
                        outer.apply_event(ev)
                    outer.lookups.setdefault(pid, outer.cur_rows.get(pid))
                if outer.hook_mode == "parents":
                    outer.hook("construct")
                super().__init__(pid)

            def ppid(self):
                # `self._proc.ppid()`: the own-stat read of Process.ppid()
                if outer.hook_mode == "parents":
                    outer.hook("own")
                return super().ppid()
        self.Counting = Counting
        self.hook_mode = None
        self.expect = "id"
        self.steps = []
        # unreadable stat files (EACCES): the harness runs as root, so the refusal is injected at
        # psutil's own open helper (both the name _pslinux imported and the one bcat() looks up)
        self.denied_paths = set()
        self.real_open_common = self.ps._common.open_binary
        self.real_open_plat = self.plat.open_binary
        real_open = self.real_open_common

        def open_binary(fname):
            if fname in outer.denied_paths:
                raise PermissionError(errno.EACCES, "Permission denied", fname)
            return real_open(fname)
        self.ps._common.open_binary = open_binary
        self.plat.open_binary = open_binary
        self.after_snapshot = False
        self.lookup_no = 0
        self.events = {}
        self.lookups = {}
        self.cur_rows = {}
        self.monotone_ok = self._check_monotone()

    def _check_monotone(self):
        prev = None
        for t in range(0, MAX_TICKS + 1):
            v = (float(t) / self.ticks) + BOOT
            if prev is not None and not (prev < v):
                return False
            if round((v - BOOT) * self.ticks) != t:
                return False
            prev = v
        return True

    def hook(self, kind):
        """one look-up of parent()/parents(): let the scheduled kernel events happen, then record the
        table this look-up sees. kinds in order per parent() call: identity check (`Process(self.pid)`
        inside is_running()), own stat (`_proc.ppid()`), parent (`Process(ppid)`)."""
        self.lookup_no += 1
        for ev in self.events.pop(self.lookup_no, []):
            self.apply_event(ev)
        snap = [list(r) for r in self.cur_rows.values()]
        if kind == "own":
            if not self.steps or "own" in self.steps[-1] or "par" in self.steps[-1]:
                self.steps.append({})
            self.steps[-1]["own"] = snap
            self.expect = "par"
        elif self.expect == "par" and self.steps and "par" not in self.steps[-1]:
            self.steps[-1]["par"] = snap
            self.expect = "id"
        else:
            self.steps.append({"id": snap})
            self.expect = "id"

    def close(self):
        self.ps._common.open_binary = self.real_open_common
        self.plat.open_binary = self.real_open_plat
        self.ps._ppid_map = self.real_ppid_map
        self.plat.Process = self.RealProc
        self.ps.Process.parent = self.real_parent
        signal.setitimer(signal.ITIMER_PROF, 0)
        self.fp.close()

    # ---- table on disk
    def set_table(self, rows):
        want = {}
        self.cur_rows = {}
        self.denied_paths = set()
        for row in rows:
            pid, ppid, start = row[:3]
            # "G": /proc/<pid> is still listed, its stat file is gone (the process is exiting)
            want[pid] = None if (len(row) > 3 and row[3] == "G") else \
                render_stat(pid, comm_of(pid), row_state(row), ppid, PRE, start, POST)
            self.cur_rows[pid] = list(row)
            if len(row) > 3 and row[3] == "X":
                self.denied_paths.add("%s/%d/stat" % (self.fp.root, pid))
        for pid in [p for p in self.cur if p not in want]:
            shutil.rmtree(self.fp.path(str(pid)), ignore_errors=True)
            del self.cur[pid]
        for pid, data in want.items():
            if data is None:
                self._listed_gone(pid)
            elif self.cur.get(pid) != data:
                self.fp.write("%d/stat" % pid, data)
                self.cur[pid] = data

    def _listed_gone(self, pid):
        if pid in self.cur and self.cur[pid] is None:
            return
        os.makedirs(self.fp.path(str(pid)), exist_ok=True)
        try:
            os.unlink(self.fp.path("%d/stat" % pid))
        except FileNotFoundError:
            pass
        self.cur[pid] = None

    def apply_event(self, ev):
        """one kernel event while the tree is walked: [pid, None] = the process exits,
        [pid, [pid, ppid, start]] = the PID now belongs to this (new) process"""
        pid, row = ev
        self.denied_paths.discard("%s/%d/stat" % (self.fp.root, pid))
        if row is None:
            shutil.rmtree(self.fp.path(str(pid)), ignore_errors=True)
            self.cur.pop(pid, None)
            self.cur_rows.pop(pid, None)
        elif len(row) > 3 and row[3] == "G":
            self._listed_gone(pid)
            self.cur_rows[pid] = list(row)
        else:
            data = render_stat(pid, comm_of(pid), row_state(row), row[1], PRE, row[2], POST)
            self.fp.write("%d/stat" % pid, data)
            self.cur[pid] = data
            self.cur_rows[pid] = list(row)
            if len(row) > 3 and row[3] == "X":
                self.denied_paths.add("%s/%d/stat" % (self.fp.root, pid))

    def to_ticks(self, ct):
        return int(round((ct - BOOT) * self.ticks))

    def exc(self, e):
        d = {"kind": "exc", "exc": type(e).__name__}
        if isinstance(e, self.ps.Error) and getattr(e, "pid", None) is not None:
            d["pid"] = e.pid
        return d

    def _pids(self):
        try:
            self.ps.pids()
        except Exception:
            pass

    def _listed(self, rows):
        """the rows in the order os.listdir() lists them now (ppid_map() fills its dict in that order and the order of
        children()'s result follows it); None when the directory does not show exactly these PIDs"""
        try:
            order = [int(x) for x in os.listdir(self.fp.root) if x.isdigit()]
        except OSError:
            return None
        by = {r[0]: r for r in rows}
        if sorted(order) != sorted(by):
            return None
        return [list(by[q]) for q in order]

    def plain_call(self, p, call):
        """one call of a history on a constant table → its observable (same canonical form as the final call;
        children: + the unsorted PID order)"""
        def on_alarm(*a):
            raise _Budget()
        old = signal.signal(signal.SIGPROF, on_alarm)
        signal.setitimer(signal.ITIMER_PROF, 20.0)
        try:
            if call == "is_running":
                return bool(p.is_running())
            if call in ("children", "children_rec"):
                ret = p.children(recursive=(call == "children_rec"))
                return {"kind": "ok", "procs": sorted([c.pid, self.to_ticks(c.create_time())] for c in ret),
                        "order": [c.pid for c in ret]}
            if call == "parent":
                r = p.parent()
                return {"kind": "ok", "parent": None if r is None else [r.pid, self.to_ticks(r.create_time())]}
            if call == "parents":
                return {"kind": "ok", "chain": [[q.pid, self.to_ticks(q.create_time())] for q in p.parents()]}
            raise ValueError(call)
        except _Budget:
            return {"kind": "diverged"}
        except Exception as e:
            return self.exc(e)
        finally:
            signal.setitimer(signal.ITIMER_PROF, 0)
            signal.signal(signal.SIGPROF, old)

    # ---- one case
    def run_case(self, case):
        """→ (observable, running, extra)"""
        ps = self.ps
        reset_psutil_state(ps)
        self.plat.BOOT_TIME = BOOT
        extra = {}
        if case.get("iter") is not None:
            # an earlier, fully consumed process_iter() on another table: fills psutil._pmap with
            # Process objects of whoever owned the PIDs THEN (and caches _LOWEST_PID)
            self.set_table(case["iter"])
            try:
                extra["iterated"] = sorted(q.pid for q in ps.process_iter())
            except Exception as e:
                extra["iterated"] = type(e).__name__
        dyn = case.get("op") == "dyn"
        if dyn:
            # the caller's own `_proc` must be the hooked class too (its ppid() read is a look-up)
            self.counter[0], self.counter[1] = 0, None
            self.hook_mode = None
            self.plat.Process = self.Counting
        self.set_table(case["mk"])
        try:
            if case.get("via_iter"):
                # the object psutil.process_iter() yields (and keeps in psutil._pmap)
                p = [q for q in ps.process_iter() if q.pid == case["pid"]][0]
                extra["in_pmap"] = ps._pmap.get(case["pid"]) is p
            else:
                p = ps.Process(case["pid"])
        except Exception as e:
            self.plat.Process = self.RealProc
            # the object cannot be built although its PID is listed in `mk`: an observable of its own (the range gate of
            # Process(pid), Model/C05Range.lean) — never a harness error
            return dict(self.exc(e), at="construct"), None, extra
        if case.get("pids_call") == "mk":
            self._pids()
        running = None
        if case.get("mid") is not None:
            self.set_table(case["mid"])
            try:
                running = bool(p.is_running())
            except Exception as e:
                running = self.exc(e)
        if case.get("pre"):
            # EARLIER CALLS ON THE SAME OBJECT, each on its own (constant) table
            extra["pre_obs"], extra["pre_listed"] = [], []
            for pcall, prows in case["pre"]:
                self.set_table(prows)
                extra["pre_listed"].append(self._listed(prows))
                extra["pre_obs"].append(self.plain_call(p, pcall))
        self.set_table(case["t0"])
        if case.get("pids_call") == "t0":
            self._pids()
        extra["lowest"] = ps._LOWEST_PID
        # the caller's start time: what the table it was built on says (not the object's cache, which a changed
        # create_time() might no longer fill)
        me_ticks = next((r[2] for r in case["mk"] if r[0] == case["pid"]), None)
        call = case["call"]
        n = max(len(case["t0"]), len(case.get("t1") or []))
        self.counter[0] = 0
        self.counter[1] = 4 * n + 16
        self.plat.Process = self.Counting
        calls = [0]
        fuel = len(case["t0"]) + 2
        if call == "parents":
            real_parent = self.real_parent

            def counted(obj):
                calls[0] += 1
                if calls[0] > fuel:
                    raise _Budget()
                return real_parent(obj)
            ps.Process.parent = counted
        self.after_snapshot = False
        self.lookup_no = 0
        self.lookups = {}
        self.events = {}
        self.steps = []
        self.expect = "id"
        oneshot = case.get("oneshot") if dyn else None
        cm = p.oneshot() if oneshot is not None else contextlib.nullcontext()
        cm.__enter__()
        if oneshot is not None and oneshot != "fresh":
            # an earlier p.ppid() inside the block, on the table `oneshot`: fills the memoised ppid
            self.set_table(oneshot)
            try:
                extra["prefill"] = p.ppid()
            except Exception as e:
                extra["prefill"] = type(e).__name__
            self.set_table(case["t0"])
            cached = isinstance(extra["prefill"], int)
            self.expect = "par" if cached else "id"
            if cached:
                self.steps = [{}]
        memo = case.get("statmemo_via") if dyn else None
        if memo is not None and oneshot is not None:
            # ANOTHER stat-based method runs first inside the block, on the table `statmemo`: it fills the
            # memoised _parse_stat_file() of the caller's platform object; ppid() itself is not called
            self.set_table(case["statmemo"])
            try:
                getattr(p, memo)()
                extra["statmemo"] = "filled"
            except Exception as e:
                extra["statmemo"] = type(e).__name__
            self.set_table(case["t0"])
        if dyn and call in ("parent", "parents"):
            fuel = len(case["t0"]) + len(case.get("events") or []) + 2
            for k, pid_, row in case.get("events") or []:
                self.events.setdefault(k, []).append([pid_, row])
            self.hook_mode = "parents"
        if call in ("children", "children_rec") and case.get("events"):
            for k, pid_, row in case["events"]:
                self.events.setdefault(k, []).append([pid_, row])

            def snap_dyn():
                r = self.real_ppid_map()
                self.after_snapshot = True
                return r
            ps._ppid_map = snap_dyn
        elif call in ("children", "children_rec") and case.get("t1") is not None:
            t1 = case["t1"]

            def snap():
                r = self.real_ppid_map()
                self.set_table(t1)
                return r
            ps._ppid_map = snap

        if call in ("children", "children_rec"):
            # ppid_map() fills its dict in os.listdir() order and the walk follows it: which of two unreadable
            # processes is met first (AccessDenied(pid)), and the ORDER of the result, depend on it, so the model gets
            # the rows in that order
            listed = self._listed(case["t0"])
            if listed is not None:
                extra["t0_listed"] = listed

        def on_alarm(*a):
            raise _Budget()
        # last-resort guard behind the step budgets: 20 s of CPU time of this process (a busy loop burns CPU;
        # wall-clock time would turn an overloaded machine into spurious `diverged` observations)
        old = signal.signal(signal.SIGPROF, on_alarm)
        signal.setitimer(signal.ITIMER_PROF, 20.0)
        try:
            if call == "children" or call == "children_rec":
                # every spelling of the argument: the default, keyword and positional forms
                style = (case["pid"] + len(case["t0"])) % 3
                if call == "children":
                    ret = p.children() if style != 2 else p.children(recursive=False)
                else:
                    ret = p.children(recursive=True) if style != 2 else p.children(True)
                extra["call_style"] = ("default" if style != 2 else "recursive=False") if call == "children" else \
                    ("recursive=True" if style != 2 else "positional True")
                signal.setitimer(signal.ITIMER_PROF, 0)
                self.counter[1] = None
                # every returned object as [pid, its create_time in ticks]: it must be the incarnation listed NOW
                obs = {"kind": "ok", "procs": sorted([c.pid, self.to_ticks(c.create_time())] for c in ret)}
                extra["order"] = [c.pid for c in ret]
                older = []
                for c in ret:
                    try:
                        if me_ticks is not None and self.to_ticks(c.create_time()) < me_ticks:
                            older.append(c.pid)
                    except Exception:
                        pass
                extra["older"] = older
            elif call == "parent":
                r = p.parent()
                signal.setitimer(signal.ITIMER_PROF, 0)
                self.counter[1] = None
                obs = {"kind": "ok", "parent": None if r is None else [r.pid, self.to_ticks(r.create_time())]}
            elif call == "parents":
                r = p.parents()
                signal.setitimer(signal.ITIMER_PROF, 0)
                self.counter[1] = None
                obs = {"kind": "ok", "chain": [[q.pid, self.to_ticks(q.create_time())] for q in r]}
            else:
                raise ValueError(call)
        except _Budget:
            obs = {"kind": "diverged"}
        except Exception as e:  # every exception is an observable
            obs = self.exc(e)
        finally:
            signal.setitimer(signal.ITIMER_PROF, 0)
            signal.signal(signal.SIGPROF, old)
            self.counter[1] = None
            self.after_snapshot = False
            self.hook_mode = None
            try:
                cm.__exit__(None, None, None)
            except Exception:
                pass
            self.plat.Process = self.RealProc
            ps.Process.parent = self.real_parent
            ps._ppid_map = self.real_ppid_map
        if dyn and call in ("parent", "parents"):
            final = [list(r) for r in self.cur_rows.values()]
            extra["steps"] = [[st.get("id", final), st.get("own", final), st.get("par", final)] for st in self.steps] or None
        elif case.get("events"):
            # the world in which each PID was examined: its state at its own look-up
            # (PIDs never examined: their final state — irrelevant to the result)
            t1 = []
            pids = [r[0] for r in case["t0"]] + [e[1] for e in case["events"]]
            for pid_ in dict.fromkeys(pids):
                row = self.lookups[pid_] if pid_ in self.lookups else self.cur_rows.get(pid_)
                if row is not None:
                    t1.append(list(row))
            extra["t1"] = t1
        return obs, running, extra

    # ---- one stat line
    def run_stat(self, pid, data):
        ps = self.ps
        reset_psutil_state(ps)
        self.plat.BOOT_TIME = BOOT
        self.set_table([])
        self.fp.write("%d/stat" % pid, data)
        self.cur[pid] = data
        out = {}
        try:
            m = self.plat.ppid_map()
            out["map"] = {"kind": "ok", "value": m[pid]} if pid in m else {"kind": "missing"}
        except Exception as e:
            out["map"] = self.exc(e)
        try:
            out["ppid"] = {"kind": "ok", "value": ps.Process(pid).ppid()}
        except Exception as e:
            out["ppid"] = self.exc(e)
        try:
            out["ctime"] = {"kind": "ok", "value": self.to_ticks(ps.Process(pid).create_time())}
        except Exception as e:
            out["ctime"] = self.exc(e)
        return out


# ------------------------------------------------------------------------------ generators

CALLS = ["children", "children_rec", "parent", "parents"]


def weak_orders(k):
    """all start-time assignments of k items up to order-isomorphism (ordered set partitions)."""
    out = []
    for vals in itertools.product(range(k), repeat=k):
        used = sorted(set(vals))
        if used == list(range(len(used))):
            out.append(vals)
    return out


def gen_table(rng, family):
    """→ rows [[pid, ppid, start], …] (pids unique)"""
    if family == "large":
        n = rng.randrange(12, 41)
    else:
        n = rng.randrange(2, 9)
    pool = rng.sample(range(1, 60), n)
    span = rng.choice([1, 2, 3, n, 4 * n])          # small span → many ties
    start = {p: rng.randrange(0, span + 1) for p in pool}
    ppid = {}
    if family in ("forest", "large"):
        order = list(pool)
        for i, p in enumerate(order):
            if i == 0 or rng.random() < 0.15:
                ppid[p] = rng.choice([0, 0, 99, 1])
            else:
                ppid[p] = rng.choice(order[:i])
        if rng.random() < 0.6:                      # consistent start times: parents not younger
            for i, p in enumerate(order):
                if ppid[p] in start:
                    start[p] = max(start[p], start[ppid[p]] + rng.choice([0, 0, 1, 2]))
    elif family == "cycle":
        for p in pool:
            ppid[p] = rng.choice(pool + [0])
        k = rng.choice([1, 2, 2, 3, 3, 4])
        cyc = pool[:min(k, n)]
        for i, p in enumerate(cyc):
            ppid[p] = cyc[(i + 1) % len(cyc)]
        if rng.random() < 0.7:
            s = rng.randrange(0, span + 1)
            for p in cyc:
                start[p] = s
        # tails hanging below the cycle
        for p in pool[len(cyc):]:
            if rng.random() < 0.6:
                ppid[p] = rng.choice(pool)
    elif family == "selfloop":
        for p in pool:
            ppid[p] = rng.choice(pool + [0])
        for p in rng.sample(pool, rng.randrange(1, min(3, n) + 1)):
            ppid[p] = p
        if rng.random() < 0.5:
            ppid[min(pool)] = min(pool)
    elif family == "unlisted":
        for p in pool:
            ppid[p] = rng.choice(pool + [0, 0, 61, 62, 63])
    else:  # random
        for p in pool:
            ppid[p] = rng.choice(pool + [0])
    rows = [[p, ppid[p], min(start[p], MAX_TICKS)] for p in pool]
    rng.shuffle(rows)
    return rows


def pick_callers(rng, rows, k=2):
    pids = [r[0] for r in rows]
    pp = {r[0]: r[1] for r in rows}
    interesting = [p for p in pids if pp[p] == p or pp.get(pp[p]) == p or any(pp[q] == p for q in pids)]
    out = []
    if interesting:
        out.append(rng.choice(interesting))
    while len(out) < min(k, len(pids)):
        c = rng.choice(pids)
        if c not in out:
            out.append(c)
    return out


def min_pid(rows):
    return min(r[0] for r in rows) if rows else None


def calc_lowest(case):
    """what psutil._LOWEST_PID holds when the call starts: the last successful psutil.pids() wins
    (process_iter() calls it; on an empty listing pids() raises before storing anything)"""
    lowest = None
    if case.get("iter"):
        lowest = min_pid(case["iter"])
    if case.get("pids_call") == "mk" and case["mk"]:
        lowest = min_pid(case["mk"])
    for pcall, prows in case.get("pre") or []:
        # parent() (also the first one inside parents()) calls pids() only while _LOWEST_PID is unset
        if pcall in ("parent", "parents") and lowest is None and prows:
            lowest = min_pid(prows)
    if case.get("pids_call") == "t0" and case["t0"]:
        lowest = min_pid(case["t0"])
    return lowest


def calc_lowest0(case):
    """_LOWEST_PID before the earlier calls of a history (`pre`)"""
    c = dict(case, pre=None, pids_call=(case.get("pids_call") if case.get("pids_call") == "mk" else None))
    return calc_lowest(c)


def mk_case(call, pid, t0, mk=None, mid=None, t1=None, pids_call=None, family="", events=None, it=None, pre=None):
    mk = t0 if mk is None else mk
    c = {"op": "tree", "call": call, "pid": pid, "mk": mk, "mid": mid, "lowest": None, "t0": t0, "t1": t1,
         "pids_call": pids_call, "family": family}
    if events:
        c["events"] = events
    if it is not None:
        c["iter"] = it
    if pre:
        c["pre"] = [[pc, [list(r) for r in pt]] for pc, pt in pre]
        c["lowest0"] = calc_lowest0(c)
    c["lowest"] = calc_lowest(c)
    return c


def older_table(rng, rows, keep):
    """the table as it was when process_iter() ran: same PIDs mostly, but other owners — other
    start times (older and younger), other parents, some PIDs not there yet, some extra ones.
    Rows of PIDs in `keep` are left alone."""
    pids = [r[0] for r in rows]
    hi = max([r[2] for r in rows] + [1])
    out = []
    for r in rows:
        if r[0] in keep:
            out.append(list(r))
            continue
        x = rng.random()
        if x < 0.15:
            continue                                             # not running yet
        if x < 0.75:
            st = rng.choice([0, max(0, r[2] - 1), r[2] + 1, hi + 2, rng.randrange(0, hi + 3)])
            out.append([r[0], rng.choice(pids + [0, r[1]]), st])  # previous owner of the PID
        else:
            out.append(list(r))
    if rng.random() < 0.3:
        out.append([rng.choice([60, 61, 62]), rng.choice(pids + [0]), rng.randrange(0, hi + 2)])
    return out


def history_variants(rng, rows, pid, family):
    """clause-directed histories around one table/caller: → list of (mk, mid, t0, t1, pids_call, tag)"""
    out = []
    row = {r[0]: r for r in rows}
    others = [r for r in rows if r[0] != pid]
    me = row[pid]
    r = rng.random()
    pc = rng.choice([None, None, "t0", "mk"])
    if family == "recycled_caller":
        new = [me[0], rng.choice([me[1], 0] + [x[0] for x in rows]), me[2] + rng.choice([1, 2, -1]) if me[2] > 0 else me[2] + 1]
        t0 = others + [new]
        out.append((rows, None, t0, None, pc, "recycled_caller"))
    elif family == "gone_caller":
        out.append((rows, None, others, None, pc, "gone_caller"))
        out.append((rows, others, others, None, pc, "gone_seen_gone"))
    elif family == "gone_then_recycled":
        new = [me[0], me[1], me[2] + rng.choice([1, 3])]
        out.append((rows, others, others + [new], None, pc, "gone_then_recycled"))
        out.append((rows, others + [new], others + [new], None, pc, "reuse_seen_by_is_running"))
        out.append((rows, rows, others + [new], None, pc, "running_then_recycled"))
    elif family == "vanish":
        k = rng.randrange(1, max(2, len(others)))
        gone = set(x[0] for x in rng.sample(others, min(k, len(others))))
        t1 = []
        for x in rows:
            if x[0] in gone:
                if rng.random() < 0.3:
                    t1.append([x[0], x[1], max(0, x[2] + rng.choice([-2, -1, 1, 2]))])   # recycled meanwhile
                continue
            t1.append(x)
        out.append((rows, None, rows, t1, pc, "vanish"))
    elif family == "vanish_during":
        evs = []
        for _ in range(rng.randrange(1, 4)):
            # one time in four the event hits the CALLER's own row while its children are walked (it exits / its PID is
            # reused): the caller's start time was read once (fact ctimeCached), so nothing may change
            x = rng.choice(others) if others and rng.random() < 0.75 else me
            k = rng.randrange(1, len(rows) + 1)
            if rng.random() < 0.7:
                evs.append([k, x[0], None])
            else:
                evs.append([k, x[0], [x[0], x[1], max(0, x[2] + rng.choice([-3, -1, 1, 2]))]])
        out.append((rows, None, rows, ("events", evs), pc, "vanish_during"))
    elif family == "iter_then_recycle":
        # process_iter() has cached the previous owners of the PIDs; the object is built afterwards
        out.append((rows, None, rows, None, pc, "iter_then_recycle", older_table(rng, rows, set())))
        # … or before the table changes (its own row stays), possibly with is_running() in between
        old = older_table(rng, rows, {pid})
        out.append((old, None, rows, None, pc, "iter_object_then_recycle", old))
        out.append((rows, None, rows, None, pc, "iter_same_table", [list(x) for x in rows]))
    elif family == "seq":
        # CALL SEQUENCES on one object: 1–3 earlier calls, each on its own table, then the call proper. Between the
        # calls the caller is re-parented, other processes exit / are recycled / appear; once the caller's incarnation
        # is gone from a table it never comes back (a (PID, start time) pair does not return).
        lowrow = [1, 0, 0] if all(x[0] != 1 for x in rows) and rng.random() < 0.7 else None   # an init that stays
        base = rows + ([lowrow] if lowrow else [])

        def mutate(tbl, alive):
            out = []
            for x in tbl:
                if x[0] == pid:
                    if alive:
                        y = list(x)
                        if rng.random() < 0.5:
                            y[1] = rng.choice([q[0] for q in tbl] + [0, 1])        # re-parented (start time stays)
                        out.append(y)
                    continue
                if lowrow and x[0] == 1:
                    out.append(list(x))
                    continue
                z = rng.random()
                if z < 0.15:
                    continue                                                        # exits
                if z < 0.3:
                    out.append([x[0], rng.choice([q[0] for q in tbl] + [0]), max(0, x[2] + rng.choice([-2, -1, 1, 3]))])
                else:
                    out.append(list(x))
            return out
        k = rng.randrange(1, 4)
        dies_at = rng.choice([None, None, None, 0, 1, 2, 3])         # index of the first table without the incarnation
        tabs, alive, cur = [], True, base
        for i in range(k + 1):
            if dies_at is not None and i >= dies_at:
                alive = False
            cur = mutate(cur, alive) if i > 0 or rng.random() < 0.5 else [list(x) for x in cur]
            if not alive:
                cur = [x for x in cur if x[0] != pid]
                if rng.random() < 0.5:
                    cur = cur + [[pid, rng.choice([q[0] for q in cur] + [0]), me[2] + rng.choice([1, 2]) if me[2] < 2 else me[2] + rng.choice([-1, 1, 2])]]
            if not cur:
                cur = [[1, 0, 0]]
            tabs.append(cur)
        pcalls = [rng.choice(["parent", "parent", "parents", "children", "children_rec", "is_running"]) for _ in range(k)]
        out.append((base, None, tabs[-1], None, None, "seq", None, [[pc, t] for pc, t in zip(pcalls, tabs[:-1])]))
    elif family == "stale_lowest":
        low = min(r0[0] for r0 in rows)
        mk = rows + [[0 if low > 0 else 61, 0, 0]] if low > 0 else rows
        # object built (and pids() called) on a table that had a lower / different lowest PID
        if rng.random() < 0.5:
            mk2 = [x for x in rows if x[0] != low] if low != pid and len(rows) > 2 else mk
            out.append((mk2, None, rows, None, "mk", "stale_lowest"))
        else:
            out.append((mk, None, rows, None, "mk", "stale_lowest"))
    else:
        out.append((rows, None, rows, None, pc, "plain"))
    return out


TABLE_FAMILIES = ["forest", "cycle", "selfloop", "unlisted", "random", "large", "cycle", "random"]
HIST_FAMILIES = ["plain", "vanish_during", "vanish", "recycled_caller", "gone_caller", "gone_then_recycled",
                 "stale_lowest", "iter_then_recycle", "vanish", "iter_then_recycle", "seq", "seq"]


def table_features(case):
    rows = case["t0"]
    pp = {r[0]: r[1] for r in rows}
    st = {r[0]: r[2] for r in rows}
    f = set()
    for p, q in pp.items():
        if q == p:
            f.add("selfloop")
        elif pp.get(q) == p:
            f.add("2cycle")
            if st[p] == st[q]:
                f.add("2cycle_equal_start")
        elif q in pp and pp.get(pp[q]) == p:
            f.add("3cycle")
        if q not in pp:
            f.add("unlisted_parent")
        if q in st and q != p and st[q] > st[p]:
            f.add("parent_younger")
        if q in st and q != p and st[q] == st[p]:
            f.add("tie")
    me = case["pid"]
    if any(q == me and p != me for p, q in pp.items()):
        f.add("has_children")
    if case["pid"] in pp and any(pp[p] == me and st[p] < st[me] for p in pp if p != me):
        f.add("older_child")
    if case.get("t1") is not None or case.get("events"):
        f.add("vanish")
    if case.get("events"):
        f.add("vanish_during_walk")
    if case.get("iter") is not None:
        f.add("process_iter_before")
        now = {r[0]: r[2] for r in rows}
        if any(r[0] in now and now[r[0]] != r[2] for r in case["iter"]):
            f.add("pmap_holds_previous_owner")
    if case["mk"] != case["t0"] or case.get("mid") is not None:
        f.add("history")
    if case.get("pre"):
        f.add("call_sequence")
    if len(rows) > 12:
        f.add("large")
    if any(r[0] >= 32768 for r in rows):
        f.add("pid_above_default_pid_max")
    return f


# ------------------------------------------------------------------------------ PID magnitude (seeded round 5)
# The kernel hands out PIDs anywhere in [1, PID_MAX_LIMIT) (Spec/C05Range.lean; systemd raises pid_max to the limit on
# 64-bit machines); the statement quantifies over every process table, so nothing on the path from a listed PID to a
# Process object — Process._init(), cext.check_pid_range(), the platform object, the /proc/<pid>/stat readers, pids(),
# ppid_map() — may depend on how large the PID is. Every family below is a RELABELLING of cases of the other families
# (all their table shapes and histories) with PIDs drawn from the whole range, plus a sweep of the boundary values.

PID_MAX_LIMIT = 4194304


def boundary_pids():
    b = set()
    for k in range(7, 23):
        b |= {2 ** k - 1, 2 ** k, 2 ** k + 1}
    for k in range(3, 7):
        b |= {10 ** k - 1, 10 ** k}
    b |= {32767, 32768, 4194302, 4194303, 3999999, 2500000}
    return sorted(x for x in b if 1 < x < PID_MAX_LIMIT)


BOUNDARY_PIDS = boundary_pids()


def big_pid(rng, lo_bits=1):
    """log-uniform over the PID range: every magnitude class (number of bits) is equally likely"""
    k = rng.randrange(lo_bits, 23)
    return rng.randrange(max(1, 2 ** (k - 1)), 2 ** k)


def case_pids(case):
    """every PID that occurs in a case as a process or as a parent link (0 = "no parent" stays what it is)"""
    out = []

    def rows(t):
        for r in t or []:
            out.extend(r[:2])
    for k in ("mk", "mid", "t0", "t1", "iter", "statmemo"):
        if isinstance(case.get(k), list):
            rows(case[k])
    if isinstance(case.get("oneshot"), list):
        rows(case["oneshot"])
    for _, pt in case.get("pre") or []:
        rows(pt)
    for e in case.get("events") or []:
        out.append(e[1])
        if e[2] is not None:
            out.extend(e[2][:2])
    out.append(case["pid"])
    return sorted(set(out) - {0})


def make_sigma(rng, pids, mode):
    """an injective relabelling of `pids` into [1, PID_MAX_LIMIT)"""
    used, sig = set(), {0: 0}
    for p in pids:
        for _ in range(1000):
            if mode == "all_large":
                q = big_pid(rng, 16)
            elif mode == "mixed":
                q = p if rng.random() < 0.5 else big_pid(rng, 8)
            elif mode == "boundary":
                q = rng.choice(BOUNDARY_PIDS) if rng.random() < 0.8 else p
            elif mode == "top":
                q = PID_MAX_LIMIT - 1 - rng.randrange(0, 4096)
            elif mode in ("any", "shift"):           # shift: fallback when the shifted table would leave the range
                q = big_pid(rng)
            else:
                raise ValueError(mode)
            if q not in used and 0 < q < PID_MAX_LIMIT:
                break
        else:
            q = max(used | {0}) + 1
        used.add(q)
        sig[p] = q
    if mode == "shift":
        off = rng.choice([2 ** k for k in range(10, 22)] + [PID_MAX_LIMIT - 1 - max(pids + [1])])
        if max(pids + [1]) + off < PID_MAX_LIMIT:
            sig = {0: 0}
            sig.update({p: p + off for p in pids})
    return sig


SIGMA_MODES = ["all_large", "mixed", "boundary", "top", "any", "shift"]


def relabel_case(case, sig):
    """the same case with every PID p replaced by sig[p] (tables, histories, events, caller)"""
    def row(r):
        return [sig[r[0]], sig[r[1]]] + list(r[2:])

    def rows(t):
        return None if t is None else [row(r) for r in t]
    c = dict(case)
    for k in ("mk", "mid", "t0", "t1", "iter", "statmemo"):
        if isinstance(case.get(k), list):
            c[k] = rows(case[k])
    if isinstance(case.get("oneshot"), list):
        c["oneshot"] = rows(case["oneshot"])
    if case.get("pre"):
        c["pre"] = [[pc, rows(pt)] for pc, pt in case["pre"]]
    if case.get("events"):
        c["events"] = [[k, sig[p_], (None if r is None else row(r))] for k, p_, r in case["events"]]
    c["pid"] = sig[case["pid"]]
    if case.get("op") == "tree":
        if c.get("pre"):
            c["lowest0"] = calc_lowest0(c)
        c["lowest"] = calc_lowest(c)
    return c


def magnitude_sweep():
    """SMALL EXHAUSTIVE part: every boundary PID b (2^k−1, 2^k, 2^k+1 for k = 7…22, 10^k−1, 10^k, 32767/32768, the top of
    the range) in every ROLE of a fixed five-process tree × the calls that look it up:
      child of the caller, inner node (its subtree hangs below it), parent, grandparent, the caller itself."""
    cases = []
    for b in BOUNDARY_PIDS:
        a, k1, g = (1000, 1001, 1500) if b not in (1000, 1001, 1500) else (2000, 2001, 2500)
        t = [[1, 0, 1], [a, 1, 10], [k1, a, 20], [b, a, 23], [g, b, 30]]
        for call in ("children", "children_rec"):
            cases.append(mk_case(call, a, t, family="magnitude/sweep-child"))          # b among the children; g below b
        for call in ("parent", "parents"):
            cases.append(mk_case(call, g, t, family="magnitude/sweep-parent"))         # b is the parent / on the chain
        for call in CALLS:
            cases.append(mk_case(call, b, t, family="magnitude/sweep-caller"))         # b is the caller
        cases.append(mk_dyn("children_rec", a, t, family="magnitude/sweep-child"))
        cases.append(mk_dyn("parents", g, [r + ["Z" if r[0] == b else "R"] for r in t], family="magnitude/sweep-parent"))
    return cases, [c["family"] for c in cases]


def gen_magnitude_cases(rng, n):
    """RANDOM + STRUCTURED part: cases of the other families (every table family × history family, the richer world
    included), relabelled into the whole PID range in six ways (all large, mixed small/large, boundary values, the top
    4096 PIDs, log-uniform, order-preserving shift)."""
    cases, tags = [], []
    # structured: the table of seeded change C05-7's demonstration (start times scaled to the tick range)
    demo = [[1, 0, 10], [1000, 1, 1000], [1001, 1000, 2000], [262143, 1000, 2100], [262144, 1000, 2200], [300000, 1000, 2300],
            [4194303, 1000, 2400], [1500, 300000, 3000], [1501, 1500, 3100], [1600, 4194303, 3200], [2000, 1, 500]]
    for call in CALLS:
        for pid in (1000, 1500, 1501, 1600, 300000, 4194303):
            cases.append(mk_case(call, pid, demo, family="magnitude/corpus"))
            tags.append("magnitude/corpus")
    base, btags = [], []
    k = 0
    while len(base) < n:
        tf = TABLE_FAMILIES[k % len(TABLE_FAMILIES)]
        hf = HIST_FAMILIES[(k // len(TABLE_FAMILIES) + k) % len(HIST_FAMILIES)]
        k += 1
        if tf == "large":
            tf = "forest"
        rows = gen_table(rng, tf)
        pid = pick_callers(rng, rows, 1)[0]
        for hv in history_variants(rng, rows, pid, hf)[:1]:
            (mk, mid, t0, t1, pc, tag) = hv[:6]
            it = hv[6] if len(hv) > 6 else None
            pre = hv[7] if len(hv) > 7 else None
            for call in CALLS:
                if t1 is not None and call in ("parent", "parents"):
                    continue
                evs, t1_ = ([list(e) for e in t1[1]], None) if isinstance(t1, tuple) else (None, t1)
                base.append(mk_case(call, pid, t0, mk=mk, mid=mid, t1=t1_, pids_call=pc, family="", events=evs, it=it, pre=pre))
                btags.append(tag)
    dc, dt = gen_dyn_cases(rng, max(11, n // 12))
    base += dc
    btags += [t.split("/", 1)[1] for t in dt]
    for i, (c, tag) in enumerate(zip(base, btags)):
        mode = SIGMA_MODES[(i // 4) % len(SIGMA_MODES)]         # the calls of one table share their relabelling mode
        sig = make_sigma(rng, case_pids(c), mode)
        r = relabel_case(c, sig)
        r["family"] = "magnitude/%s" % mode
        cases.append(r)
        tags.append("magnitude/%s" % mode)
    return cases, tags


def pid_bits_bucket(case):
    m = max(case_pids(case) + [1])
    return "<2^7" if m < 128 else "2^7..2^15" if m < 32768 else "2^15..2^18" if m < 262144 else "2^18..2^22"


# ------------------------------------------------------------------------------ correspondence


def judge(case, obs, running, extra, m, res, source, record=True):
    """Compare one executed case. Returns 'spec' / 'model' / None (and records it)."""
    inp = {"case": case, "source": source}
    mo, sp = m["model"], m["spec"]
    if not m.get("closed", False):
        if record:
            res.disagree("model", inp, obs, mo, sp, note="driver: specification saturation did not close (harness/spec bug)")
        return "model"
    if obs.get("at") == "construct" or mo.get("at") == "construct":
        # Process(pid) for a PID listed in `mk`: the specification says it opens (every listed process is one the tree
        # methods can be asked about), so a refusal is a failing input whatever the model says
        if obs.get("at") == "construct":
            if record:
                res.disagree("spec", inp, obs, mo, sp, note="Process(%d) cannot be built although the PID is listed (range gate of Process(pid))" % case["pid"])
            return "spec"
        if record:
            res.disagree("model", inp, obs, mo, sp, note="the model's Process(pid) refuses the caller's PID, the implementation builds it")
        return "model"
    call = case["call"]
    if extra.get("lowest") != case["lowest"]:
        if record:
            res.disagree("model", inp, {"_LOWEST_PID": extra.get("lowest")}, {"lowest": case["lowest"]}, None,
                         note="psutil._LOWEST_PID differs from what the history should have cached")
        return "model"
    if extra.get("older"):
        if record:
            res.disagree("spec", inp, {"older_than_caller": extra["older"], "out": obs}, mo, sp,
                         note="children() returned a process that started before the caller")
        return "spec"
    spec_applies = True
    if call in ("parent", "parents"):
        fl = m["flags"]
        if case["lowest"] is not None and case["lowest"] != fl["min_pid"]:
            spec_applies = False           # stale _LOWEST_PID: outside the property's assumptions, model only
            res.count("model_only:stale_lowest") if record else None
        if not case["t0"]:
            spec_applies = False
    if running is not None and running != m["running"]:
        if record:
            res.disagree("model", inp, {"is_running": running}, {"is_running": m["running"]}, None,
                         note="is_running() differs from the model")
        return "model"
    verdict = None
    # ---- earlier calls on the same object: each one is judged like a call of its own
    if case.get("pre"):
        pobs = extra.get("pre_obs") or []
        if len(pobs) != len(m.get("pre") or []):
            if record:
                res.disagree("model", inp, {"pre_obs": pobs}, m.get("pre"), None, note="harness: earlier calls were not all run")
            return "model"
        low_stale = False
        low = case.get("lowest0")
        for i, ((pcall, prows), po, pm) in enumerate(zip(case["pre"], pobs, m["pre"])):
            tag = "call %d of the history (%s)" % (i + 1, pcall)
            if pcall == "is_running":
                if po != pm["model"]:
                    if record:
                        res.disagree("model", inp, {"is_running": po}, pm["model"], None, note=tag + ": is_running() differs from the model")
                    return "model"
                continue
            po = dict(po)
            order = po.pop("order", None)
            p_applies = bool(prows)
            if pcall in ("parent", "parents"):
                if low is None:
                    low = min_pid(prows)
                p_applies = p_applies and low == min_pid(prows)
            if p_applies:
                v = spec_verdict(po, pm)
                if v == "spec":
                    if record:
                        res.disagree("spec", inp, po, pm["model"], pm["spec"], note=tag + ": implementation differs from the specification")
                    return "spec"
                if v is not None:
                    if record:
                        res.known_seen[v] = res.known_seen.get(v, 0) + 1
                        res.disagree("spec", inp, po, pm["model"], pm["spec"], finding=v,
                                     note=tag + ": implementation differs from the literal specification (region of finding %s)" % v)
                    verdict = "spec:" + v
            if po != pm["model"]:
                if record:
                    res.disagree("model", inp, po, pm["model"], pm["spec"], note=tag + ": implementation differs from the Lean model")
                return "model"
            if order is not None and pm.get("order") is not None and order != pm["order"]:
                if record:
                    res.disagree("model", inp, {"order": order}, {"order": pm["order"]}, None,
                                 note=tag + ": the ORDER of the returned list differs from the model's (same set)")
                return "model"
        if case.get("pids_call") != "t0" and m.get("lowest_after_pre") != extra.get("lowest"):
            if record:
                res.disagree("model", inp, {"_LOWEST_PID": extra.get("lowest")}, {"lowest": m.get("lowest_after_pre")}, None,
                             note="psutil._LOWEST_PID after the earlier calls differs from the model's")
            return "model"
        if record:
            res.count("seq:calls_before=%d" % len(pobs))
    if spec_applies:
        if record:
            for fid in regions_of(m):
                res.known_seen[fid] = res.known_seen.get(fid, 0) + 1
                res.count("region:" + fid)
        v = spec_verdict(obs, m)
        if v == "spec":
            if record:
                res.disagree("spec", inp, obs, mo, sp, note="%s(): implementation differs from the specification" % call)
            return "spec"
        if v is not None:
            # inside the region of a known finding, with exactly that finding's value: tolerated while the finding is
            # listed; the comparison with the model below stays strict
            if record:
                res.disagree("spec", inp, obs, mo, sp, finding=v,
                             note="%s(): implementation differs from the literal specification (region of finding %s)" % (call, v))
            verdict = "spec:" + v
    if obs != mo:
        if record:
            res.disagree("model", inp, obs, mo, sp, note="%s(): implementation differs from the Lean model" % call)
        return "model"
    # the ORDER of children(): not specified (a set); as a characterisation it is the model's (C05_children_order_flat)
    if obs.get("kind") == "ok" and extra.get("order") is not None and m.get("order") is not None:
        if record:
            res.count("order_compared:" + call)
        if extra["order"] != m["order"]:
            if record:
                res.disagree("model", inp, {"order": extra["order"]}, {"order": m["order"]}, sp,
                             note="%s(): the ORDER of the returned list differs from the model's (same set)" % call)
            return "model"
    return verdict


def judge_dyn(case, obs, extra, m, res, source, record=True):
    """cases of the richer world (zombies, unreadable stat files, a world per parents() step, oneshot,
    objects from process_iter()). `spec` is null where the specification is silent: model only."""
    inp = {"case": case, "source": source}
    mo, sp = m["model"], m["spec"]

    def dis(kind, impl, note):
        if record:
            res.disagree(kind, inp, impl, mo, sp, note=note)
        return kind
    if not m.get("closed", False):
        return dis("model", obs, "driver: specification saturation did not close (harness/spec bug)")
    if obs.get("at") == "construct":
        return dis("spec", obs, "Process(%d) cannot be built although the PID is listed (range gate of Process(pid); richer world)" % case["pid"])
    if (mo or {}).get("at") == "construct":
        return dis("model", obs, "the model's Process(pid) refuses the caller's PID, the implementation builds it")
    if case.get("statmemo_via") and extra.get("statmemo") != "filled":
        return dis("model", {"statmemo": extra.get("statmemo")}, "harness: the stat memo could not be filled inside oneshot()")
    if extra.get("older"):
        return dis("spec", {"older_than_caller": extra["older"], "out": obs},
                   "children() returned a process that started before the caller")
    spec_applies = sp is not None
    if not spec_applies and record:
        res.count("model_only:cached_oneshot" if m.get("cached") else "model_only:unreadable_on_path")
    if case["call"] in ("parent", "parents") and spec_applies:
        if case.get("lowest") is not None and case["lowest"] != min_pid(case["t0"]):
            spec_applies = False
            res.count("model_only:stale_lowest") if record else None
    alt = m.get("alt_denied") or []
    if spec_applies and alt and record:
        res.count("spec_disjunctive:unreadable_mid_walk:%s" % ("access_denied" if obs.get("exc") == "AccessDenied" else "value"))
    verdict = None
    if spec_applies:
        if record:
            for fid in regions_of(m):
                res.known_seen[fid] = res.known_seen.get(fid, 0) + 1
                res.count("region:" + fid)
        # processes turned unreadable while children() walked: the value must be exact, or AccessDenied(c)
        # escapes for a c that was readable at the snapshot and is unreadable when examined (C05_children_outcomes)
        v = spec_verdict(obs, m, accept=lambda o: bool(alt) and o.get("kind") == "exc" and o.get("exc") == "AccessDenied"
                         and o.get("pid") in alt)
        if v == "spec":
            return dis("spec", obs, "%s(): implementation differs from the specification (richer world)" % case["call"])
        if v is not None:
            if record:
                res.disagree("spec", inp, obs, mo, sp, finding=v,
                             note="%s(): implementation differs from the literal specification (region of finding %s; richer world)"
                             % (case["call"], v))
            verdict = "spec:" + v
    if obs != mo:
        return dis("model", obs, "%s(): implementation differs from the Lean model (richer world)" % case["call"])
    if obs.get("kind") == "ok" and extra.get("order") is not None and m.get("order") is not None:
        if record:
            res.count("order_compared:" + case["call"])
        if extra["order"] != m["order"]:
            return dis("model", {"order": extra["order"]}, "%s(): the ORDER of the returned list differs from the model's (same set; richer world)" % case["call"])
    return verdict


def mk_dyn(call, pid, t0, mk=None, events=None, oneshot=None, via_iter=False, pids_call=None, family="",
           statmemo=None, via="name"):
    x = lambda rows: [list(r) if len(r) > 3 else list(r) + ["R"] for r in rows]
    c = {"op": "dyn", "call": call, "pid": pid, "mk": x(t0 if mk is None else mk), "mid": None, "lowest": None,
         "t0": x(t0), "t1": None, "steps": None, "oneshot": (x(oneshot) if isinstance(oneshot, list) else oneshot),
         "pids_call": pids_call, "family": family}
    if statmemo is not None:
        c["oneshot"] = "fresh"
        c["statmemo"] = x(statmemo)
        c["statmemo_via"] = via
    if events:
        c["events"] = [[k, p_, (None if r is None else (list(r) if len(r) > 3 else list(r) + ["R"]))] for k, p_, r in events]
    if via_iter:
        c["via_iter"] = True
    return c


def chain_of(rows, pid):
    pp = {r[0]: r[1] for r in rows}
    out, cur = [], pid
    while cur in pp and pp[cur] in pp and pp[cur] not in out and pp[cur] != cur and len(out) < 10:
        cur = pp[cur]
        out.append(cur)
    return out


def gen_dyn_cases(rng, n):
    """→ (cases, tags) for the richer world; every family drives the REAL code path:
    zombie / unreadable rows, unreadable while walking, events between the look-ups of parents(),
    oneshot (fresh / after a ppid() on an earlier table), objects yielded by process_iter()."""
    cases, tags = [], []

    def add(c, tag):
        cases.append(c)
        tags.append(tag)
    fams = ["zombie", "denied_static", "denied_mid_walk", "parents_dyn", "parents_dyn", "oneshot", "via_iter", "denied_caller",
            "oneshot_statmemo", "denied_mid_walk", "listed_gone"]
    for i in range(n):
        fam = fams[i % len(fams)]
        rows = gen_table(rng, ["forest", "forest", "random", "cycle", "unlisted"][i % 5])
        if fam == "parents_dyn":
            # make sure there is a chain worth walking
            rows = gen_table(rng, "forest")
        pids = [r[0] for r in rows]
        row = {r[0]: r for r in rows}
        deep = max(pids, key=lambda q: len(chain_of(rows, q)))
        callers = pick_callers(rng, rows, 2)
        if fam in ("parents_dyn", "oneshot", "oneshot_statmemo") and deep not in callers:
            callers[0] = deep
        for pid in callers:
            others = [q for q in pids if q != pid]
            if fam == "zombie":
                z = set(q for q in pids if rng.random() < 0.4)
                z |= {rng.choice([pid, row[pid][1] if row[pid][1] in row else pid] + [q for q in pids if row[q][1] == pid])}
                t0 = [r + ["Z" if r[0] in z else "R"] for r in rows]
                for call in CALLS:
                    add(mk_dyn(call, pid, t0, family="dyn/zombie"), "dyn/zombie")
            elif fam == "denied_static":
                d = set(q for q in others if rng.random() < 0.35)
                t0 = [r + ["X" if r[0] in d else rng.choice(["R", "R", "Z"])] for r in rows]
                mk = [r + ["R"] for r in rows]
                for call in CALLS:
                    add(mk_dyn(call, pid, t0, mk=mk, family="dyn/denied_static"), "dyn/denied_static")
            elif fam == "listed_gone":
                # processes that exit between pids() and the read of their stat file: /proc/<pid> is listed, the
                # stat file is gone (children, parents, ancestors, sometimes a PID lower than every live one)
                g = set(q for q in others if rng.random() < 0.4)
                if others and not g:
                    g = {rng.choice(others)}
                t0 = [r + ["G" if r[0] in g else rng.choice(["R", "R", "Z"])] for r in rows]
                if rng.random() < 0.3:
                    t0.append([0, 0, 0, "G"])
                mk = [r + ["R"] for r in rows]
                for call in CALLS:
                    add(mk_dyn(call, pid, t0, mk=mk, family="dyn/listed_gone"), "dyn/listed_gone")
            elif fam == "denied_caller":
                # the caller's own stat file is unreadable at call time — the same incarnation underneath, or
                # (second half) the PID was recycled meanwhile and it is the NEW owner that cannot be read
                recyc = rng.random() < 0.5
                t0 = [([r[0], rng.choice([r[1], 0] + pids), r[2] + rng.choice([1, 2, 7])] if (recyc and r[0] == pid) else r)
                      + ["X" if r[0] == pid else rng.choice(["R", "R", "R", "Z", "X"])] for r in rows]
                mk = [r + ["R"] for r in rows]
                tag = "dyn/denied_caller_recycled" if recyc else "dyn/denied_caller"
                for call in CALLS:
                    add(mk_dyn(call, pid, t0, mk=mk, family=tag), tag)
            elif fam == "oneshot_statmemo":
                # inside oneshot() another stat-based method fills the memoised stat file on an EARLIER table;
                # then the table changes (re-parenting, parent exits / is recycled, the caller itself recycled)
                me = row[pid]
                kind = rng.random()
                pre = [list(r) for r in rows]
                if kind < 0.3:
                    t0 = [[r[0], (rng.choice([min(pids), 0] + pids) if r[0] == pid else r[1]), r[2]] for r in rows]    # re-parented
                elif kind < 0.5:
                    t0 = [r for r in rows if r[0] != me[1] or r[0] == pid]                                             # parent exits
                elif kind < 0.7:
                    t0 = [r if (r[0] != me[1] or r[0] == pid) else [r[0], r[1], max(0, r[2] + rng.choice([-1, 1, 40]))] for r in rows]  # parent PID reused
                elif kind < 0.85:
                    t0 = [r if r[0] != pid else [pid, rng.choice(pids + [0]), me[2] + rng.choice([1, 3])] for r in rows]   # caller recycled
                else:
                    pre = older_table(rng, rows, set())
                    pre = [r for r in pre if r[0] != pid] + [[pid, rng.choice(pids + [0]), me[2]]]
                    t0 = rows
                via = rng.choice(["name", "status", "cpu_times", "cpu_num"])
                for call in CALLS:
                    add(mk_dyn(call, pid, t0, mk=pre, statmemo=pre, via=via, family="dyn/oneshot_statmemo"), "dyn/oneshot_statmemo")
            elif fam == "denied_mid_walk":
                evs = []
                below = [q for q in others if pid in chain_of(rows, q)]
                for _ in range(rng.randrange(1, 3)):
                    # mostly a descendant of the caller (a look-up the walk will make), early in the walk
                    if below and rng.random() < 0.75:
                        x, k = row[rng.choice(below)], rng.choice([1, 1, 2, 3])
                    else:
                        x, k = (row[rng.choice(others)] if others else row[pid]), rng.randrange(1, len(rows) + 1)
                    evs.append([k, x[0], list(x[:3]) + ["X"]])
                for call in ("children", "children_rec"):
                    add(mk_dyn(call, pid, rows, events=[list(e) for e in evs], family="dyn/denied_mid_walk"), "dyn/denied_mid_walk")
            elif fam == "parents_dyn":
                ch = chain_of(rows, pid)
                evs = []
                for _ in range(rng.randrange(1, 4)):
                    tgt = rng.choice(ch + [pid]) if ch else pid
                    k = rng.randrange(1, 3 * (len(ch) + 1) + 1)
                    kind = rng.random()
                    r0 = row[tgt]
                    if kind < 0.3:
                        evs.append([k, tgt, None])                                             # exits and is reaped
                    elif kind < 0.6:
                        evs.append([k, tgt, [tgt, rng.choice(pids + [0]), max(0, r0[2] + rng.choice([-2, -1, 1, 3, 50]))]])  # PID reused
                    elif kind < 0.8:
                        evs.append([k, tgt, [tgt, rng.choice([min(pids), 0, rng.choice(pids)]), r0[2]]])   # re-parented
                    elif kind < 0.85:
                        evs.append([k, tgt, list(r0[:3]) + ["Z"]])                               # turns zombie
                    elif kind < 0.92:
                        evs.append([k, tgt, list(r0[:3]) + ["G"]])                               # exiting: listed, stat gone
                    else:
                        evs.append([k, tgt, list(r0[:3]) + ["X"]])                               # turns unreadable
                for call in ("parent", "parents"):
                    add(mk_dyn(call, pid, rows, events=[list(e) for e in evs], pids_call=rng.choice([None, "t0"]),
                               family="dyn/parents_dyn"), "dyn/parents_dyn")
            elif fam == "oneshot":
                me = row[pid]
                kind = rng.random()
                if kind < 0.25:
                    pre, t0 = "fresh", rows
                elif kind < 0.6:
                    # the parent dies inside the block: the caller is re-parented to init
                    pre = rows
                    t0 = [r for r in rows if r[0] != me[1] or r[0] == pid]
                    t0 = [[r[0], (min(pids) if r[0] == pid else r[1]), r[2]] for r in t0]
                elif kind < 0.8:
                    # the caller's PID is recycled inside the block
                    pre = rows
                    t0 = [r if r[0] != pid else [pid, rng.choice(pids + [0]), me[2] + 1] for r in rows]
                else:
                    pre = older_table(rng, rows, {pid})
                    t0 = rows
                for call in CALLS:
                    add(mk_dyn(call, pid, t0, mk=(rows if pre == "fresh" else pre), oneshot=pre, family="dyn/oneshot"), "dyn/oneshot")
            elif fam == "via_iter":
                old = older_table(rng, rows, {pid} if rng.random() < 0.7 else set())
                if pid not in [r[0] for r in old]:
                    old.append(list(row[pid]))
                for call in CALLS:
                    add(mk_dyn(call, pid, rows, mk=old, via_iter=True, family="dyn/via_iter"), "dyn/via_iter")
    return cases, tags


def dyn_corpus():
    cases = []
    tz = [[1, 0, 1, "R"], [5, 1, 10, "Z"], [6, 5, 20, "Z"], [7, 5, 9, "Z"], [8, 6, 30, "R"]]
    for call in CALLS:
        cases.append(mk_dyn(call, 5, tz, family="corpus:zombie-caller"))
        cases.append(mk_dyn(call, 8, tz, family="corpus:zombie-parent"))
        cases.append(mk_dyn(call, 6, tz, family="corpus:zombie-child-of-zombie"))
    # Props: C05_unreadable_mid_walk_counterexample — child 6 turns unreadable after ppid_map()
    t = [[1, 0, 1], [5, 1, 10], [6, 5, 20]]
    for call in ("children", "children_rec"):
        cases.append(mk_dyn(call, 5, t, events=[[1, 6, [6, 5, 20, "X"]]], family="corpus:unreadable-mid-walk"))
        cases.append(mk_dyn(call, 1, [[1, 0, 1, "R"], [5, 1, 10, "R"], [6, 5, 20, "X"]], family="corpus:unreadable-in-ppid-map"))
    # Props: the three worlds of the parents() example
    w0 = [[1, 0, 1], [10, 1, 5], [20, 10, 8], [30, 20, 9]]
    for call in ("parent", "parents"):
        cases.append(mk_dyn(call, 30, w0, family="corpus:parents-constant"))
        cases.append(mk_dyn(call, 30, w0, events=[[4, 20, [20, 1, 50]], [4, 30, [30, 1, 9]]], family="corpus:parents-ancestor-recycled"))
        cases.append(mk_dyn(call, 30, w0, events=[[4, 10, None], [4, 20, [20, 1, 8]]], family="corpus:parents-ancestor-reparented"))
        cases.append(mk_dyn(call, 30, w0, events=[[4, 20, None]], family="corpus:parents-ancestor-exits"))
        cases.append(mk_dyn(call, 30, w0, events=[[6, 10, [10, 1, 9]]], family="corpus:parents-grandparent-reused-younger"))
        cases.append(mk_dyn(call, 30, w0, oneshot=w0, family="corpus:oneshot-cached"))
        cases.append(mk_dyn(call, 30, [[1, 0, 1], [10, 1, 5], [30, 1, 9]], mk=w0, oneshot=w0, family="corpus:oneshot-reparented-inside"))
        # Props (round 3): the stat memo shows parent 20; meanwhile 10 exited and 30 was re-parented to 1 / PID 20 was
        # reused by a younger process / PID 30 itself was recycled inside the block
        cases.append(mk_dyn(call, 30, [[1, 0, 1], [20, 1, 8], [30, 20, 9]], mk=w0, statmemo=w0, family="corpus:statmemo-reparented"))
        cases.append(mk_dyn(call, 30, [[1, 0, 1], [10, 1, 5], [20, 1, 50], [30, 1, 9]], mk=w0, statmemo=w0, via="status", family="corpus:statmemo-parent-reused"))
        cases.append(mk_dyn(call, 30, [[1, 0, 1], [30, 1, 77]], mk=w0, statmemo=w0, via="cpu_times", family="corpus:statmemo-caller-recycled"))
    # Props (round 3): the caller's PID 5 was recycled and the NEW owner is unreadable / a zombie: NoSuchProcess(5)
    t = [[1, 0, 1], [5, 1, 10], [6, 5, 20]]
    for call in CALLS:
        cases.append(mk_dyn(call, 5, [[1, 0, 1, "R"], [5, 1, 15, "X"], [6, 5, 20, "R"]], mk=t, family="corpus:recycled-unreadable-caller"))
        cases.append(mk_dyn(call, 5, [[1, 0, 1, "R"], [5, 1, 15, "Z"], [6, 5, 20, "R"]], mk=t, family="corpus:recycled-zombie-caller"))
        cases.append(mk_dyn(call, 5, [[1, 0, 1, "R"], [5, 1, 10, "X"], [6, 5, 20, "R"]], mk=t, family="corpus:unreadable-caller-same-incarnation"))
    # Props (audit round): the witnesses of the two known findings in the richer world (+ the new owner unreadable / a zombie)
    for call in ("parent", "parents"):
        for st in "RZX":
            cases.append(mk_dyn(call, 2, [[2, 0, 15, st], [6, 2, 20, "R"]], mk=[[2, 0, 10], [6, 2, 20]], family="corpus:recycled-lowest-pid"))
        for pid in (2, 7):
            cases.append(mk_dyn(call, pid, [[2, 3, 5], [3, 0, 1], [7, 2, 9]], family="corpus:lowest-pid-has-parent"))
        # the chain reaches the lowest PID 2 after it was recycled (look-up 4 = identity check of the second parent() call)
        cases.append(mk_dyn(call, 7, [[2, 0, 5], [7, 2, 9]], events=[[4, 2, [2, 0, 50]]], family="corpus:recycled-lowest-pid-on-chain"))
    # Props (round 3): C05_vanishing_needs_skip — PID 6 is listed, its stat file is gone when ppid_map() gets there
    for call in CALLS:
        cases.append(mk_dyn(call, 1, [[1, 0, 1, "R"], [5, 1, 10, "R"], [6, 5, 20, "G"]], mk=t, family="corpus:listed-stat-gone"))
        cases.append(mk_dyn(call, 6, [[1, 0, 1, "R"], [5, 1, 10, "G"], [6, 5, 20, "R"]], mk=t, family="corpus:listed-stat-gone"))
    return cases, [c["family"] for c in cases]


def strip(case):
    if case.get("op") == "dyn":
        d = {k: case.get(k) for k in ("op", "call", "pid", "mk", "lowest", "t0", "t1", "steps", "oneshot")}
        if case.get("statmemo") is not None:
            d["statmemo"] = case["statmemo"]
        return d
    d = {k: case[k] for k in ("op", "call", "pid", "mk", "mid", "lowest", "t0", "t1")}
    if case.get("pre"):
        d["pre"] = case["pre"]
        d["lowest0"] = case.get("lowest0")
    return d


def run_cases(ctx, impl, cases, res, source, record=True):
    """Drive model (one batch) and implementation over `cases`; → list of verdicts."""
    if not cases:
        return []
    ran = []
    for c in cases:
        obs, running, extra = impl.run_case(c)
        if "t1" in extra:
            c["t1"] = extra["t1"]          # events: the look-up world is known only after the run
        if "t0_listed" in extra:
            c["t0"] = extra["t0_listed"]   # same rows, in the order pids() listed them
        if c.get("pre") and extra.get("pre_listed"):
            c["pre"] = [[pc, (pl if pl is not None else pt)] for (pc, pt), pl in zip(c["pre"], extra["pre_listed"])]
        if c.get("op") == "dyn":
            c["steps"] = extra.get("steps")
            c["lowest"] = extra.get("lowest")      # what the module holds (its computation is checked by the plain cases)
        ran.append((obs, running, extra))
    outs = ctx.driver().batch([strip(c) for c in cases])
    verdicts = []
    for c, m, (obs, running, extra) in zip(cases, outs, ran):
        if "bad" in m:
            raise RuntimeError("driver rejected %r: %s" % (c, m))
        if c.get("op") == "dyn":
            verdicts.append(judge_dyn(c, obs, extra, m, res, source, record))
        else:
            verdicts.append(judge(c, obs, running, extra, m, res, source, record))
    return verdicts


class _Collector:
    """Result-like sink used inside worker processes (merged into the real Result afterwards)."""

    def __init__(self):
        self.disagreements = []
        self.known_seen = {}
        self.distribution = {}

    def count(self, key, n=1):
        self.distribution[key] = self.distribution.get(key, 0) + n

    def disagree(self, kind, inp, impl, model, spec=None, note="", finding=None):
        if len(self.disagreements) < 50:
            self.disagreements.append({"kind": kind, "input": inp, "impl": impl, "model": model, "spec": spec,
                                       "note": note, "finding": finding})


_SHARD_CTX = None


def _shard(cases):
    col = _Collector()
    impl = Impl(_SHARD_CTX)
    try:
        CH = 3000
        for a in range(0, len(cases), CH):
            run_cases(_SHARD_CTX, impl, cases[a:a + CH], col, "correspond")
    finally:
        impl.close()
    return col.disagreements, col.known_seen, col.distribution


def run_sharded(ctx, cases, res, workers):
    """Run `cases` over `workers` forked processes (each with its own fake procfs and driver)."""
    global _SHARD_CTX
    import multiprocessing
    _SHARD_CTX = ctx
    ctx.psutil  # import before forking
    mp = multiprocessing.get_context("fork")
    shards = [cases[i::workers] for i in range(workers)]
    with mp.Pool(workers) as pool:
        outs = pool.map(_shard, shards)
    for dis, ks, dist in outs:
        res.disagreements.extend(dis)
        for k, v in ks.items():
            res.known_seen[k] = res.known_seen.get(k, 0) + v
        for k, v in dist.items():
            res.count(k, v)


def exhaustive_tables(k, pids):
    """all ppid assignments over `pids[:k]` (each PID → any listed PID or an unlisted one) × all weak start orders"""
    P = pids[:k]
    wo = weak_orders(k)
    for pp in itertools.product(P + [0], repeat=k):
        for st in wo:
            yield [[P[i], pp[i], st[i]] for i in range(k)]


def stat_cases(rng, n):
    """stat lines with adversarial comm; → driver lines"""
    lines = []
    alpha = [b")", b"(", b" ", b"a", b"\n", b"1", b"\t"]
    for a in range(256):
        lines.append(bytes([a]))
    for a in alpha:
        for b in alpha:
            lines.append(a + b)
            for c in alpha:
                lines.append(a + b + c)
    for _ in range(n):
        ln = rng.randrange(0, 16)
        if rng.random() < 0.5:
            lines.append(bytes(rng.choice(b") (1S\n\tab") for _ in range(ln)))
        else:
            lines.append(bytes(rng.randrange(1, 256) for _ in range(ln)))
    out = []
    for i, comm in enumerate(lines):
        pid = rng.choice([rng.randrange(1, 30000), big_pid(rng, 15), rng.choice(BOUNDARY_PIDS)])     # Process(pid) for PIDs of the whole range
        ppid = rng.choice([0, 1, 2, rng.randrange(0, 4194304)])
        start = rng.randrange(0, MAX_TICKS + 1)
        state = rng.choice([b"S", b"R", b"Z", b"D", b"I", b"T"])
        npost = rng.choice([30, 30, 30, 17, 18, 29])
        out.append({"op": "stat", "pid": pid, "comm": comm.hex(), "state": state.hex(), "ppid": ppid, "start": start,
                    "pre": [x.hex() for x in PRE], "post": [x.hex() for x in POST[:npost]]})
    return out


def correspond(ctx, res):
    impl = Impl(ctx)
    try:
        res.rule = ("process tables from 6 table families (forest, cycle, self-loop, unlisted parents, random, large) × "
                    "12 history families (plain, table switched right after ppid_map(), kernel events scheduled at "
                    "individual look-ups during the walk, recycled caller, gone caller, gone-then-"
                    "recycled, reuse seen by is_running, stale _LOWEST_PID, a fully consumed process_iter() on an "
                    "earlier table whose PIDs are then recycled — object built before or after) × the four calls, PRNG from VERIF_SEED; "
                    "richer world: zombie rows, unreadable stat files (static, the caller's own, appearing during the walk), "
                    "kernel events between the look-ups of parent()/parents(), calls inside oneshot() (fresh / after ppid() on an "
                    "earlier table), objects yielded by process_iter(); plus "
                    "PID magnitude: cases of all these families relabelled into the whole PID range [1, 2^22) (all large / mixed / boundary "
                    "values / top of the range / log-uniform / order-preserving shift) and a sweep of the boundary PIDs through every role; "
                    "an exhaustive sweep of small tables and of short comm strings; non-trivial = the table has a cycle, "
                    "self-loop, tie, younger parent, unlisted parent, a history or a vanishing process, or the caller has "
                    "children; distinct = distinct (tables, caller, call)")
        if not impl.monotone_ok:
            res.disagree("model", {"ticks": impl.ticks}, None, None, None,
                         note="float create_time is not strictly monotone in ticks over the range used")
        cases, tags = [], []
        # ---- corpus: the leads (L6, L7), the known finding, the docstring example
        cyc = [[20, 21, 5], [21, 20, 5], [1, 0, 1]]
        loop = [[7, 7, 5], [1, 0, 1]]
        doc = [[1, 0, 0], [10, 1, 5], [11, 10, 6], [12, 11, 7], [13, 12, 8], [14, 10, 6], [15, 10, 9]]
        for call in CALLS:
            cases.append(mk_case(call, 20, cyc, family="corpus:L6L7-2cycle"))
            cases.append(mk_case(call, 7, loop, family="corpus:selfloop"))
            cases.append(mk_case(call, 1, [[1, 1, 0], [2, 1, 3]], family="corpus:pid-lowest-selfloop"))
            cases.append(mk_case(call, 10, doc, family="corpus:docstring"))
            cases.append(mk_case(call, 13, doc, family="corpus:docstring"))
            cases.append(mk_case(call, 10, doc, t1=[r for r in doc if r[0] != 12], family="corpus:docstring-X-vanishes"))
            cases.append(mk_case(call, 5, [[1, 0, 1], [5, 1, 15], [6, 5, 20]], mk=[[1, 0, 1], [5, 1, 10], [6, 5, 20]],
                                 mid=[[1, 0, 1], [6, 5, 20]], family="corpus:gone-then-recycled"))
        # Props: C05_recycled_lowest_pid_counterexample (the object was built for (2, start 10); PID 2 now belongs to a process
        # started at 15 and is the lowest listed PID) and C05_lowest_pid_parent_counterexample (the lowest listed PID 2
        # has a listed, older parent 3) — the witnesses of the two known findings
        for call in CALLS:
            cases.append(mk_case(call, 2, [[2, 0, 15], [6, 2, 20]], mk=[[2, 0, 10], [6, 2, 20]], family="corpus:recycled-lowest-pid"))
            cases.append(mk_case(call, 2, [[2, 0, 15], [6, 2, 20]], mk=[[2, 0, 10], [6, 2, 20]], mid=[[6, 2, 20]],
                                 family="corpus:recycled-lowest-pid"))
            for pid in (2, 7):
                cases.append(mk_case(call, pid, [[2, 3, 5], [3, 0, 1], [7, 2, 9]], family="corpus:lowest-pid-has-parent"))
        # call sequences on one object (Props: C05_seq_*): the caller is re-parented between two parent() calls (a per-object
        # ppid cache would answer the old link); the object sees its incarnation gone, later its PID is recycled
        ta = [[1, 0, 1], [4, 1, 2], [5, 1, 10], [6, 5, 20]]
        tb = [[1, 0, 1], [4, 1, 2], [5, 4, 10], [6, 5, 20]]
        for call in CALLS:
            cases.append(mk_case(call, 5, tb, mk=ta, pre=[["parent", ta]], family="corpus:seq-reparented"))
            cases.append(mk_case(call, 5, tb, mk=ta, pre=[["parents", ta], ["children_rec", ta], ["is_running", tb]], family="corpus:seq-reparented"))
            cases.append(mk_case(call, 5, [[1, 0, 1], [4, 1, 2], [5, 4, 15], [6, 5, 20]], mk=ta,
                                 pre=[["children", ta], ["parent", [[1, 0, 1], [4, 1, 2], [6, 5, 20]]]], family="corpus:seq-gone-then-recycled"))
        # process_iter() saw other owners of PIDs 20/30 (one older, one younger than the caller) before
        # the caller forked its workers into those PIDs
        seen_by_iter = [[1, 0, 1], [10, 1, 100], [20, 1, 50], [30, 1, 150]]
        now = [[1, 0, 1], [10, 1, 100], [20, 10, 200], [30, 10, 210], [40, 20, 220]]
        for call in CALLS:
            cases.append(mk_case(call, 10, now, it=seen_by_iter, family="corpus:iter-then-recycled-children"))
            cases.append(mk_case(call, 40, now, it=[[1, 0, 1], [10, 1, 100], [20, 1, 300], [40, 20, 220]],
                                 family="corpus:iter-then-recycled-parent"))
        # the table of seeded change C05-2 (start times scaled to the tick range): 300 hangs off the recycled
        # PID 200 and is older than the caller 100; 400 below it; 700 older by one tick at depth 3
        seeded2 = [[1, 0, 1], [100, 1, 500], [200, 100, 600], [500, 200, 650], [300, 200, 100], [400, 300, 700],
                   [600, 100, 90], [700, 500, 499]]
        for call in CALLS:
            for pid in (100, 200, 300):
                cases.append(mk_case(call, pid, seeded2, family="corpus:seeded-C05-2-older-descendant"))
        tags += [c["family"] for c in cases]
        # ---- the richer world: zombies, unreadable stat files, a world per parents() step, oneshot, process_iter objects
        dc, dt = dyn_corpus()
        cases += dc
        tags += dt
        dc, dt = gen_dyn_cases(ctx.rng, ctx.n(250, 6000))
        cases += dc
        tags += dt
        # ---- random
        n_tables = ctx.n(640, 12000)
        for i in range(n_tables):
            tf = TABLE_FAMILIES[i % len(TABLE_FAMILIES)]
            hf = HIST_FAMILIES[(i // len(TABLE_FAMILIES) + i) % len(HIST_FAMILIES)]
            rows = gen_table(ctx.rng, tf)
            for pid in pick_callers(ctx.rng, rows, 1 if tf == "large" else 2):
                for hv in history_variants(ctx.rng, rows, pid, hf):
                    (mk, mid, t0, t1, pc, tag) = hv[:6]
                    it = hv[6] if len(hv) > 6 else None
                    pre = hv[7] if len(hv) > 7 else None
                    for call in CALLS:
                        if t1 is not None and call in ("parent", "parents"):
                            continue
                        evs = None
                        if isinstance(t1, tuple):
                            evs, t1_ = [list(e) for e in t1[1]], None
                        else:
                            t1_ = t1
                        cases.append(mk_case(call, pid, t0, mk=mk, mid=mid, t1=t1_, pids_call=pc,
                                             family=tf + "/" + tag, events=evs, it=it, pre=pre))
                        tags.append(tf + "/" + tag)
        # ---- PID magnitude: the other families relabelled into the whole PID range [1, PID_MAX_LIMIT) + boundary sweep
        mc, mt = gen_magnitude_cases(ctx.rng, ctx.n(1000, 12000))
        cases += mc
        tags += mt
        n_rand = len(cases)
        mc, mt = magnitude_sweep()
        cases += mc
        tags += mt
        # ---- exhaustive small tables
        kmax = 3 if ctx.tier == "quick" else 4
        ex_desc = []
        for k in range(1, kmax + 1):
            cnt = 0
            for rows in exhaustive_tables(k, [2, 3, 5, 8]):
                cnt += 1
                callers = [r[0] for r in rows] if (k < kmax or ctx.tier == "quick") else [rows[0][0], rows[-1][0]]
                for pid in callers:
                    for call in CALLS:
                        cases.append(mk_case(call, pid, rows, family="exhaustive"))
                        tags.append("exhaustive")
            ex_desc.append("%d tables of %d processes" % (cnt, k))
        if ctx.tier != "quick":
            # 5 processes: every ppid assignment (6^5) × every start-time order with at most two levels
            # (all equal, or any split into older/younger: 31), one caller per table (rotating), the two
            # calls whose result depends on depth, rotating as well
            P5 = [2, 3, 5, 8, 13]
            wo2 = [w for w in weak_orders(5) if max(w) <= 1]
            cnt = 0
            for pp in itertools.product(P5 + [0], repeat=5):
                for st in wo2:
                    rows = [[P5[i], pp[i], st[i]] for i in range(5)]
                    pid = P5[cnt % 5]
                    call = ("children_rec", "parents")[(cnt // 5) % 2]
                    cnt += 1
                    cases.append(mk_case(call, pid, rows, family="exhaustive"))
                    tags.append("exhaustive")
            ex_desc.append("%d tables of 5 processes (start orders with ≤2 levels; caller and call — children(recursive=True) / parents() — rotate over the tables)" % cnt)
        # ---- exhaustive: every 2-process table × every assignment of states {running, zombie, unreadable}
        cnt = 0
        for rows in exhaustive_tables(2, [2, 3]):
            for sts in itertools.product("RZXG", repeat=2):
                cnt += 1
                t0 = [rows[i] + [sts[i]] for i in range(2)]
                for i, pid in enumerate((2, 3)):
                    mkr = [list(r) for r in t0]
                    mkr[i][3] = "R" if mkr[i][3] in "XG" else mkr[i][3]     # the object is built on a readable stat
                    for call in CALLS:
                        cases.append(mk_dyn(call, pid, t0, mk=mkr, family="exhaustive-states"))
                        tags.append("exhaustive-states")
        ex_desc.append("%d (2-process table, states in {running, zombie, unreadable, listed with the stat file gone}²)" % cnt)
        if ctx.tier != "quick":
            # thorough: the same over every 3-process table (chains: an unreadable / exiting grandparent, …); one caller
            # per table (rotating), the four calls
            cnt = 0
            for rows in exhaustive_tables(3, [2, 3, 5]):
                for sts in itertools.product("RZXG", repeat=3):
                    i = cnt % 3
                    cnt += 1
                    t0 = [rows[j] + [sts[j]] for j in range(3)]
                    mkr = [list(r) for r in t0]
                    mkr[i][3] = "R" if mkr[i][3] in "XG" else mkr[i][3]
                    for call in CALLS:
                        cases.append(mk_dyn(call, rows[i][0], t0, mk=mkr, family="exhaustive-states"))
                        tags.append("exhaustive-states")
            ex_desc.append("%d (3-process table, states in {R,Z,X,G}³; caller rotates)" % cnt)
        # ---- exhaustive: every 2-process table × caller × the caller's PID recycled (new owner younger / older), incl. the
        # lowest listed PID (region of the FORMER finding C05-recycled-lowest-pid, fixed in /repo d7107b4) — plain and richer world
        cnt = 0
        for rows in exhaustive_tables(2, [2, 3]):
            for i, pid in enumerate((2, 3)):
                for new_start in sorted({rows[i][2] + 1, max(0, rows[i][2] - 1)} - {rows[i][2]}):
                    cnt += 1
                    t0 = [list(r) for r in rows]
                    t0[i][2] = new_start
                    for call in CALLS:
                        cases.append(mk_case(call, pid, t0, mk=rows, family="exhaustive-recycled"))
                        tags.append("exhaustive-recycled")
                        if call in ("parent", "parents"):
                            cases.append(mk_dyn(call, pid, t0, mk=rows, family="exhaustive-recycled"))
                            tags.append("exhaustive-recycled")
        ex_desc.append("%d (2-process table, caller, start time of the caller's PID changed)" % cnt)
        # ---- exhaustive: every 2-process table seen by process_iter() × every 2-process table seen by the call
        cnt = 0
        for old in exhaustive_tables(2, [2, 3]):
            for rows in exhaustive_tables(2, [2, 3]):
                cnt += 1
                for pid in (2, 3):
                    for call in CALLS:
                        cases.append(mk_case(call, pid, rows, it=old, family="exhaustive-iter"))
                        tags.append("exhaustive-iter")
        ex_desc.append("%d pairs (table cached by process_iter(), table seen by the call) of 2 processes" % cnt)
        ex_desc.append("%d boundary PIDs of the range [1, 2^22) (2^k-1, 2^k, 2^k+1 for k = 7..22, 10^k-1, 10^k, 32767/32768, 4194302/4194303) "
                       "x the five roles child / inner node / parent / grandparent / caller of a five-process tree" % len(BOUNDARY_PIDS))
        # ---- run
        CH = 3000
        workers = 1 if ctx.tier == "quick" else max(1, min(16, (os.cpu_count() or 2)))
        if workers > 1:
            run_sharded(ctx, cases, res, workers)
        for a in range(0, len(cases), CH):
            chunk = cases[a:a + CH]
            if workers == 1:
                run_cases(ctx, impl, chunk, res, "correspond")
            for j, c in enumerate(chunk):
                feats = table_features(c)
                fam = tags[a + j]
                res.count("family:" + fam.split("/")[0])
                if "/" in fam:
                    res.count("history:" + fam.split("/")[1])
                res.count("call:" + c["call"])
                for f in feats:
                    res.count("feature:" + f)
                res.count("table_size:%s" % ("1-3" if len(c["t0"]) <= 3 else "4-8" if len(c["t0"]) <= 8 else "9-40"))
                res.count("pid_magnitude:max_pid_%s" % pid_bits_bucket(c))
                res.case((c["call"], c["pid"], c["mk"], c["mid"], c["t0"], c["t1"], c["lowest"], c.get("events"), c.get("iter"), c.get("oneshot"), c.get("statmemo"), c.get("pre")), nontrivial=bool(feats),
                         sample={"family": fam, "case": strip(c)} if (a + j) in (0, 1, 30, 41, 77) else None)
        # ---- as_dict() is not a way to reach the tree methods (if it becomes one, it needs its own family)
        impl.set_table([[1, 0, 1], [4, 1, 2]])
        for name in ("children", "parent", "parents"):
            try:
                impl.ps.Process(4).as_dict(attrs=[name])
                res.disagree("model", {"as_dict": name}, "accepted", None, None,
                             note="as_dict(attrs=[%r]) is accepted now: a call mode the correspondence does not cover" % name)
            except ValueError:
                res.count("as_dict_rejects:" + name)
            except Exception as e:
                res.disagree("model", {"as_dict": name}, type(e).__name__, None, None, note="as_dict(attrs=[%r])" % name)
        # ---- stat lines
        slines = stat_cases(ctx.rng, ctx.n(300, 20000))
        souts = ctx.driver().batch(slines)
        for ln, m in zip(slines, souts):
            if "bad" in m:
                raise RuntimeError("driver rejected %r: %s" % (ln, m))
            comm = bytes.fromhex(ln["comm"])
            data = bytes.fromhex(m["render"])
            py = render_stat(ln["pid"], comm, bytes.fromhex(ln["state"]), ln["ppid"],
                             [bytes.fromhex(x) for x in ln["pre"]], ln["start"], [bytes.fromhex(x) for x in ln["post"]])
            inp = {"stat": ln, "source": "stat"}
            if py != data:
                res.disagree("model", inp, py.hex(), m["render"], None, note="Python stat renderer differs from Spec.renderStat")
                continue
            obs = impl.run_stat(ln["pid"], data)
            if obs != m["spec"]:
                res.disagree("spec", inp, obs, m["model"], m["spec"],
                             note="ppid_map()/ppid()/create_time() do not recover ppid/starttime from the stat line")
            elif obs != m["model"]:
                res.disagree("model", inp, obs, m["model"], m["spec"], note="stat readers differ from the Lean model")
            res.count("family:stat")
            res.count("stat_comm:%s" % ("has_rparen" if b")" in comm else "plain"))
            res.case(("stat", ln["comm"], ln["ppid"], ln["start"], len(ln["post"])), nontrivial=(b")" in comm or b" " in comm or len(ln["post"]) < 30))
        res.exhaustive = ("all ppid assignments (every listed PID or an unlisted one) × all start-time orders with ties "
                          "× callers × the 4 calls over: " + ", ".join(ex_desc) + "; all 256 one-byte comm names and all "
                          "comm strings of length ≤3 over {')','(',' ','a','\\n','1','\\t'}; the random families are samples")
        res.extra["driver_lines"] = len(cases) + len(slines)
        res.extra["random_cases"] = n_rand
        res.extra["workers"] = workers
    finally:
        impl.close()


def search(ctx, res, broken):
    correspond(ctx, res)


# ------------------------------------------------------------------------------ shrink / replay / findings


def _verdict(ctx, impl, case):
    class _R:
        known_seen = {}

        def count(self, *a, **k):
            pass
    try:
        return run_cases(ctx, impl, [case], _R(), "replay", record=False)[0]
    except Exception:
        return None


def _fails(ctx, impl, case, want=None):
    """does the case violate the specification? `want`: the same kind of violation as the original ("spec" = a failing
    input outside every known region, "spec:<id>" = the accepted deviation of a known finding)"""
    v = _verdict(ctx, impl, case)
    if want is not None:
        return v == want
    return v is not None and v.startswith("spec")


def _drop(case, pids):
    def f(rows):
        return None if rows is None else [r for r in rows if r[0] not in pids or r[0] == case["pid"]]
    c = dict(case)
    for k in ("mk", "mid", "t0", "t1", "statmemo"):
        if k in case:
            c[k] = f(case[k])
    if case.get("pre"):
        c["pre"] = [[pc, f(pt)] for pc, pt in case["pre"]]
        c["lowest0"] = calc_lowest0(c)
    if case.get("iter") is not None:
        c["iter"] = [r for r in case["iter"] if r[0] not in pids]
    if case.get("events"):
        c["events"] = [e for e in case["events"] if e[1] not in pids or e[1] == case["pid"]]
        c["t1"] = None
    c["lowest"] = calc_lowest(c)
    return c


def shrink(ctx, d):
    case = d["input"].get("case")
    if not case:
        return d
    impl = Impl(ctx)
    try:
        allp = sorted(({r[0] for k in ("mk", "mid", "t0", "t1", "iter", "statmemo") if case.get(k) for r in case[k]}
                       | {r[0] for _, pt in case.get("pre") or [] for r in pt}) - {case["pid"]})
        want = _verdict(ctx, impl, case)
        if want is None or not want.startswith("spec"):
            return d
        keep = ddmin(allp, lambda ks: _fails(ctx, impl, _drop(case, set(allp) - set(ks)), want), max_tests=40) if len(allp) >= 2 else allp
        small = _drop(case, set(allp) - set(keep))
        if not _fails(ctx, impl, small, want):
            small = case
        m = ctx.driver().batch([strip(small)])[0]
        obs, running, extra = impl.run_case(small)
        if extra.get("older"):
            obs = {"older_than_caller": extra["older"], "out": obs}
        return dict(d, input={"case": small, "source": "shrunk"}, impl=obs, model=m["model"], spec=m["spec"])
    finally:
        impl.close()


def replay(ctx, rp, res):
    inp = rp["input"]
    impl = Impl(ctx)
    try:
        if inp.get("case"):
            return _fails(ctx, impl, inp["case"])
        if inp.get("stat"):
            ln = inp["stat"]
            m = ctx.driver().batch([ln])[0]
            obs = impl.run_stat(ln["pid"], bytes.fromhex(m["render"]))
            return obs != m["spec"]
        return True
    finally:
        impl.close()


def check_finding(ctx, fnd):
    """replay the witness of a known finding: "reproduces" while the implementation gives the finding's deviation,
    "gone" once it gives the literal specification"""
    w = fnd.get("witness") or {}
    if not all(k in w for k in ("call", "pid", "mk", "t0")):
        return "unknown"
    case = mk_case(w["call"], w["pid"], w["t0"], mk=w["mk"], mid=w.get("mid"))
    impl = Impl(ctx)
    try:
        m = ctx.driver().batch([strip(case)])[0]
        obs, running, extra = impl.run_case(case)
        v = spec_verdict(obs, m)
        if v is None:
            return "gone"
        return "reproduces" if v in (fnd.get("id"), "spec") else "unknown"
    finally:
        impl.close()
