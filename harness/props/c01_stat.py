"""C01 — the BYTES of /proc/<pid>/stat as a dimension of the histories (seeded round 5, C01-6).

The identity (pid, create_time) the reuse guard compares is PARSED from the stat line the kernel publishes:
`pid (comm) state ppid … starttime …`.  comm is chosen by the process (prctl(PR_SET_NAME), the executable's
name): any bytes — spaces, parentheses, `) `, newlines, text that looks like the rest of a stat line.

This module holds
  * the translator facts for the reader (`stat_facts`): how `_pslinux.Process._parse_stat_file` locates the end of
    the name, how it splits what follows, which field it stores under 'create_time' / 'status', and what
    `create_time()` does with it — by a small symbolic evaluation of the function bodies (local names substituted,
    module-level helper functions inlined), so that the facts describe the data flow, not the spelling;
  * the kernel side: rendering of a stat line from (pid, comm, state, aux fields, starttime) — proc(5);
  * the comm / field pools and the generator family `stat_bytes` + the sweep `exhaustive_stat`
    (structured + random + small exhaustive), used by harness/props/c01.py.
"""
import ast
import copy
import itertools

from harness.common import extract

# ------------------------------------------------------------------------------ translator: the reader's data flow

_MAX_DEPTH = 4


class _Subst(ast.NodeTransformer):
    def __init__(self, env, module_fns, depth):
        self.env = env
        self.fns = module_fns
        self.depth = depth

    def visit_Name(self, n):
        if isinstance(n.ctx, ast.Load) and n.id in self.env:
            return copy.deepcopy(self.env[n.id])
        return n

    def visit_Call(self, n):
        n = self.generic_visit(n)
        if isinstance(n.func, ast.Name) and n.func.id in self.fns and self.depth < _MAX_DEPTH and not n.keywords:
            r = _inline(self.fns[n.func.id], n.args, self.fns, self.depth + 1)
            if r is not None:
                return r
        return n

    def visit_Subscript(self, n):
        n = self.generic_visit(n)
        # (a, b)[1] → b
        if isinstance(n.value, ast.Tuple) and isinstance(n.slice, ast.Constant) and isinstance(n.slice.value, int) \
                and 0 <= n.slice.value < len(n.value.elts):
            return n.value.elts[n.slice.value]
        return n


def _bind(env, target, value):
    if isinstance(target, ast.Name):
        env[target.id] = value
    elif isinstance(target, (ast.Tuple, ast.List)):
        if isinstance(value, ast.Tuple) and len(value.elts) == len(target.elts):
            for t, v in zip(target.elts, value.elts):
                _bind(env, t, v)
        else:
            for i, t in enumerate(target.elts):
                _bind(env, t, ast.Subscript(value=copy.deepcopy(value), slice=ast.Constant(value=i), ctx=ast.Load()))


def _is_opaque_source(v):
    """a value that is an INPUT of the data flow (file content): the name bound to it stays symbolic"""
    return isinstance(v, ast.Call) and extract.dotted(v.func).split(".")[-1] in ("bcat", "cat", "read")


def _straight_env(fn, env, fns, depth, stores=None):
    """symbolic environment after the straight-line top-level statements of `fn` (try bodies are entered: their
    statements run; `if` / loops are not — a name assigned there is dropped from the environment, i.e. unknown)"""
    ret = None

    def run(stmts):
        nonlocal ret
        for st in stmts:
            if isinstance(st, ast.Assign):
                v = _Subst(env, fns, depth).visit(copy.deepcopy(st.value))
                for t in st.targets:
                    if isinstance(t, ast.Subscript) and stores is not None and isinstance(t.value, ast.Name):
                        try:
                            stores.setdefault(t.value.id, {})[extract.const(t.slice)] = v
                        except extract.NotRecognised:
                            pass
                    elif _is_opaque_source(st.value) and isinstance(t, ast.Name):
                        env.pop(t.id, None)
                        env["__source__:" + t.id] = ast.Constant(value=None)
                    else:
                        _bind(env, t, v)
            elif isinstance(st, ast.Return):
                if ret is None and st.value is not None:
                    ret = _Subst(env, fns, depth).visit(copy.deepcopy(st.value))
            elif isinstance(st, ast.Try):
                run(st.body)
            elif isinstance(st, ast.With):
                for it in st.items:
                    if it.optional_vars is not None and isinstance(it.optional_vars, ast.Name):
                        env.pop(it.optional_vars.id, None)
                run(st.body)
            elif isinstance(st, (ast.If, ast.For, ast.While)):
                for n in ast.walk(st):
                    if isinstance(n, ast.Name) and isinstance(n.ctx, ast.Store):
                        env[n.id] = ast.Name(id="<branch-dependent:%s>" % n.id, ctx=ast.Load())
            elif isinstance(st, ast.Expr):
                pass
    run(fn.body)
    return ret


def _inline(fn, args, fns, depth):
    params = [a.arg for a in fn.args.args]
    if params and params[0] == "self":
        return None
    if len(args) > len(params) or fn.args.vararg or fn.args.kwarg:
        return None
    env = {}
    defaults = fn.args.defaults
    for i, p in enumerate(params):
        if i < len(args):
            env[p] = args[i]
        else:
            d = i - (len(params) - len(defaults))
            if d < 0:
                return None
            env[p] = defaults[d]
    return _straight_env(fn, env, fns, depth)


def _module_fns(tree):
    return {n.name: n for n in tree.body if isinstance(n, ast.FunctionDef)}


def _reader_of(expr, sources):
    """closed expression of one stored field → (search, needle, skip, split, index) or a reason string"""
    if not (isinstance(expr, ast.Subscript) and isinstance(expr.slice, ast.Constant) and isinstance(expr.slice.value, int)
            and expr.slice.value >= 0):
        return "not fields[<const>]: " + ast.unparse(expr)[:90]
    idx = expr.slice.value
    sp = expr.value
    if not (isinstance(sp, ast.Call) and isinstance(sp.func, ast.Attribute) and sp.func.attr == "split"):
        return "not a split(): " + ast.unparse(sp)[:90]
    split = "ws" if not sp.args and not sp.keywords else "other:split(%s)" % ", ".join(ast.unparse(a) for a in sp.args)
    sub = sp.func.value
    if not (isinstance(sub, ast.Subscript) and isinstance(sub.value, ast.Name) and sub.value.id in sources
            and isinstance(sub.slice, ast.Slice) and sub.slice.upper is None and sub.slice.step is None
            and sub.slice.lower is not None):
        return "not <file content>[k:]: " + ast.unparse(sub)[:90]
    src = sub.value.id
    lo = sub.slice.lower
    skip = 0
    if isinstance(lo, ast.BinOp) and isinstance(lo.op, ast.Add) and isinstance(lo.right, ast.Constant) \
            and isinstance(lo.right.value, int) and lo.right.value >= 0:
        skip, lo = lo.right.value, lo.left
    if not (isinstance(lo, ast.Call) and isinstance(lo.func, ast.Attribute) and lo.func.attr in ("find", "rfind")
            and isinstance(lo.func.value, ast.Name) and lo.func.value.id == src and not lo.keywords and lo.args
            and isinstance(lo.args[0], ast.Constant) and isinstance(lo.args[0].value, bytes)):
        return "end of the name not located by <file content>.find/rfind(<bytes>): " + ast.unparse(lo)[:90]
    needle = lo.args[0].value
    extra = lo.args[1:]
    if extra:
        # a start offset that is the position of the opening parenthesis (+ const) does not change what `find` returns
        # on a kernel-formatted line (the PID digits before it hold no parenthesis); anything else is not recognised
        a = extra[0]
        if isinstance(a, ast.BinOp) and isinstance(a.op, ast.Add) and isinstance(a.right, ast.Constant):
            a = a.left
        ok = (len(extra) == 1 and lo.func.attr == "find" and isinstance(a, ast.Call) and isinstance(a.func, ast.Attribute)
              and a.func.attr == "find" and isinstance(a.func.value, ast.Name) and a.func.value.id == src
              and len(a.args) == 1 and isinstance(a.args[0], ast.Constant) and a.args[0].value == b"(")
        if not ok:
            return "find/rfind with offsets: " + ast.unparse(lo)[:90]
    return (lo.func.attr, needle, skip, split, idx)


def reader_shape(plat):
    """{'create_time': reader, 'status': reader} for `_pslinux.Process._parse_stat_file` (reader = 5-tuple or reason)"""
    fn = extract.find_def(plat, "_parse_stat_file", "Process")
    fns = _module_fns(plat)
    env, stores = {}, {}
    ret = _straight_env(fn, env, fns, 0, stores)
    sources = {k.split(":", 1)[1] for k in env if k.startswith("__source__:")}
    table = {}
    rname = next((st.value.id for st in fn.body if isinstance(st, ast.Return) and isinstance(st.value, ast.Name)), None)
    if isinstance(ret, ast.Dict):
        for k, v in zip(ret.keys, ret.values):
            if isinstance(k, ast.Constant):
                table[k.value] = v
    if rname is not None:
        table.update(stores.get(rname, {}))
    out = {}
    for key in ("create_time", "status"):
        out[key] = _reader_of(table[key], sources) if key in table else "key %r is not stored" % key
    return out


def create_reads(plat):
    """what `_pslinux.Process.create_time` does with the stat record: 'float(create_time)/CLOCK_TICKS' or other:…"""
    fn = extract.find_def(plat, "create_time", "Process")
    env = {}
    ret = _straight_env(fn, env, {}, 0)
    if ret is None:
        return "other:no return"
    e = ret
    if isinstance(e, ast.BinOp) and isinstance(e.op, ast.Add):
        for side in (e.left, e.right):
            if (isinstance(side, ast.BinOp) and isinstance(side.op, ast.Div) and isinstance(side.right, ast.Name)
                    and side.right.id == "CLOCK_TICKS" and isinstance(side.left, ast.Call)
                    and extract.dotted(side.left.func) == "float" and len(side.left.args) == 1):
                a = side.left.args[0]
                if (isinstance(a, ast.Subscript) and isinstance(a.slice, ast.Constant) and isinstance(a.value, ast.Call)
                        and extract.dotted(a.value.func) == "self._parse_stat_file"):
                    return "float(%s)/CLOCK_TICKS" % a.slice.value
    return "other:" + ast.unparse(ret)[:100]


def stat_facts(snap, F):
    plat = extract.parse_module(snap, "_pslinux.py")
    memo = {}

    def shape():
        if "s" not in memo:
            try:
                memo["s"] = reader_shape(plat)
            except (extract.NotRecognised, AttributeError, IndexError, KeyError, TypeError, ValueError) as e:
                memo["s"] = {"create_time": "%s: %s" % (type(e).__name__, e), "status": "%s: %s" % (type(e).__name__, e)}
        return memo["s"]

    def ct(i, default):
        r = shape()["create_time"]
        return r[i] if isinstance(r, tuple) else default

    def search():
        r, s = shape()["create_time"], shape()["status"]
        if not isinstance(r, tuple):
            return "other:" + r
        if isinstance(s, tuple) and s[:4] != r[:4]:
            return "other:status and create_time are read from differently split fields"
        return r[0]

    def status_idx():
        s = shape()["status"]
        return s[4] if isinstance(s, tuple) else 0

    def split():
        r, s = shape()["create_time"], shape()["status"]
        if not isinstance(r, tuple):
            return "other:" + r
        if not isinstance(s, tuple):
            return "other:status: " + s
        return r[3]

    def creads():
        try:
            return create_reads(plat)
        except (extract.NotRecognised, AttributeError, IndexError, KeyError, TypeError, ValueError) as e:
            return "other:%s: %s" % (type(e).__name__, e)

    one_line = lambda s: " ".join(str(s).split())
    F.try_add("statSearch", "String", lambda: extract.lean_str(one_line(search())),
              "_parse_stat_file: how the end of the process name is located in the content of /proc/<pid>/stat, after substituting locals and inlining module-level helpers: rfind | find | other:…")
    F.try_add("statNeedle", "List Nat", lambda: extract.lean_bytes(ct(1, b"")),
              "_parse_stat_file: the bytes that search looks for")
    F.try_add("statSkip", "Nat", lambda: extract.lean_nat(ct(2, 0)),
              "_parse_stat_file: fields = <content>[<position> + k :].split()")
    F.try_add("statSplit", "String", lambda: extract.lean_str(one_line(split())),
              "_parse_stat_file: ws = .split() with no argument (runs of whitespace), for both 'status' and 'create_time'; other:…")
    F.try_add("statCtimeIdx", "Nat", lambda: extract.lean_nat(ct(4, 0)),
              "_parse_stat_file: ret['create_time'] = fields[i]")
    F.try_add("statStatusIdx", "Nat", lambda: extract.lean_nat(status_idx()),
              "_parse_stat_file: ret['status'] = fields[i]")
    F.try_add("createReads", "String", lambda: extract.lean_str(one_line(creads())),
              "_pslinux.Process.create_time: the term of its result that comes from the stat record")


# ------------------------------------------------------------------------------ kernel side: rendering (proc(5))

def default_pre(pid):
    # pgrp session tty_nr tpgid flags | minflt cminflt majflt cmajflt utime stime cutime cstime | priority nice
    # num_threads itrealvalue
    return [pid, pid, 0, -1, 4194304] + [0] * 8 + [20, 0, 1, 0]


DEFAULT_POST = [1000, 10] + [0] * 28


def default_line(pid):
    return {"comm": b"proc %d" % pid, "letter": ord("S"), "ppid": 1, "pre": default_pre(pid), "post": list(DEFAULT_POST)}


def line_of(op):
    """the stat-line content a `spawn` / `stat` op describes (omitted keys = the default line)"""
    d = default_line(op["pid"])
    if "comm" in op:
        d["comm"] = bytes.fromhex(op["comm"])
    for k in ("letter", "ppid"):
        if k in op:
            d[k] = int(op[k])
    for k in ("pre", "post"):
        if k in op:
            d[k] = [int(x) for x in op[k]]
    return d


def render_line(pid, start, zombie, line):
    tail = [b"Z" if zombie else bytes([line["letter"]]), b"%d" % line["ppid"]] + [b"%d" % x for x in line["pre"]] + \
           [b"%d" % start] + [b"%d" % x for x in line["post"]]
    return b"%d (" % pid + line["comm"] + b") " + b" ".join(tail) + b"\n"


def line_wf(line):
    """Aux.WF of Model/C01Stat.lean"""
    l = line["letter"]
    ws = l == 32 or 9 <= l <= 13
    return (not ws) and l != 41 and l != 90 and 0 <= l < 256 and len(line["pre"]) == 17 and len(line["post"]) >= 17


# ------------------------------------------------------------------------------ pools

def spoof_tail(start, n=44):
    """a comm that looks like the rest of a stat line whose starttime is `start` (a reader that stops at the FIRST
    closing parenthesis reads the process's own choice of fields)"""
    f = ["S", "1", "1", "1", "0", "-1", "4194304"] + ["0"] * 8 + ["20", "0", "1", "0", str(start)] + ["0"] * (n - 20)
    return ("x) " + " ".join(f)).encode()


STRUCTURED_COMMS = [
    b"job (a) 1", b"job (b) 2", b"a) b", b"c) d", b") ", b")", b"(", b"()", b") (", b"a b", b" ", b"", b"x)", b"(sd-pam)",
    b"a\nb", b"a) \nb", b"kworker/0:1-ev)", b")))) ", b") Z 0 0 0", b") S 1 2 3", b"((", b") ) ) ", b"a)\tb", b"tmux: server",
    b"\xff\xfe) \x01", b"Web Content", b"a) 1 2 3 4 5 6 7 8 9 10 11 12 13 14 15 16 17 18 19 20 21 22 23 24 25 26 27 28 29 30 31 32 33 34 35 36 37 38 39 40",
]

COMM_ALPHABET = b"() ab1)\n) "


def rand_comm(rng):
    r = rng.random()
    if r < 0.45:
        return rng.choice(STRUCTURED_COMMS)
    if r < 0.55:
        return spoof_tail(rng.randrange(0, 60))
    n = rng.randrange(0, 16)
    return bytes(rng.choice(COMM_ALPHABET) for _ in range(n))


def same_shape(rng, comm):
    """another name of the same shape (a restarted worker): letters and digits replaced, punctuation kept"""
    out = bytearray()
    for c in comm:
        if 48 <= c <= 57:
            out.append(rng.choice(b"0123456789"))
        elif 97 <= c <= 122:
            out.append(rng.choice(b"abcxyz"))
        else:
            out.append(c)
    return bytes(out)


def rand_line(rng, pid):
    d = default_line(pid)
    d["comm"] = rand_comm(rng)
    d["letter"] = rng.choice(b"RSDTtI")
    d["ppid"] = rng.choice([0, 1, 1, 2, 777, rng.randrange(1, 4000000)])
    pre = [rng.choice([pid, 1, rng.randrange(0, 99999)]), rng.choice([pid, 1]), rng.choice([0, 34816]), rng.choice([-1, pid]),
           rng.choice([4194304, 4194560, 1077936128])]
    pre += [rng.choice([0, 0, rng.randrange(0, 10**6)]) for _ in range(8)]
    pre += [rng.choice([20, 0, -100, 39]), rng.choice([0, -20, 19]), rng.choice([1, 1, 2, 4, 33]), 0]
    d["pre"] = pre
    n = rng.choice([30, 30, 30, 17, 22, 40])
    d["post"] = [rng.choice([0, 0, 1, rng.randrange(0, 2**40)]) for _ in range(n)]
    return d


def as_keys(line):
    return {"comm": line["comm"].hex(), "letter": line["letter"], "ppid": line["ppid"], "pre": list(line["pre"]),
            "post": list(line["post"])}


def successor_line(rng, line, pid):
    """what the NEXT holder of the PID shows: the same name / a name of the same shape / anything; the same other
    fields (a restarted worker) or fresh ones"""
    r = rng.random()
    new = dict(line) if rng.random() < 0.6 else rand_line(rng, pid)
    if r < 0.3:
        new["comm"] = line["comm"]
    elif r < 0.7:
        new["comm"] = same_shape(rng, line["comm"])
    else:
        new["comm"] = rand_comm(rng)
    return new


# ------------------------------------------------------------------------------ generators

def gen_stat_history(rng, Plan, rand_btime, pids, clk):
    """family `stat_bytes`: every incarnation shows a chosen comm and chosen other fields; the PID is recycled (1–3
    times; new holder live / zombie) by a process with the same / a same-shaped / any name; lines are rewritten while
    the process lives; signals / setters go through stale and through live handles"""
    P = Plan(rng, rand_btime(rng), clk)
    p = rng.choice(pids)
    shape = rng.choice(["recycle", "recycle", "recycle", "live_rename", "two_pids"])
    line = rand_line(rng, p)
    if shape == "recycle" and rng.random() < 0.5:
        line["comm"] = rng.choice(STRUCTURED_COMMS)
    P.ev(op="spawn", pid=p, **as_keys(line))
    if rng.random() < 0.8:
        P.ev(op="new", pid=p)
    else:
        P.ev(op="process_iter")
    if shape == "live_rename":
        for _ in range(rng.randrange(1, 4)):
            line = rand_line(rng, p) if rng.random() < 0.5 else dict(line, comm=rand_comm(rng))
            P.ev(op="stat", pid=p, **as_keys(line))
            i = rng.randrange(P.nobj)
            P.effect_call(i) if rng.random() < 0.7 else P.query(i)
        if rng.random() < 0.5:
            P.ev(op="exit", pid=p)
            P.effect_call(0)
        P.ev(op="is_running", i=0)
        return P.hist("stat_bytes")
    if shape == "two_pids":
        q = rng.choice([x for x in pids if x != p])
        P.ev(op="spawn", pid=q, **as_keys(dict(line)))       # a bystander with the very same line
        P.ev(op="new", pid=q)
    for _ in range(rng.randrange(1, 4)):
        if rng.random() < 0.3:
            P.ev(op="stat", pid=p, **as_keys(dict(line, comm=rand_comm(rng))))
        if rng.random() < 0.3:
            P.ev(op="exit", pid=p)
        P.ev(op="reap", pid=p)
        if rng.random() < 0.3:
            P.query(rng.randrange(P.nobj))
        P.tick()
        line = successor_line(rng, line, p)
        if rng.random() < 0.15:
            # the new holder names itself so that a first-parenthesis reader sees the OLD holder's start time
            line["comm"] = spoof_tail(0)
        P.ev(op="spawn", pid=p, **as_keys(line))
        if rng.random() < 0.3:
            P.ev(op="exit", pid=p)
        if rng.random() < 0.4:
            P.ev(op="new", pid=p)
        for _ in range(rng.randrange(1, 3)):
            P.effect_call(rng.randrange(P.nobj))
    for i in range(P.nobj):
        P.ev(op="is_running", i=i)
    return P.hist("stat_bytes")


def small_comms(maxlen, alphabet=b"() a"):
    out = [b""]
    for n in range(1, maxlen + 1):
        out.extend(bytes(c) for c in itertools.product(alphabet, repeat=n))
    return out


def exhaustive_stat(maxlen=2, btime=1000):
    """(a) all pairs (c1, c2) of comms of length <= maxlen over {'(', ')', ' ', 'a'}: spawn(c1) · Process · reap ·
    spawn(c2) · kill(0) · nice(0) with the same other fields for both holders; (b) all pairs: spawn(c1) · Process ·
    rename to c2 · terminate(0) (the live process must get its signal)"""
    p = 5
    comms = small_comms(maxlen)
    for c1 in comms:
        for c2 in comms:
            yield {"btime": btime, "family": "exhaustive_stat", "hyp": True, "ops": [
                {"op": "spawn", "pid": p, "comm": c1.hex()}, {"op": "new", "pid": p}, {"op": "reap", "pid": p},
                {"op": "spawn", "pid": p, "comm": c2.hex()}, {"op": "signal", "i": 0, "m": "kill", "sig": 0},
                {"op": "setter", "i": 0, "k": "nice", "args": [3]}]}
    for c1 in comms:
        for c2 in comms:
            if c1 == c2:
                continue
            yield {"btime": btime, "family": "exhaustive_stat", "hyp": True, "ops": [
                {"op": "spawn", "pid": p, "comm": c1.hex()}, {"op": "new", "pid": p},
                {"op": "stat", "pid": p, "comm": c2.hex()}, {"op": "signal", "i": 0, "m": "terminate", "sig": 0}]}


def corpus():
    """structured corpus: every structured comm against itself / its same-shape sibling, recycled with the same other
    fields; the spoofed tail; renames of a live process"""
    import random
    rng = random.Random(20260930)
    hs = []
    for c in STRUCTURED_COMMS:
        for c2 in (c, same_shape(rng, c)):
            hs.append({"btime": 1700000000, "family": "corpus:stat-bytes", "hyp": True, "ops": [
                {"op": "spawn", "pid": 7, "comm": c.hex(), "ppid": 1}, {"op": "new", "pid": 7}, {"op": "reap", "pid": 7},
                {"op": "tick", "n": 40}, {"op": "spawn", "pid": 7, "comm": c2.hex(), "ppid": 777},
                {"op": "signal", "i": 0, "m": "send", "sig": 10}, {"op": "signal", "i": 0, "m": "kill", "sig": 0},
                {"op": "setter", "i": 0, "k": "nice", "args": [5]}, {"op": "setter", "i": 0, "k": "ionice", "args": [2, 3]},
                {"op": "setter", "i": 0, "k": "rlimit", "args": [7, 64, 64]}, {"op": "setter", "i": 0, "k": "affinity", "args": [0]},
                {"op": "is_running", "i": 0}, {"op": "new", "pid": 7}, {"op": "signal", "i": 1, "m": "terminate", "sig": 0}]})
    hs.append({"btime": 1000, "family": "corpus:stat-spoofed-tail", "hyp": True, "ops": [
        {"op": "spawn", "pid": 7}, {"op": "new", "pid": 7}, {"op": "reap", "pid": 7}, {"op": "tick", "n": 5},
        {"op": "spawn", "pid": 7, "comm": spoof_tail(0).hex()}, {"op": "signal", "i": 0, "m": "kill", "sig": 0},
        {"op": "is_running", "i": 0}]})
    hs.append({"btime": 1000, "family": "corpus:stat-rename-live", "hyp": True, "ops": [
        {"op": "spawn", "pid": 7, "comm": b"worker".hex()}, {"op": "new", "pid": 7},
        {"op": "stat", "pid": 7, "comm": b"job (a) 1".hex()}, {"op": "signal", "i": 0, "m": "terminate", "sig": 0},
        {"op": "stat", "pid": 7, "comm": spoof_tail(33).hex()}, {"op": "setter", "i": 0, "k": "nice", "args": [1]},
        {"op": "is_running", "i": 0}, {"op": "new", "pid": 7}, {"op": "eq", "i": 0, "j": 1}]})
    return hs


def stat_features(h):
    """which parts of the byte dimension a history spans (counted in the evidence)"""
    f = set()
    comms = {}
    for o in h["ops"]:
        if o["op"] in ("spawn", "stat") and "comm" in o:
            c = bytes.fromhex(o["comm"])
            f.add("stat:comm_given")
            if b") " in c:
                f.add("stat:comm_has_rpar_space")
            elif b")" in c:
                f.add("stat:comm_has_rpar")
            if b"(" in c:
                f.add("stat:comm_has_lpar")
            if b"\n" in c:
                f.add("stat:comm_has_newline")
            if len(c) > 15:
                f.add("stat:comm_long(spoofed tail)")
            if o["op"] == "stat":
                f.add("stat:line_rewritten_while_alive")
            elif o["pid"] in comms:
                f.add("stat:recycled_with_comm")
                if c == comms[o["pid"]]:
                    f.add("stat:recycled_same_comm")
            comms[o["pid"]] = c
            if "pre" in o:
                f.add("stat:other_fields_given")
    return f
