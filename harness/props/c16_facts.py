"""C16 translator: facts about oneshot()/memoize_when_activated/as_dict re-derived from the
current source (ast + one runtime dump). Kept apart from c16.py so that it can be run on its own."""
import ast

from harness.common import extract
from harness.common.extract import NotRecognised

# helper -> which per-process file it reads is itself extracted (basename of the f-string)
MODELLED = ["name", "ppid", "cpu_times", "cpu_num", "uids", "gids", "username", "num_threads",
            "num_ctx_switches", "memory_info", "memory_full_info", "memory_maps", "cmdline",
            "io_counters"]
OPENERS = {"open_binary", "open_text", "bcat", "cat", "open"}


def _walk_defs(body):
    """FunctionDefs of a class body, including those nested under `if POSIX:`-style blocks."""
    for n in body:
        if isinstance(n, (ast.FunctionDef, ast.AsyncFunctionDef)):
            yield n
        elif isinstance(n, ast.If):
            yield from _walk_defs(n.body)
            yield from _walk_defs(n.orelse)


def class_defs(tree, cls):
    c = extract.find_class(tree, cls)
    out = {}
    for f in _walk_defs(c.body):
        out.setdefault(f.name, f)
    return out


def has_deco(fn, name):
    return any(d.split(".")[-1] == name for d in extract.decorators(fn))


def _fstring_basename(node):
    """f"{self._procfs_path}/{self.pid}/stat" -> "stat" """
    if isinstance(node, ast.JoinedStr) and node.values and isinstance(node.values[-1], ast.Constant):
        tail = str(node.values[-1].value)
        if tail.startswith("/") and "/" not in tail[1:]:
            return tail[1:]
    raise NotRecognised("path expression not recognised: %s" % ast.dump(node)[:80])


def _self_calls(node):
    """(attr name, Call node) for every `self.<attr>(...)` under node, in source order."""
    out = []
    for n in ast.walk(node):
        if isinstance(n, ast.Call) and isinstance(n.func, ast.Attribute) and isinstance(n.func.value, ast.Name) \
                and n.func.value.id == "self":
            out.append((n.lineno, n.col_offset, n.func.attr, n))
    out.sort(key=lambda t: (t[0], t[1]))
    return [(a, c) for _, _, a, c in out]


class Linux:
    """Source reads of _pslinux.Process methods."""

    def __init__(self, tree):
        self.defs = class_defs(tree, "Process")
        self.helper_src = {}
        self.alt_log = []        # tried-first files met while the sources of a method were collected
        for name, fn in self.defs.items():
            if has_deco(fn, "memoize_when_activated"):
                try:
                    self.helper_src[name] = self._direct_sources(fn)[0]
                except NotRecognised:
                    self.helper_src[name] = "?" + name      # not "one helper, one file": the token is dropped, cfg_lists_complete fails

    def _direct_sources(self, fn):
        out = []
        for n in ast.walk(fn):
            if isinstance(n, ast.Call) and extract.dotted(n.func).split(".")[-1] in OPENERS and n.args:
                try:
                    out.append((n.lineno, n.col_offset, _fstring_basename(n.args[0])))
                except NotRecognised:
                    pass
        out.sort()
        if has_deco(fn, "memoize_when_activated") and len(out) != 1:
            raise NotRecognised("%s: expected exactly one file read" % fn.name)
        return [s for _, _, s in out]

    def sources(self, name, depth=0):
        """Ordered list of sources read by platform method `name`, following self-calls. `try: <read A> except
        (…, FileNotFoundError): <read B>` contributes B (the fallback) to the list and A to `self.alt_log` (the
        file tried first: fact methAlt; the model reads A instead of B in a world where A can be opened)."""
        if depth > 4 or name not in self.defs:
            raise NotRecognised("platform method %s not found" % name)
        fn = self.defs[name]
        return self._sources_of_body(fn.body, depth)

    def _sources_of_body(self, body, depth):
        events = []
        local_paths = {}
        for st in body:
            for n in ast.walk(st):
                if isinstance(n, ast.Assign) and len(n.targets) == 1 and isinstance(n.targets[0], ast.Name) \
                        and isinstance(n.value, ast.JoinedStr):
                    local_paths[n.targets[0].id] = n.value

        def expr_events(node, out):
            for sub in self._ordered_nodes(node):
                if isinstance(sub, ast.Call):
                    fname = extract.dotted(sub.func).split(".")[-1]
                    if fname in OPENERS and sub.args:
                        arg = sub.args[0]
                        if isinstance(arg, ast.Name) and arg.id in local_paths:
                            arg = local_paths[arg.id]
                        try:
                            out.append(_fstring_basename(arg))
                        except NotRecognised:
                            pass
                    elif isinstance(sub.func, ast.Attribute) and isinstance(sub.func.value, ast.Name) \
                            and sub.func.value.id == "self":
                        a = sub.func.attr
                        if a in self.helper_src:
                            out.append(self.helper_src[a])
                        elif a in self.defs and not a.startswith("_raise") and a != "_is_zombie":
                            out.extend(self.sources(a, depth + 1))
                        elif a.startswith("_") and a not in self.defs and not a.startswith("_raise"):
                            pass

        def visit(stmts, out):
            for st in stmts:
                if isinstance(st, (ast.FunctionDef, ast.AsyncFunctionDef, ast.ClassDef)):
                    continue
                if isinstance(st, ast.Try):
                    if any(self._catches_enoent(h) for h in st.handlers):
                        tried, fallback = [], []
                        visit(st.body, tried)
                        for h in st.handlers:
                            if self._catches_enoent(h):
                                visit(h.body, fallback)
                        if tried == fallback or not tried:
                            out.extend(fallback)
                        elif len(tried) == 1 and fallback:
                            self.alt_log.append((tried[0], fallback[0]))
                            out.extend(fallback)
                        else:
                            # shape not modelled (several files tried, or no fallback read): report what is tried, in order
                            out.extend(tried + fallback)
                    else:
                        visit(st.body, out)
                    visit(st.orelse, out)
                    visit(st.finalbody, out)
                elif isinstance(st, ast.If):
                    expr_events(st.test, out)
                    a, b = [], []
                    visit(st.body, a)
                    visit(st.orelse, b)
                    out.extend(a if (a == b or not b) else a + b)
                elif isinstance(st, (ast.For, ast.While)):
                    expr_events(st.iter if isinstance(st, ast.For) else st.test, out)
                    visit(st.body, out)
                elif isinstance(st, ast.With):
                    for it in st.items:
                        expr_events(it.context_expr, out)
                    visit(st.body, out)
                else:
                    expr_events(st, out)
        visit(body, events)
        return events

    @staticmethod
    def _ordered_nodes(st):
        nodes = [n for n in ast.walk(st) if hasattr(n, "lineno")]
        nodes.sort(key=lambda n: (n.lineno, n.col_offset))
        return nodes

    @staticmethod
    def _catches_enoent(h):
        if h.type is None:
            return False
        names = [extract.dotted(e) for e in (h.type.elts if isinstance(h.type, ast.Tuple) else [h.type])]
        return "FileNotFoundError" in names

    def zprobe(self, name):
        fn = self.defs[name]
        for n in ast.walk(fn):
            if isinstance(n, ast.If) and isinstance(n.test, ast.UnaryOp) and isinstance(n.test.op, ast.Not):
                if any(a == "_raise_if_zombie" for a, _ in _self_calls(n)):
                    return True
        return False


class Front:
    def __init__(self, tree):
        self.defs = class_defs(tree, "Process")
        self.memo = [n for n, f in self.defs.items() if has_deco(f, "memoize_when_activated")]

    def describe(self, name):
        """(front memo function or "", guard, platform method name)"""
        if name not in self.defs:
            raise NotRecognised("front-end method %s not found" % name)
        fn = self.defs[name]
        front = name if name in self.memo else ""
        guard = any(a == "_raise_if_pid_reused" for a, _ in _self_calls(fn))
        plat = None
        for a, _ in _self_calls(fn):
            if a in self.memo and a != name:
                # goes through another front-end memoised method (username -> uids)
                f2, g2, p2 = self.describe(a)
                return a, guard or g2, p2
        for n in ast.walk(fn):
            if isinstance(n, ast.Call) and isinstance(n.func, ast.Attribute) \
                    and extract.dotted(n.func.value) == "self._proc":
                plat = n.func.attr if plat is None else plat
        if plat is None:
            # goes through another front-end method (username -> uids)
            for a, _ in _self_calls(fn):
                if a in self.memo:
                    f2, g2, p2 = self.describe(a)
                    return a, guard or g2, p2
            raise NotRecognised("%s: no platform call found" % name)
        return front, guard, plat

    def oneshot_facts(self):
        """Total: every shape yields values (a shape the model does not know gives `false` / empty lists, the
        obligations then fail); only a missing `oneshot` raises."""
        fn = self.defs["oneshot"]

        def is_hasattr_cache(t):
            return (isinstance(t, ast.Call) and extract.dotted(t.func) == "hasattr" and len(t.args) == 2
                    and extract.dotted(t.args[0]) == "self" and extract.const(t.args[1]) == "_cache")
        hifs = [n for n in self._ordered(fn) if isinstance(n, ast.If) and is_hasattr_cache(n.test)]
        hif = hifs[0] if len(hifs) == 1 else None
        # the nested branch is exactly "yield": no call of any kind (no activation, no deactivation, no oneshot_exit)
        nested = (hif is not None
                  and any(isinstance(x, ast.Yield) for s in hif.body for x in ast.walk(s))
                  and not any(isinstance(x, ast.Call) for s in hif.body for x in ast.walk(s))
                  and not any(isinstance(x, (ast.Try, ast.With)) for s in hif.body for x in ast.walk(s)))
        scope = hif.orelse if hif is not None else fn.body
        tries = [n for s in scope for n in self._ordered(s) if isinstance(n, ast.Try)
                 and any(isinstance(x, ast.Yield) for b in n.body for x in ast.walk(b))]
        t = tries[0] if len(tries) == 1 else None
        anchor = hif or t
        under_lock = False
        for w in ast.walk(fn):
            if isinstance(w, ast.With) and any(extract.dotted(i.context_expr) == "self._lock" for i in w.items):
                inside = [x for b in w.body for x in ast.walk(b)]
                if anchor is not None and any(x is anchor for x in inside):
                    under_lock = True
                elif anchor is None and any(isinstance(x, ast.Yield) for x in inside):
                    under_lock = True

        order = {}

        def acts(stmts, what):
            front, proc, seq = [], False, []
            for s in stmts:
                for n in self._ordered(s):
                    if isinstance(n, ast.Call):
                        d = extract.dotted(n.func)
                        if d.startswith("self.") and d.endswith("." + what):
                            front.append(d.split(".")[1])
                            seq.append("front")
                        if d == "self._proc." + ("oneshot_enter" if what == "cache_activate" else "oneshot_exit"):
                            proc = True
                            seq.append("proc")
            order[what] = seq
            return front, proc
        if t is not None:
            a_front, a_proc = acts(t.body, "cache_activate")
            d_front_body, d_proc_body = acts(t.body + t.orelse + [h for hh in t.handlers for h in hh.body], "cache_deactivate")
            d_front, d_proc = acts(t.finalbody, "cache_deactivate")
            in_finally = (bool(d_front) or d_proc) and not d_front_body and not d_proc_body
            if not in_finally:
                d_front, d_proc = acts(t.body + t.orelse + t.finalbody, "cache_deactivate")
        else:
            a_front, a_proc = acts(scope, "cache_activate")
            d_front, d_proc = acts(scope, "cache_deactivate")
            in_finally = False
        return {"underLock": under_lock, "nestedTest": nested, "exitInFinally": in_finally,
                "frontActivate": a_front, "frontDeactivate": d_front, "procEnter": a_proc, "procExit": d_proc,
                "actOrder": order["cache_activate"], "deactOrder": order["cache_deactivate"]}

    @staticmethod
    def _ordered(st):
        nodes = [n for n in ast.walk(st) if hasattr(n, "lineno")]
        nodes.sort(key=lambda n: (n.lineno, n.col_offset))
        return nodes

    def as_dict_facts(self):
        fn = self.defs["as_dict"]
        idx_val = idx_with = with_node = None
        empty_all = False
        for i, st in enumerate(fn.body):
            if isinstance(st, ast.If) and idx_val is None:
                raised = {extract.dotted(r.exc.func) if isinstance(r.exc, ast.Call) else extract.dotted(r.exc)
                          for r in ast.walk(st) if isinstance(r, ast.Raise) and r.exc is not None}
                if {"TypeError", "ValueError"} <= raised:
                    idx_val = i
            if isinstance(st, ast.With) and any("oneshot" in extract.dotted(it.context_expr) for it in st.items):
                idx_with = i
                with_node = st
            if isinstance(st, ast.Assign) and isinstance(st.value, ast.BoolOp) and isinstance(st.value.op, ast.Or):
                ops = [extract.dotted(v) for v in st.value.values]
                if ops == ["attrs", "valid_names"]:
                    empty_all = True
        with_node = with_node if idx_with is not None else fn
        catches, ni = [], False
        for t in ast.walk(with_node):
            if isinstance(t, ast.Try):
                for h in t.handlers:
                    names = [extract.dotted(e) for e in (h.type.elts if isinstance(h.type, ast.Tuple) else [h.type])]
                    assigns_ad = any(isinstance(s, ast.Assign) and extract.dotted(s.value) == "ad_value" for s in h.body)
                    if assigns_ad:
                        catches.extend(names)
                    if names == ["NotImplementedError"]:
                        cond_raise = any(isinstance(s, ast.If) and extract.dotted(s.test) == "attrs"
                                         and any(isinstance(x, ast.Raise) for x in s.body) for s in h.body)
                        cont = any(isinstance(s, ast.Continue) for s in h.body)
                        ni = cond_raise and cont
        # `isinstance(attrs, (list, tuple, set, frozenset))`: what counts as a collection
        coll = None
        for n in ast.walk(fn):
            if isinstance(n, ast.Call) and extract.dotted(n.func) == "isinstance" and len(n.args) == 2 \
                    and extract.dotted(n.args[0]) == "attrs":
                t = n.args[1]
                coll = [extract.dotted(e) for e in (t.elts if isinstance(t, ast.Tuple) else [t])]
        if coll is None:
            coll = []          # no isinstance(attrs, …) test at all: nothing is rejected as a non-collection
        return {"validatesFirst": idx_val is not None and idx_with is not None and idx_val < idx_with,
                "usesOneshot": idx_with is not None, "adCatches": catches,
                "notImplSkips": ni, "emptyMeansAll": empty_all, "collectionTypes": coll}


def _handler_names(h):
    if h.type is None:
        return ["BaseException"]
    return [extract.dotted(e) for e in (h.type.elts if isinstance(h.type, ast.Tuple) else [h.type])]


class Wrapper:
    """memoize_when_activated: each fact has its own extractor (a failure of one skips that fact only), and each
    extractor answers with a VALUE for every shape it can describe (an unknown shape gives the value that makes the
    obligation fail) instead of raising."""

    def __init__(self, common_tree):
        deco = extract.find_def(common_tree, "memoize_when_activated")
        self.inner = {n.name: n for n in deco.body if isinstance(n, ast.FunctionDef)}

    def part(self, name):
        if name not in self.inner:
            raise NotRecognised("memoize_when_activated.%s not found" % name)
        return self.inner[name]

    # ---- the case-3 store
    def _stores(self):
        w = self.part("wrapper")
        out = []
        for n in ast.walk(w):
            if isinstance(n, ast.Assign):
                for t in n.targets:
                    if isinstance(t, ast.Subscript) and extract.dotted(t.slice) == "fun":
                        out.append((n, t))
        return out

    def _load(self):
        """(owner local or None, dict local or None, statement index in wrapper.body) of `… = self._cache`"""
        w = self.part("wrapper")
        for i, st in enumerate(w.body):
            for n in ast.walk(st):
                if isinstance(n, ast.Assign) and extract.dotted(n.value) == "self._cache":
                    t = n.targets[0]
                    if isinstance(t, ast.Tuple) and len(t.elts) == 2 and all(isinstance(e, ast.Name) for e in t.elts):
                        return t.elts[0].id, t.elts[1].id, i
                    if isinstance(t, ast.Name):
                        return None, t.id, i
                    return None, None, i
        return None, None, None

    def store_reloads(self):
        stores = self._stores()
        if len(stores) != 1:
            raise NotRecognised("wrapper: expected exactly one `...[fun] = ...` store, found %d" % len(stores))
        _, tgt = stores[0]
        if extract.dotted(tgt.value) == "self._cache":
            return True
        _, dict_local, _ = self._load()
        # a local: the store goes into the dict that was looked up iff it is the local bound from `self._cache`
        return not (isinstance(tgt.value, ast.Name) and dict_local is not None and tgt.value.id == dict_local)

    def store_guard(self):
        stores = self._stores()
        if len(stores) != 1:
            raise NotRecognised("wrapper: expected exactly one `...[fun] = ...` store, found %d" % len(stores))
        st_node, _ = stores[0]
        for t in ast.walk(self.part("wrapper")):
            if isinstance(t, ast.Try) and any(s is st_node for s in t.body):
                for h in t.handlers:
                    if "AttributeError" in _handler_names(h) and all(isinstance(s, ast.Pass) for s in h.body):
                        return True
        return False

    def lookup_handles(self):
        """the exceptions the wrapper's try-statements catch around the attribute load / the lookup"""
        handled = set()
        for t in ast.walk(self.part("wrapper")):
            if isinstance(t, ast.Try):
                for h in t.handlers:
                    handled.update(_handler_names(h))
        return sorted(handled & {"AttributeError", "KeyError"})

    def del_swallows(self):
        d = self.part("cache_deactivate")
        dels = [s for s in ast.walk(d) if isinstance(s, ast.Delete)]
        if not dels:
            return False          # no `del proc._cache` at all (e.g. rebinding an empty dict): not the modelled deactivation
        for t in ast.walk(d):
            if isinstance(t, ast.Try) and any(isinstance(s, ast.Delete) for s in t.body):
                for h in t.handlers:
                    if h.type is not None and "AttributeError" in _handler_names(h) \
                            and all(isinstance(s, ast.Pass) for s in h.body):
                        return True
        return False

    def deactivate_deletes(self):
        d = self.part("cache_deactivate")
        dels = [extract.dotted(t) for s in ast.walk(d) if isinstance(s, ast.Delete) for t in s.targets]
        rebinds = [s for s in ast.walk(d) if isinstance(s, ast.Assign) and extract.dotted(s.targets[0]).endswith("._cache")]
        return dels == ["proc._cache"] and not rebinds

    # ---- the owner tag
    @staticmethod
    def _is_ident_call(n):
        return isinstance(n, ast.Call) and not n.args and extract.dotted(n.func).split(".")[-1] == "get_ident"

    def activate_tags_owner(self):
        a = self.part("cache_activate")
        binds = [s for s in ast.walk(a) if isinstance(s, ast.Assign) and extract.dotted(s.targets[0]).endswith("._cache")]
        if len(binds) != 1:
            return "other"
        val = binds[0].value
        if isinstance(val, ast.Dict) and not val.keys:
            return "dict"
        if isinstance(val, ast.Tuple) and len(val.elts) == 2 and self._is_ident_call(val.elts[0]) \
                and isinstance(val.elts[1], ast.Dict) and not val.elts[1].keys:
            return "tagged"
        return "other"

    def owner_test_position(self):
        """where the wrapper decides that the caller is not the cache's owner:
        "before-lookup"  `owner, cache = self._cache` … `if owner != get_ident(): return fun(self)` as a statement of the
                         wrapper's own body that precedes the statement containing the `cache[fun]` lookup — what the
                         models' bypass at the attribute load (f0 / p0 / w0) stands for;
        "after-lookup"   such a test exists, but only at or after the lookup (e.g. inside `except KeyError:`: foreign
                         threads would still get HITS);
        "none"           no such test."""
        w = self.part("wrapper")
        owner, dict_local, i_load = self._load()
        if owner is None:
            return "none"

        def is_test(n):
            if not (isinstance(n, ast.If) and isinstance(n.test, ast.Compare) and len(n.test.ops) == 1
                    and isinstance(n.test.ops[0], ast.NotEq) and not n.orelse):
                return False
            sides = [n.test.left, n.test.comparators[0]]
            names = [x.id for x in sides if isinstance(x, ast.Name)]
            return (names == [owner] and any(self._is_ident_call(x) for x in sides)
                    and any(isinstance(x, ast.Return) and isinstance(x.value, ast.Call) and extract.dotted(x.value.func) == "fun"
                            for b in n.body for x in ast.walk(b)))

        def has_lookup(st):
            return any(isinstance(n, ast.Subscript) and isinstance(n.ctx, ast.Load) and extract.dotted(n.slice) == "fun"
                       for n in ast.walk(st))
        i_lookup = next((i for i, st in enumerate(w.body) if has_lookup(st)), None)
        i_test = next((i for i, st in enumerate(w.body) if is_test(st)), None)
        if i_test is not None and i_lookup is not None and i_load < i_test < i_lookup:
            return "before-lookup"
        if any(is_test(n) for n in ast.walk(w)):
            return "after-lookup"
        return "none"

    def cache_owner_only(self):
        return self.activate_tags_owner() == "tagged" and self.owner_test_position() == "before-lookup"

    def owner_shape_consistent(self):
        """tagged dict ⇔ the wrapper unpacks a pair (otherwise every call under an active cache raises)"""
        owner, dict_local, _ = self._load()
        tag = self.activate_tags_owner()
        if tag == "tagged":
            return owner is not None
        if tag == "dict":
            return owner is None
        return False


def facts(snap, F):
    L = extract
    memo = {}

    def get(key, fn):
        if key not in memo:
            memo[key] = fn()
        return memo[key]

    def init_tree():
        return get("init", lambda: extract.parse_module(snap, "__init__.py"))

    def linux():
        return get("linux", lambda: Linux(extract.parse_module(snap, "_pslinux.py")))

    def front():
        return get("front", lambda: Front(init_tree()))

    def wf():
        return get("wf", lambda: Wrapper(extract.parse_module(snap, "_common.py")))

    def osf():
        return get("osf", lambda: front().oneshot_facts())

    def adf():
        return get("adf", lambda: front().as_dict_facts())

    def strs(xs):
        return L.lean_list(xs, L.lean_str)

    def proc_lists(which):
        lx = linux()
        fn = lx.defs["oneshot_enter" if which == "cache_activate" else "oneshot_exit"]
        out = []
        for n in Front._ordered(fn):
            if isinstance(n, ast.Call):
                d = extract.dotted(n.func)
                if d.startswith("self.") and d.endswith("." + which):
                    h = d.split(".")[1]
                    out.append(lx.helper_src.get(h, "?" + h))      # not a memoised helper: unknown token, cfg_lists_complete fails
        return out

    F.try_add("memoProc", "List String", lambda: strs(sorted(linux().helper_src.values())),
              "files read by the _pslinux.Process helpers that carry @memoize_when_activated")
    F.try_add("memoFront", "List String", lambda: strs(sorted(front().memo)),
              "front-end Process methods that carry @memoize_when_activated")
    F.try_add("frontActivate", "List String", lambda: strs(osf()["frontActivate"]),
              "self.<m>.cache_activate(self) calls of oneshot(), in order")
    F.try_add("frontDeactivate", "List String", lambda: strs(osf()["frontDeactivate"]),
              "self.<m>.cache_deactivate(self) calls of oneshot(), in order")
    F.try_add("procActivate", "List String",
              lambda: strs(proc_lists("cache_activate") if osf()["procEnter"] else []),
              "helpers activated by _proc.oneshot_enter() (as files), empty if oneshot() does not call it")
    F.try_add("procDeactivate", "List String",
              lambda: strs(proc_lists("cache_deactivate") if osf()["procExit"] else []),
              "helpers deactivated by _proc.oneshot_exit()")
    F.try_add("actOrder", "List String", lambda: strs(osf()["actOrder"]),
              "oneshot(): execution order of the activations: \"front\" = one self.<m>.cache_activate(self), \"proc\" = self._proc.oneshot_enter()")
    F.try_add("deactOrder", "List String", lambda: strs(osf()["deactOrder"]),
              "oneshot(): execution order of the deactivations: \"front\" = one self.<m>.cache_deactivate(self), \"proc\" = self._proc.oneshot_exit()")
    F.try_add("nestedTest", "Bool", lambda: L.lean_bool(osf()["nestedTest"]),
              "oneshot(): `if hasattr(self, \"_cache\"): yield` makes a nested block a no-op")
    F.try_add("exitInFinally", "Bool", lambda: L.lean_bool(osf()["exitInFinally"]),
              "oneshot(): the deactivations sit in a finally clause")
    F.try_add("underLock", "Bool", lambda: L.lean_bool(osf()["underLock"]),
              "oneshot(): whole body under `with self._lock`")
    F.try_add("delSwallows", "Bool", lambda: L.lean_bool(wf().del_swallows() and wf().deactivate_deletes()),
              "cache_deactivate: `del proc._cache` wrapped in except AttributeError: pass")
    F.try_add("storeReloads", "Bool", lambda: L.lean_bool(wf().store_reloads()),
              "wrapper case 3 stores through a re-loaded self._cache (true) or into the dict it looked up (false)")
    F.try_add("storeGuard", "Bool", lambda: L.lean_bool(wf().store_guard() or not wf().store_reloads()),
              "the case-3 store cannot let an AttributeError escape (guarded, or no attribute load at all)")

    F.try_add("cacheOwnerOnly", "Bool", lambda: L.lean_bool(wf().cache_owner_only()),
              "cache_activate tags the dict with the activating thread (`proc._cache = (get_ident(), {})`) and the wrapper "
              "unpacks it and tests `if owner != get_ident(): return fun(self)` as a statement of its own body BEFORE the "
              "`cache[fun]` lookup: any other thread neither consults nor fills the cache")
    F.try_add("ownerTest", "String", lambda: L.lean_str(wf().owner_test_position()),
              "where the wrapper's owner test sits: before-lookup / after-lookup (foreign threads would still get hits) / none")
    F.try_add("ownerShapeConsistent", "Bool", lambda: L.lean_bool(wf().owner_shape_consistent()),
              "cache_activate binds a (thread id, dict) pair iff the wrapper unpacks a pair from self._cache")
    F.try_add("lookupHandles", "List String", lambda: strs(wf().lookup_handles()),
              "of AttributeError (case 2: no cache) and KeyError (case 3: no entry), the ones the wrapper's try statements catch")

    def lock_reentrant():
        fn = front().defs.get("_init") or front().defs["__init__"]
        kinds = []
        for n in ast.walk(fn):
            if isinstance(n, ast.Assign) and extract.dotted(n.targets[0]) == "self._lock" and isinstance(n.value, ast.Call):
                kinds.append(extract.dotted(n.value.func).split(".")[-1])
        if len(kinds) != 1:
            raise NotRecognised("Process._init: expected exactly one `self._lock = ...`")
        return kinds[0] == "RLock"
    F.try_add("lockReentrant", "Bool", lambda: L.lean_bool(lock_reentrant()),
              "Process._init: `self._lock = threading.RLock()` — the lock oneshot() holds for the whole block is re-entrant "
              "(the model's acquire step from inside the holder's own block)")

    def oneshot_users():
        """functions of psutil/__init__.py that enter a oneshot() block or touch a Process lock, and on which object"""
        users, on_self = [], True
        tree = init_tree()
        for fn in ast.walk(tree):
            if not isinstance(fn, (ast.FunctionDef, ast.AsyncFunctionDef)) or fn.name == "oneshot":
                continue
            hit = False
            for n in ast.walk(fn):
                if isinstance(n, ast.Attribute) and n.attr in ("oneshot", "_lock"):
                    if n.attr == "_lock" and isinstance(n.ctx, ast.Store):
                        continue          # `self._lock = threading.RLock()` in _init
                    hit = True
                    if extract.dotted(n.value) != "self":
                        on_self = False
            if hit:
                users.append(fn.name)
        return sorted(set(users)), on_self
    F.try_add("oneshotCallers", "List String", lambda: strs(oneshot_users()[0]),
              "functions of psutil/__init__.py (other than oneshot itself) that enter `.oneshot()` or touch `._lock`")
    F.try_add("oneshotOnSelfOnly", "Bool", lambda: L.lean_bool(oneshot_users()[1]),
              "… each of them on `self` only: no library code takes the lock of a second Process object while holding one")

    def guard_gone():
        fn = front().defs["_raise_if_pid_reused"]
        for n in ast.walk(fn):
            if isinstance(n, ast.If) and extract.dotted(n.test) == "self._gone" \
                    and any(isinstance(x, ast.Raise) and "NoSuchProcess" in extract.dotted(
                        x.exc.func if isinstance(x.exc, ast.Call) else x.exc) for x in n.body):
                return True
        return False
    F.try_add("guardRaisesWhenGone", "Bool", lambda: L.lean_bool(guard_gone()),
              "_raise_if_pid_reused(): `if self._gone: raise NoSuchProcess` (the guard refuses a process seen gone)")

    def meth_rows():
        """per method: (front, guard, srcs, zprobe, alt) or the reason it could not be described"""
        def build():
            lx, fr = linux(), front()
            rows = {}
            for name in MODELLED:
                try:
                    f, guard, plat = fr.describe(name)
                    lx.alt_log = []
                    srcs = lx.sources(plat)
                    alts = list(lx.alt_log)
                    if not srcs:
                        raise NotRecognised("%s: no source found" % name)
                    # the tried-first file must stand for the FIRST source of the row (Meth.eff replaces the head)
                    if len(alts) > 1 or (alts and alts[0][1] != srcs[0]):
                        raise NotRecognised("%s: try/except-ENOENT shape not modelled: %r" % (name, alts))
                    rows[name] = (f, guard, srcs, lx.zprobe(plat), alts[0][0] if alts else None)
                except (NotRecognised, KeyError, AttributeError, IndexError) as e:
                    rows[name] = str(e) or type(e).__name__
            return rows
        return get("meth_rows", build)

    def meths():
        rows = []
        for name in MODELLED:
            r = meth_rows()[name]
            if isinstance(r, str):
                # a row the translator cannot describe: unknown file token -> parseMeth drops it -> cfg_meths_complete fails
                rows.append("(%s, %s, %s, %s, %s)" % (L.lean_str(name), L.lean_str(""), L.lean_bool(False),
                                                     strs(["?" + r[:60]]), L.lean_bool(False)))
            else:
                f, guard, srcs, zp, _ = r
                rows.append("(%s, %s, %s, %s, %s)" % (L.lean_str(name), L.lean_str(f), L.lean_bool(guard), strs(srcs), L.lean_bool(zp)))
        return "[" + ", ".join(rows) + "]"
    F.try_add("meths", "List (String × String × Bool × List String × Bool)", meths,
              "modelled public methods: (name, front-end memo function or \"\", calls _raise_if_pid_reused, files read in order, zombie probe on empty data)")

    def meth_alt():
        out = []
        for name in MODELLED:
            r = meth_rows()[name]
            if not isinstance(r, str) and r[4] is not None:
                out.append("(%s, %s)" % (L.lean_str(name), L.lean_str(r[4])))
        return "[" + ", ".join(out) + "]"
    F.try_add("methAlt", "List (String × String)", meth_alt,
              "methods whose platform code tries another file first (`try: <read it> except (ProcessLookupError, FileNotFoundError): "
              "<read the first file of the row>`): (method, tried-first file)")

    def dump():
        return get("dump", lambda: snap_runtime_dump(snap))
    F.try_add("validNames", "List String", lambda: strs(dump()["valid"]), "psutil._as_dict_attrnames (runtime dump)")
    F.try_add("publicAttrs", "List String", lambda: strs(dump()["public"]),
              "names of dir(psutil.Process) that do not start with an underscore (runtime dump)")

    def excluded():
        """string constants of the exclusion set in the comprehension that defines `_as_dict_attrnames` (static)"""
        for n in init_tree().body:
            if isinstance(n, ast.Assign) and extract.dotted(n.targets[0]) == "_as_dict_attrnames":
                sets = [x for x in ast.walk(n.value) if isinstance(x, (ast.Set, ast.List, ast.Tuple))]
                names = sorted({e.value for x in sets for e in x.elts if isinstance(e, ast.Constant) and isinstance(e.value, str)})
                return names
        raise NotRecognised("_as_dict_attrnames assignment not found")
    F.try_add("asDictExcluded", "List String", lambda: strs(excluded()),
              "the names `_as_dict_attrnames` excludes from dir(Process) (string constants of its set comprehension)")
    F.try_add("asDictUsesOneshot", "Bool", lambda: L.lean_bool(adf()["usesOneshot"]),
              "as_dict: the loop over the names runs inside `with self.oneshot()`")
    F.try_add("validatesFirst", "Bool", lambda: L.lean_bool(adf()["validatesFirst"]),
              "as_dict: TypeError/ValueError checks precede `with self.oneshot()`")
    F.try_add("adCatches", "List String", lambda: strs(adf()["adCatches"]),
              "exception classes as_dict replaces by ad_value")
    F.try_add("notImplSkips", "Bool", lambda: L.lean_bool(adf()["notImplSkips"]),
              "as_dict: NotImplementedError re-raised only `if attrs`, else the name is skipped")
    F.try_add("collectionTypes", "List String", lambda: strs(adf()["collectionTypes"]),
              "as_dict: the types accepted by `isinstance(attrs, (...))`; anything else is a TypeError")
    F.try_add("emptyMeansAll", "Bool", lambda: L.lean_bool(adf()["emptyMeansAll"]),
              "as_dict: `ls = attrs or valid_names`")


def snap_runtime_dump(snap):
    """Runtime dump in a sub-interpreter (the check's own interpreter imports psutil later)."""
    import json
    import subprocess
    code = ("import sys, json; sys.path.insert(0, %r); import psutil; "
            "print(json.dumps({'valid': sorted(psutil._as_dict_attrnames), "
            "'public': sorted(x for x in dir(psutil.Process) if not x.startswith('_'))}))" % snap.dir)
    r = subprocess.run(["/venv/bin/python", "-c", code], stdout=subprocess.PIPE, stderr=subprocess.PIPE,
                       text=True, timeout=60)
    if r.returncode != 0:
        raise NotRecognised("cannot dump _as_dict_attrnames: %s" % r.stderr[-300:])
    return json.loads(r.stdout.strip().split("\n")[-1])
