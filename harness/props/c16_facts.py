"""C16 translator: facts about oneshot()/memoize_when_activated/as_dict re-derived from the
current source (ast + one runtime dump). Kept apart from c16.py so that it can be run on its own."""
import ast

from harness.common import extract
from harness.common.extract import NotRecognised

# helper -> which per-process file it reads is itself extracted (basename of the f-string)
MODELLED = ["name", "ppid", "cpu_times", "cpu_num", "uids", "gids", "username", "num_threads",
            "num_ctx_switches", "memory_info", "memory_full_info", "memory_maps", "cmdline",
            "io_counters"]
OPENERS = {"open_binary", "open_text", "bcat", "cat", "open"}


def _walk_defs(body):
    """FunctionDefs of a class body, including those nested under `if POSIX:`-style blocks."""
    for n in body:
        if isinstance(n, (ast.FunctionDef, ast.AsyncFunctionDef)):
            yield n
        elif isinstance(n, ast.If):
            yield from _walk_defs(n.body)
            yield from _walk_defs(n.orelse)


def class_defs(tree, cls):
    c = extract.find_class(tree, cls)
    out = {}
    for f in _walk_defs(c.body):
        out.setdefault(f.name, f)
    return out


def has_deco(fn, name):
    return any(d.split(".")[-1] == name for d in extract.decorators(fn))


def _fstring_basename(node):
    """f"{self._procfs_path}/{self.pid}/stat" -> "stat" """
    if isinstance(node, ast.JoinedStr) and node.values and isinstance(node.values[-1], ast.Constant):
        tail = str(node.values[-1].value)
        if tail.startswith("/") and "/" not in tail[1:]:
            return tail[1:]
    raise NotRecognised("path expression not recognised: %s" % ast.dump(node)[:80])


def _self_calls(node):
    """(attr name, Call node) for every `self.<attr>(...)` under node, in source order."""
    out = []
    for n in ast.walk(node):
        if isinstance(n, ast.Call) and isinstance(n.func, ast.Attribute) and isinstance(n.func.value, ast.Name) \
                and n.func.value.id == "self":
            out.append((n.lineno, n.col_offset, n.func.attr, n))
    out.sort(key=lambda t: (t[0], t[1]))
    return [(a, c) for _, _, a, c in out]


class Linux:
    """Source reads of _pslinux.Process methods."""

    def __init__(self, tree):
        self.defs = class_defs(tree, "Process")
        self.helper_src = {}
        for name, fn in self.defs.items():
            if has_deco(fn, "memoize_when_activated"):
                self.helper_src[name] = self._direct_sources(fn)[0]

    def _direct_sources(self, fn):
        out = []
        for n in ast.walk(fn):
            if isinstance(n, ast.Call) and extract.dotted(n.func).split(".")[-1] in OPENERS and n.args:
                try:
                    out.append((n.lineno, n.col_offset, _fstring_basename(n.args[0])))
                except NotRecognised:
                    pass
        out.sort()
        if has_deco(fn, "memoize_when_activated") and len(out) != 1:
            raise NotRecognised("%s: expected exactly one file read" % fn.name)
        return [s for _, _, s in out]

    def sources(self, name, depth=0):
        """Ordered list of sources read by platform method `name`, following self-calls; a call in a
        `try` whose handler catches FileNotFoundError is replaced by the handler's path (the
        modelled world has no smaps_rollup file)."""
        if depth > 4 or name not in self.defs:
            raise NotRecognised("platform method %s not found" % name)
        fn = self.defs[name]
        return self._sources_of_body(fn.body, depth)

    def _sources_of_body(self, body, depth):
        events = []
        local_paths = {}
        for st in body:
            for n in ast.walk(st):
                if isinstance(n, ast.Assign) and len(n.targets) == 1 and isinstance(n.targets[0], ast.Name) \
                        and isinstance(n.value, ast.JoinedStr):
                    local_paths[n.targets[0].id] = n.value

        def expr_events(node, out):
            for sub in self._ordered_nodes(node):
                if isinstance(sub, ast.Call):
                    fname = extract.dotted(sub.func).split(".")[-1]
                    if fname in OPENERS and sub.args:
                        arg = sub.args[0]
                        if isinstance(arg, ast.Name) and arg.id in local_paths:
                            arg = local_paths[arg.id]
                        try:
                            out.append(_fstring_basename(arg))
                        except NotRecognised:
                            pass
                    elif isinstance(sub.func, ast.Attribute) and isinstance(sub.func.value, ast.Name) \
                            and sub.func.value.id == "self":
                        a = sub.func.attr
                        if a in self.helper_src:
                            out.append(self.helper_src[a])
                        elif a in self.defs and not a.startswith("_raise") and a != "_is_zombie":
                            out.extend(self.sources(a, depth + 1))

        def visit(stmts, out):
            for st in stmts:
                if isinstance(st, (ast.FunctionDef, ast.AsyncFunctionDef, ast.ClassDef)):
                    continue
                if isinstance(st, ast.Try):
                    if any(self._catches_enoent(h) for h in st.handlers):
                        # modelled world: the tried file (smaps_rollup) does not exist -> handler path
                        for h in st.handlers:
                            if self._catches_enoent(h):
                                visit(h.body, out)
                    else:
                        visit(st.body, out)
                    visit(st.orelse, out)
                    visit(st.finalbody, out)
                elif isinstance(st, ast.If):
                    expr_events(st.test, out)
                    a, b = [], []
                    visit(st.body, a)
                    visit(st.orelse, b)
                    out.extend(a if (a == b or not b) else a + b)
                elif isinstance(st, (ast.For, ast.While)):
                    expr_events(st.iter if isinstance(st, ast.For) else st.test, out)
                    visit(st.body, out)
                elif isinstance(st, ast.With):
                    for it in st.items:
                        expr_events(it.context_expr, out)
                    visit(st.body, out)
                else:
                    expr_events(st, out)
        visit(body, events)
        return events

    @staticmethod
    def _ordered_nodes(st):
        nodes = [n for n in ast.walk(st) if hasattr(n, "lineno")]
        nodes.sort(key=lambda n: (n.lineno, n.col_offset))
        return nodes

    @staticmethod
    def _catches_enoent(h):
        if h.type is None:
            return False
        names = [extract.dotted(e) for e in (h.type.elts if isinstance(h.type, ast.Tuple) else [h.type])]
        return "FileNotFoundError" in names

    def zprobe(self, name):
        fn = self.defs[name]
        for n in ast.walk(fn):
            if isinstance(n, ast.If) and isinstance(n.test, ast.UnaryOp) and isinstance(n.test.op, ast.Not):
                if any(a == "_raise_if_zombie" for a, _ in _self_calls(n)):
                    return True
        return False


class Front:
    def __init__(self, tree):
        self.defs = class_defs(tree, "Process")
        self.memo = [n for n, f in self.defs.items() if has_deco(f, "memoize_when_activated")]

    def describe(self, name):
        """(front memo function or "", guard, platform method name)"""
        if name not in self.defs:
            raise NotRecognised("front-end method %s not found" % name)
        fn = self.defs[name]
        front = name if name in self.memo else ""
        guard = any(a == "_raise_if_pid_reused" for a, _ in _self_calls(fn))
        plat = None
        for a, _ in _self_calls(fn):
            if a in self.memo and a != name:
                # goes through another front-end memoised method (username -> uids)
                f2, g2, p2 = self.describe(a)
                return a, guard or g2, p2
        for n in ast.walk(fn):
            if isinstance(n, ast.Call) and isinstance(n.func, ast.Attribute) \
                    and extract.dotted(n.func.value) == "self._proc":
                plat = n.func.attr if plat is None else plat
        if plat is None:
            # goes through another front-end method (username -> uids)
            for a, _ in _self_calls(fn):
                if a in self.memo:
                    f2, g2, p2 = self.describe(a)
                    return a, guard or g2, p2
            raise NotRecognised("%s: no platform call found" % name)
        return front, guard, plat

    def oneshot_facts(self):
        fn = self.defs["oneshot"]
        if not (len(fn.body) >= 1 and isinstance(fn.body[-1], ast.With)):
            raise NotRecognised("oneshot: no with-statement")
        w = fn.body[-1]
        under_lock = any(extract.dotted(i.context_expr) == "self._lock" for i in w.items)
        ifs = [s for s in w.body if isinstance(s, ast.If)]
        if len(ifs) != 1:
            raise NotRecognised("oneshot: nesting test not found")
        test = ifs[0]
        nested = (isinstance(test.test, ast.Call) and extract.dotted(test.test.func) == "hasattr"
                  and len(test.test.args) == 2 and extract.dotted(test.test.args[0]) == "self"
                  and extract.const(test.test.args[1]) == "_cache"
                  and any(isinstance(x, ast.Yield) for s in test.body for x in ast.walk(s))
                  and not any(isinstance(x, ast.Call) and extract.dotted(x.func).endswith("cache_activate")
                              for s in test.body for x in ast.walk(s)))
        tries = [s for s in test.orelse if isinstance(s, ast.Try)]
        if len(tries) != 1:
            raise NotRecognised("oneshot: try/finally not found")
        t = tries[0]

        order = {}

        def acts(stmts, what):
            front, proc, seq = [], False, []
            for s in stmts:
                for n in self._ordered(s):
                    if isinstance(n, ast.Call):
                        d = extract.dotted(n.func)
                        if d.startswith("self.") and d.endswith("." + what):
                            front.append(d.split(".")[1])
                            seq.append("front")
                        if d == "self._proc." + ("oneshot_enter" if what == "cache_activate" else "oneshot_exit"):
                            proc = True
                            seq.append("proc")
            order[what] = seq
            return front, proc
        a_front, a_proc = acts(t.body, "cache_activate")
        d_front_body, _ = acts(t.body, "cache_deactivate")
        d_front, d_proc = acts(t.finalbody, "cache_deactivate")
        in_finally = bool(d_front) and not d_front_body
        if not in_finally:
            d_front, d_proc = acts(t.body + t.finalbody + t.orelse, "cache_deactivate")
        return {"underLock": under_lock, "nestedTest": nested, "exitInFinally": in_finally,
                "frontActivate": a_front, "frontDeactivate": d_front, "procEnter": a_proc, "procExit": d_proc,
                "actOrder": order["cache_activate"], "deactOrder": order["cache_deactivate"]}

    @staticmethod
    def _ordered(st):
        nodes = [n for n in ast.walk(st) if hasattr(n, "lineno")]
        nodes.sort(key=lambda n: (n.lineno, n.col_offset))
        return nodes

    def as_dict_facts(self):
        fn = self.defs["as_dict"]
        idx_val = idx_with = None
        empty_all = False
        for i, st in enumerate(fn.body):
            if isinstance(st, ast.If) and idx_val is None:
                raised = {extract.dotted(r.exc.func) if isinstance(r.exc, ast.Call) else extract.dotted(r.exc)
                          for r in ast.walk(st) if isinstance(r, ast.Raise) and r.exc is not None}
                if {"TypeError", "ValueError"} <= raised:
                    idx_val = i
            if isinstance(st, ast.With) and any("oneshot" in extract.dotted(it.context_expr) for it in st.items):
                idx_with = i
                with_node = st
            if isinstance(st, ast.Assign) and isinstance(st.value, ast.BoolOp) and isinstance(st.value.op, ast.Or):
                ops = [extract.dotted(v) for v in st.value.values]
                if ops == ["attrs", "valid_names"]:
                    empty_all = True
        if idx_with is None:
            raise NotRecognised("as_dict: `with self.oneshot()` not found")
        catches, ni = [], False
        for t in ast.walk(with_node):
            if isinstance(t, ast.Try):
                for h in t.handlers:
                    names = [extract.dotted(e) for e in (h.type.elts if isinstance(h.type, ast.Tuple) else [h.type])]
                    assigns_ad = any(isinstance(s, ast.Assign) and extract.dotted(s.value) == "ad_value" for s in h.body)
                    if assigns_ad:
                        catches.extend(names)
                    if names == ["NotImplementedError"]:
                        cond_raise = any(isinstance(s, ast.If) and extract.dotted(s.test) == "attrs"
                                         and any(isinstance(x, ast.Raise) for x in s.body) for s in h.body)
                        cont = any(isinstance(s, ast.Continue) for s in h.body)
                        ni = cond_raise and cont
        # `isinstance(attrs, (list, tuple, set, frozenset))`: what counts as a collection
        coll = None
        for n in ast.walk(fn):
            if isinstance(n, ast.Call) and extract.dotted(n.func) == "isinstance" and len(n.args) == 2 \
                    and extract.dotted(n.args[0]) == "attrs":
                t = n.args[1]
                coll = [extract.dotted(e) for e in (t.elts if isinstance(t, ast.Tuple) else [t])]
        if coll is None:
            raise NotRecognised("as_dict: isinstance(attrs, ...) test not found")
        return {"validatesFirst": idx_val is not None and idx_val < idx_with, "adCatches": catches,
                "notImplSkips": ni, "emptyMeansAll": empty_all, "collectionTypes": coll}


def wrapper_facts(common_tree):
    deco = extract.find_def(common_tree, "memoize_when_activated")
    inner = {n.name: n for n in deco.body if isinstance(n, ast.FunctionDef)}
    for need in ("wrapper", "cache_activate", "cache_deactivate"):
        if need not in inner:
            raise NotRecognised("memoize_when_activated.%s not found" % need)
    w = inner["wrapper"]
    # the store `X[fun] = ret`: is X a re-loaded `self._cache` or a local holding the dict looked up?
    stores = []
    for n in ast.walk(w):
        targets = []
        if isinstance(n, ast.Assign):
            targets = n.targets
        for t in targets:
            if isinstance(t, ast.Subscript) and extract.dotted(t.slice) == "fun":
                stores.append((n, t))
    if len(stores) != 1:
        raise NotRecognised("wrapper: expected exactly one `...[fun] = ...` store, found %d" % len(stores))
    st_node, tgt = stores[0]
    base = extract.dotted(tgt.value)
    if base == "self._cache":
        reloads = True
    elif isinstance(tgt.value, ast.Name):
        reloads = False
    else:
        raise NotRecognised("wrapper: store base %s" % base)
    # is the store inside a try that catches AttributeError?
    guard = False
    for t in ast.walk(w):
        if isinstance(t, ast.Try) and any(s is st_node for s in t.body):
            for h in t.handlers:
                names = [extract.dotted(e) for e in (h.type.elts if isinstance(h.type, ast.Tuple) else [h.type])] if h.type else []
                if "AttributeError" in names and all(isinstance(s, ast.Pass) for s in h.body):
                    guard = True
    # the lookup: must handle AttributeError (case 2) and KeyError (case 3)
    handled = set()
    for t in ast.walk(w):
        if isinstance(t, ast.Try):
            for h in t.handlers:
                if h.type is not None:
                    for e in (h.type.elts if isinstance(h.type, ast.Tuple) else [h.type]):
                        handled.add(extract.dotted(e))
    if "AttributeError" not in handled or "KeyError" not in handled:
        raise NotRecognised("wrapper: lookup does not handle AttributeError and KeyError")
    d = inner["cache_deactivate"]
    del_guard = False
    for t in ast.walk(d):
        if isinstance(t, ast.Try) and any(isinstance(s, ast.Delete) for s in t.body):
            for h in t.handlers:
                if h.type is not None and extract.dotted(h.type) == "AttributeError" and all(isinstance(s, ast.Pass) for s in h.body):
                    del_guard = True
    if not any(isinstance(s, ast.Delete) for s in ast.walk(d)):
        raise NotRecognised("cache_deactivate: no del")
    a = inner["cache_activate"]

    def is_ident_call(n):
        return isinstance(n, ast.Call) and not n.args and extract.dotted(n.func).split(".")[-1] == "get_ident"

    def empty_dict(n):
        return isinstance(n, ast.Dict) and not n.keys
    binds = [s for s in ast.walk(a) if isinstance(s, ast.Assign) and extract.dotted(s.targets[0]).endswith("._cache")]
    if len(binds) != 1:
        raise NotRecognised("cache_activate: expected exactly one `proc._cache = ...`")
    val = binds[0].value
    if empty_dict(val):
        act_owner = False
    elif isinstance(val, ast.Tuple) and len(val.elts) == 2 and is_ident_call(val.elts[0]) and empty_dict(val.elts[1]):
        act_owner = True          # proc._cache = (threading.get_ident(), {})
    else:
        raise NotRecognised("cache_activate: does not bind a fresh dict")
    # the wrapper's side of it: `owner, cache = self._cache` and `if owner != get_ident(): return fun(self)` BEFORE the lookup
    unpack = None
    for n in ast.walk(w):
        if isinstance(n, ast.Assign) and extract.dotted(n.value) == "self._cache":
            t = n.targets[0]
            if isinstance(t, ast.Tuple) and len(t.elts) == 2 and all(isinstance(e, ast.Name) for e in t.elts):
                unpack = (t.elts[0].id, t.elts[1].id, n.lineno)
            elif isinstance(t, ast.Name):
                unpack = (None, t.id, n.lineno)
            else:
                raise NotRecognised("wrapper: `... = self._cache` target not recognised")
    if unpack is None:
        if not reloads:
            raise NotRecognised("wrapper: no `cache = self._cache` load")
        unpack = (None, None, 0)          # pre-repair shape: `self._cache[fun]` looked up and stored through the attribute
    wr_owner = False
    if unpack[0] is not None:
        for n in ast.walk(w):
            if isinstance(n, ast.If) and isinstance(n.test, ast.Compare) and len(n.test.ops) == 1 \
                    and isinstance(n.test.ops[0], ast.NotEq) and n.lineno > unpack[2]:
                sides = [n.test.left, n.test.comparators[0]]
                names = [extract.dotted(x) for x in sides if isinstance(x, ast.Name)]
                if names == [unpack[0]] and any(is_ident_call(x) for x in sides) \
                        and any(isinstance(x, ast.Return) and isinstance(x.value, ast.Call)
                                and extract.dotted(x.value.func) == "fun" for b in n.body for x in ast.walk(b)) \
                        and n.lineno < st_node.lineno and not n.orelse:
                    wr_owner = True
    if isinstance(tgt.value, ast.Name) and unpack[1] is not None and tgt.value.id != unpack[1]:
        raise NotRecognised("wrapper: the store does not go into the dict that was looked up")
    if act_owner != wr_owner or (unpack[0] is not None) != act_owner:
        raise NotRecognised("memoize_when_activated: cache_activate and wrapper disagree about the owner tag")
    return {"storeReloads": reloads, "storeGuard": guard, "delSwallows": del_guard, "cacheOwnerOnly": act_owner}


def facts(snap, F):
    L = extract
    memo = {}

    def get(key, fn):
        if key not in memo:
            memo[key] = fn()
        return memo[key]

    def init_tree():
        return get("init", lambda: extract.parse_module(snap, "__init__.py"))

    def linux():
        return get("linux", lambda: Linux(extract.parse_module(snap, "_pslinux.py")))

    def front():
        return get("front", lambda: Front(init_tree()))

    def wf():
        return get("wf", lambda: wrapper_facts(extract.parse_module(snap, "_common.py")))

    def osf():
        return get("osf", lambda: front().oneshot_facts())

    def adf():
        return get("adf", lambda: front().as_dict_facts())

    def strs(xs):
        return L.lean_list(xs, L.lean_str)

    def proc_lists(which):
        lx = linux()
        fn = lx.defs["oneshot_enter" if which == "cache_activate" else "oneshot_exit"]
        out = []
        for n in Front._ordered(fn):
            if isinstance(n, ast.Call):
                d = extract.dotted(n.func)
                if d.startswith("self.") and d.endswith("." + which):
                    h = d.split(".")[1]
                    if h not in lx.helper_src:
                        raise NotRecognised("%s is not a memoised helper" % h)
                    out.append(lx.helper_src[h])
        return out

    F.try_add("memoProc", "List String", lambda: strs(sorted(linux().helper_src.values())),
              "files read by the _pslinux.Process helpers that carry @memoize_when_activated")
    F.try_add("memoFront", "List String", lambda: strs(sorted(front().memo)),
              "front-end Process methods that carry @memoize_when_activated")
    F.try_add("frontActivate", "List String", lambda: strs(osf()["frontActivate"]),
              "self.<m>.cache_activate(self) calls of oneshot(), in order")
    F.try_add("frontDeactivate", "List String", lambda: strs(osf()["frontDeactivate"]),
              "self.<m>.cache_deactivate(self) calls of oneshot(), in order")
    F.try_add("procActivate", "List String",
              lambda: strs(proc_lists("cache_activate") if osf()["procEnter"] else []),
              "helpers activated by _proc.oneshot_enter() (as files), empty if oneshot() does not call it")
    F.try_add("procDeactivate", "List String",
              lambda: strs(proc_lists("cache_deactivate") if osf()["procExit"] else []),
              "helpers deactivated by _proc.oneshot_exit()")
    F.try_add("actOrder", "List String", lambda: strs(osf()["actOrder"]),
              "oneshot(): execution order of the activations: \"front\" = one self.<m>.cache_activate(self), \"proc\" = self._proc.oneshot_enter()")
    F.try_add("deactOrder", "List String", lambda: strs(osf()["deactOrder"]),
              "oneshot(): execution order of the deactivations: \"front\" = one self.<m>.cache_deactivate(self), \"proc\" = self._proc.oneshot_exit()")
    F.try_add("nestedTest", "Bool", lambda: L.lean_bool(osf()["nestedTest"]),
              "oneshot(): `if hasattr(self, \"_cache\"): yield` makes a nested block a no-op")
    F.try_add("exitInFinally", "Bool", lambda: L.lean_bool(osf()["exitInFinally"]),
              "oneshot(): the deactivations sit in a finally clause")
    F.try_add("underLock", "Bool", lambda: L.lean_bool(osf()["underLock"]),
              "oneshot(): whole body under `with self._lock`")
    F.try_add("delSwallows", "Bool", lambda: L.lean_bool(wf()["delSwallows"]),
              "cache_deactivate: `del proc._cache` wrapped in except AttributeError: pass")
    F.try_add("storeReloads", "Bool", lambda: L.lean_bool(wf()["storeReloads"]),
              "wrapper case 3 stores through a re-loaded self._cache (true) or into the dict it looked up (false)")
    F.try_add("storeGuard", "Bool", lambda: L.lean_bool(wf()["storeGuard"] or not wf()["storeReloads"]),
              "the case-3 store cannot let an AttributeError escape (guarded, or no attribute load at all)")

    F.try_add("cacheOwnerOnly", "Bool", lambda: L.lean_bool(wf()["cacheOwnerOnly"]),
              "cache_activate tags the dict with the activating thread (`proc._cache = (get_ident(), {})`) and the wrapper "
              "consults / fills the cache only when `owner == get_ident()`; any other thread calls fun(self) directly")

    def lock_reentrant():
        fn = front().defs.get("_init") or front().defs["__init__"]
        kinds = []
        for n in ast.walk(fn):
            if isinstance(n, ast.Assign) and extract.dotted(n.targets[0]) == "self._lock" and isinstance(n.value, ast.Call):
                kinds.append(extract.dotted(n.value.func).split(".")[-1])
        if len(kinds) != 1:
            raise NotRecognised("Process._init: expected exactly one `self._lock = ...`")
        return kinds[0] == "RLock"
    F.try_add("lockReentrant", "Bool", lambda: L.lean_bool(lock_reentrant()),
              "Process._init: `self._lock = threading.RLock()` — the lock oneshot() holds for the whole block is re-entrant "
              "(the model's acquire step from inside the holder's own block)")

    def oneshot_users():
        """functions of psutil/__init__.py that enter a oneshot() block or touch a Process lock, and on which object"""
        users, on_self = [], True
        tree = init_tree()
        for fn in ast.walk(tree):
            if not isinstance(fn, (ast.FunctionDef, ast.AsyncFunctionDef)) or fn.name == "oneshot":
                continue
            hit = False
            for n in ast.walk(fn):
                if isinstance(n, ast.Attribute) and n.attr in ("oneshot", "_lock"):
                    if n.attr == "_lock" and isinstance(n.ctx, ast.Store):
                        continue          # `self._lock = threading.RLock()` in _init
                    hit = True
                    if extract.dotted(n.value) != "self":
                        on_self = False
            if hit:
                users.append(fn.name)
        return sorted(set(users)), on_self
    F.try_add("oneshotCallers", "List String", lambda: strs(oneshot_users()[0]),
              "functions of psutil/__init__.py (other than oneshot itself) that enter `.oneshot()` or touch `._lock`")
    F.try_add("oneshotOnSelfOnly", "Bool", lambda: L.lean_bool(oneshot_users()[1]),
              "… each of them on `self` only: no library code takes the lock of a second Process object while holding one")

    def guard_gone():
        fn = front().defs["_raise_if_pid_reused"]
        for n in ast.walk(fn):
            if isinstance(n, ast.If) and extract.dotted(n.test) == "self._gone" \
                    and any(isinstance(x, ast.Raise) and "NoSuchProcess" in extract.dotted(
                        x.exc.func if isinstance(x.exc, ast.Call) else x.exc) for x in n.body):
                return True
        return False
    F.try_add("guardRaisesWhenGone", "Bool", lambda: L.lean_bool(guard_gone()),
              "_raise_if_pid_reused(): `if self._gone: raise NoSuchProcess` (the guard refuses a process seen gone)")

    def meths():
        rows = []
        lx, fr = linux(), front()
        for name in MODELLED:
            f, guard, plat = fr.describe(name)
            srcs = lx.sources(plat)
            if not srcs:
                raise NotRecognised("%s: no source found" % name)
            rows.append("(%s, %s, %s, %s, %s)" % (L.lean_str(name), L.lean_str(f), L.lean_bool(guard),
                                                 strs(srcs), L.lean_bool(lx.zprobe(plat))))
        return "[" + ", ".join(rows) + "]"
    F.try_add("meths", "List (String × String × Bool × List String × Bool)", meths,
              "modelled public methods: (name, front-end memo function or \"\", calls _raise_if_pid_reused, files read in order, zombie probe on empty data)")

    def valid():
        return strs(snap_valid_names(snap))
    F.try_add("validNames", "List String", valid, "psutil._as_dict_attrnames (runtime dump)")
    F.try_add("validatesFirst", "Bool", lambda: L.lean_bool(adf()["validatesFirst"]),
              "as_dict: TypeError/ValueError checks precede `with self.oneshot()`")
    F.try_add("adCatches", "List String", lambda: strs(adf()["adCatches"]),
              "exception classes as_dict replaces by ad_value")
    F.try_add("notImplSkips", "Bool", lambda: L.lean_bool(adf()["notImplSkips"]),
              "as_dict: NotImplementedError re-raised only `if attrs`, else the name is skipped")
    F.try_add("collectionTypes", "List String", lambda: strs(adf()["collectionTypes"]),
              "as_dict: the types accepted by `isinstance(attrs, (...))`; anything else is a TypeError")
    F.try_add("emptyMeansAll", "Bool", lambda: L.lean_bool(adf()["emptyMeansAll"]),
              "as_dict: `ls = attrs or valid_names`")


def snap_valid_names(snap):
    """Runtime dump in a sub-interpreter (the check's own interpreter imports psutil later)."""
    import json
    import subprocess
    code = ("import sys, json; sys.path.insert(0, %r); import psutil; "
            "print(json.dumps(sorted(psutil._as_dict_attrnames)))" % snap.dir)
    r = subprocess.run(["/venv/bin/python", "-c", code], stdout=subprocess.PIPE, stderr=subprocess.PIPE,
                       text=True, timeout=60)
    if r.returncode != 0:
        raise NotRecognised("cannot dump _as_dict_attrnames: %s" % r.stderr[-300:])
    return json.loads(r.stdout.strip().split("\n")[-1])
