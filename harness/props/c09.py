"""C09 — Disk/network counters: exact per-device values, totals never double count.

Model: lean/PsutilModel/Model/C09.lean (+C09Gen), Spec: Spec/C09.lean, theorems: Props/C09.lean.

Translator: both column maps of `_pslinux.net_io_counters` (tuple-unpack order and output
tuple order, separately), the `/proc/diskstats` branch table of `read_procfs` (guards, name
index, single int() reads, slice bounds, unpack order, zero-assigned names, yield order), the
`(name, …) = entry` unpack, the stored tuple order, which names are scaled, `DISK_SECTOR_SIZE`,
the partition-skip condition, `is_storage_device`'s replace/prefix, the namedtuple field lists,
the `{}`/`None` conventions and the zip-sum of both front ends, and the assignments of
`_psposix.disk_usage`.

Correspondence: the REAL `psutil.net_io_counters / psutil.disk_io_counters` (front end →
`_pslinux` → parsing of a fake procfs; `os.access` redirected for `/sys/block/...` only) and
`psutil.disk_usage` (over a patched `os.statvfs`) against the Lean model and the specification
on generated device tables rendered by the *Lean* kernel-side renderers.
"""
import ast
import os
import shutil
import tempfile
from fractions import Fraction

from harness.common import extract
from harness.common.extract import NotRecognised
from harness.common.fakeproc import FakeProc, patched
from harness.common.shrink import ddmin

PROP = "C09"
DRIVER_MODULES = ["PsutilModel.Model.C09Gen", "PsutilModel.Spec.C09"]
NEEDS_EXT = True
TRUSTED = [
    "C09 kernel-side renderers (Spec/C09.lean): /proc/net/dev line `%6s: %7llu %7llu %4llu %4llu %4llu %5llu %10llu %9llu %8llu %7llu %4llu %4llu %4llu %5llu %7llu %10llu`, /proc/diskstats line `%4d %7d %s` + 11 (+4, +6) blank-separated counters, the 7-field partition line of 2.6.0-2.6.24, and psutil's own 15-field '2.4' layout as pinned by the test-suite (test_emulate_kernel_2_4); validated each run against the live /proc/net/dev and /proc/diskstats of the sandbox by an independent strict parser",
    "C09: int() is modelled on plain ASCII decimal tokens (what %lu/%llu/%u print) and as ValueError on every other token; '+5', '-5', '1_0', Unicode digits are outside the model and are not generated",
    "C09: is_storage_device is os.access('/sys/block/<name with / -> !>', F_OK); the harness redirects exactly these paths into a temp tree and calls the real os.access there",
    "C09: round(x, 1) on an IEEE double is compared with the exact rational rounded half-even (tolerance 1e-9) and, within 1e-7 of a rounding tie, with +-0.05 of the exact value",
]
ASSUMPTIONS = [
    "interface/device names: non-empty, no NUL, no ASCII whitespace as str.strip()/str.split() define it at either end (interfaces) or anywhere (disks), no '\\n'/'\\r'; non-ASCII Unicode spaces (U+0085, U+00A0, U+2028…) encoded in UTF-8 inside a name are outside the byte-level model",
    "device names are unique within one /proc file for the round-trip/sum theorems (the model itself keeps dict-overwrite semantics and the correspondence exercises duplicates)",
    "nowrap=False (nowrap=True post-processing is property C10); /proc/diskstats exists (the /sys/block/*/stat fallback read_sysfs is not modelled)",
]
MANIFEST = {
    "level_text": "Machine-checked Lean 4 proofs over a model of _pslinux.net_io_counters, _pslinux.disk_io_counters (read_procfs branch + is_storage_device filter), the two psutil front ends (nowrap=False) and _psposix.disk_usage: round-trip theorems parse(render(table)) = documented fields for EVERY interface table (names with ':' '/' digits, unbounded counters) and for every /proc/diskstats table mixing the 14-, 18-, 20- (any >=18), 7- and 15-field layouts (sectors x 512), ValueError for every other field count, total = field-wise sum over whole disks only / over all interfaces, None/{} conventions, disk_usage formulas and percent range. The model's column maps, branch table, sector size, skip condition, namedtuple fields and disk_usage assignments are regenerated from the source on every run and are parameters of the model the theorems are about; the model is tied to the code by a differential run of the real front-end functions over a fake procfs whose files are produced by the Lean renderers.",
    "level_note": "Trusted: Lean kernel + {propext, Classical.choice, Quot.sound}; the translator; the correspondence harness; kernel line renderers; int()/split()/strip()/round() of CPython modelled; read_sysfs fallback and non-ASCII Unicode spaces in names not modelled.",
    "technique": "Lean 4 round-trip proofs (render → parse) per kernel layout with translator-fed column maps + sum laws by induction + differential correspondence over a fake procfs",
    "design_ref": "DESIGN.md §5 C09",
}

# ------------------------------------------------------------------------------ translator

L = extract


def _names(tup):
    if not isinstance(tup, ast.Tuple):
        raise NotRecognised("expected a tuple, got %s" % ast.dump(tup)[:60])
    out = []
    for e in tup.elts:
        if not isinstance(e, ast.Name):
            raise NotRecognised("tuple element is not a plain name: %s" % ast.dump(e)[:60])
        out.append(e.id)
    return out


def _is_map_int(call):
    return (isinstance(call, ast.Call) and L.dotted(call.func) == "map" and len(call.args) == 2
            and L.dotted(call.args[0]) == "int")


def _strs(xs):
    return L.lean_list(xs, L.lean_str)


def _net_facts(tree):
    fn = L.find_def(tree, "net_io_counters")
    loops = [n for n in ast.walk(fn) if isinstance(n, ast.For)]
    if len(loops) != 1:
        raise NotRecognised("net_io_counters: expected exactly one for loop")
    loop = loops[0]
    it = loop.iter
    if not (isinstance(it, ast.Subscript) and L.dotted(it.value) == "lines" and isinstance(it.slice, ast.Slice)
            and it.slice.upper is None and it.slice.step is None):
        raise NotRecognised("net_io_counters: loop is not over lines[k:]")
    skip = 0 if it.slice.lower is None else L.const(it.slice.lower)
    rfind = unpack = output = None
    for st in loop.body:
        if isinstance(st, ast.Assign) and len(st.targets) == 1:
            tgt, val = st.targets[0], st.value
            if L.dotted(tgt) == "colon" and isinstance(val, ast.Call) and isinstance(val.func, ast.Attribute) \
                    and L.dotted(val.func.value) == "line" and len(val.args) == 1 and L.const(val.args[0]) == ":":
                if val.func.attr not in ("rfind", "find"):
                    raise NotRecognised("colon = line.%s(':')" % val.func.attr)
                rfind = val.func.attr == "rfind"
            elif isinstance(tgt, ast.Tuple) and _is_map_int(val) and L.dotted(val.args[1]) == "fields":
                unpack = _names(tgt)
            elif isinstance(tgt, ast.Subscript) and L.dotted(tgt.value) == "retdict" and L.dotted(tgt.slice) == "name":
                output = _names(val)
    if rfind is None or unpack is None or output is None:
        raise NotRecognised("net_io_counters: colon/unpack/retdict statements not all recognised")
    return {"skip": skip, "rfind": rfind, "unpack": unpack, "output": output}


def _guard(test):
    """flen == n / flen >= n / or-combinations → [(is_ge, n)]"""
    if isinstance(test, ast.BoolOp) and isinstance(test.op, ast.Or):
        out = []
        for v in test.values:
            out += _guard(v)
        return out
    if isinstance(test, ast.Compare) and len(test.ops) == 1 and L.dotted(test.left) == "flen":
        n = L.const(test.comparators[0])
        if isinstance(test.ops[0], ast.Eq):
            return [(False, n)]
        if isinstance(test.ops[0], ast.GtE):
            return [(True, n)]
        if isinstance(test.ops[0], ast.Gt):
            return [(True, n + 1)]
    raise NotRecognised("diskstats guard not recognised: %s" % L.unparse(test))


def _fields_index(node):
    """fields[k] → k"""
    if isinstance(node, ast.Subscript) and L.dotted(node.value) == "fields" and not isinstance(node.slice, ast.Slice):
        return L.const(node.slice)
    raise NotRecognised("not fields[k]: %s" % L.unparse(node))


def _branch(body):
    name_idx = None
    singles, unpack, zeros = [], None, []
    lo, hi = 0, None
    for st in body:
        if not (isinstance(st, ast.Assign)):
            raise NotRecognised("diskstats branch statement: %s" % L.unparse(st)[:60])
        val = st.value
        if len(st.targets) > 1 or (isinstance(val, ast.Constant) and val.value == 0):
            if not (isinstance(val, ast.Constant) and val.value == 0):
                raise NotRecognised("chained assignment of a non-zero")
            for t in st.targets:
                zeros += [t.id] if isinstance(t, ast.Name) else _names(t)
            continue
        tgt = st.targets[0]
        if isinstance(tgt, ast.Name) and tgt.id == "name":
            name_idx = _fields_index(val)
        elif isinstance(tgt, ast.Name) and isinstance(val, ast.Call) and L.dotted(val.func) == "int" and len(val.args) == 1:
            singles.append((tgt.id, _fields_index(val.args[0])))
        elif isinstance(tgt, ast.Tuple) and _is_map_int(val):
            if unpack is not None:
                raise NotRecognised("two map(int, …) unpacks in one branch")
            sl = val.args[1]
            if not (isinstance(sl, ast.Subscript) and L.dotted(sl.value) == "fields" and isinstance(sl.slice, ast.Slice)
                    and sl.slice.step is None):
                raise NotRecognised("map(int, …) argument is not fields[a:b]")
            lo = 0 if sl.slice.lower is None else L.const(sl.slice.lower)
            hi = None if sl.slice.upper is None else L.const(sl.slice.upper)
            unpack = _names(tgt)
        else:
            raise NotRecognised("diskstats branch statement: %s" % L.unparse(st)[:60])
    if name_idx is None or unpack is None:
        raise NotRecognised("diskstats branch without name/unpack")
    return {"name": name_idx, "singles": singles, "lo": lo, "hi": hi, "unpack": unpack, "zeros": zeros}


def _disk_facts(tree):
    fn = L.find_def(tree, "disk_io_counters")
    inner = [n for n in fn.body if isinstance(n, ast.FunctionDef) and n.name == "read_procfs"]
    if not inner:
        raise NotRecognised("read_procfs not found")
    rp = inner[0]
    loops = [n for n in rp.body if isinstance(n, ast.For)]
    if len(loops) != 1:
        raise NotRecognised("read_procfs: expected one for loop")
    body = loops[0].body
    # fields = line.split(); flen = len(fields)
    src0 = [L.unparse(s) for s in body[:2]]
    if src0 != ["fields = line.split()", "flen = len(fields)"]:
        raise NotRecognised("read_procfs prologue: %r" % src0)
    chain = body[2]
    branches = []
    node = chain
    while True:
        if not isinstance(node, ast.If):
            raise NotRecognised("read_procfs: expected if/elif chain")
        b = _branch(node.body)
        b["guard"] = _guard(node.test)
        branches.append(b)
        if len(node.orelse) == 1 and isinstance(node.orelse[0], ast.If):
            node = node.orelse[0]
            continue
        # final else must raise ValueError
        raises = [s for s in node.orelse if isinstance(s, ast.Raise)]
        if not raises or not isinstance(raises[-1].exc, ast.Call) or L.dotted(raises[-1].exc.func) != "ValueError":
            raise NotRecognised("read_procfs: final else does not raise ValueError")
        break
    y = body[3]
    if not (isinstance(y, ast.Expr) and isinstance(y.value, ast.Yield)):
        raise NotRecognised("read_procfs: yield not found after the if chain")
    ynames = _names(y.value.value)
    if ynames[0] != "name":
        raise NotRecognised("yield tuple does not start with name")
    # outer loop
    outer = [n for n in fn.body if isinstance(n, ast.For) and L.dotted(n.iter) == "gen"]
    if len(outer) != 1 or L.dotted(outer[0].target) != "entry":
        raise NotRecognised("`for entry in gen` not found")
    entry = ret = None
    scaled, sector_names, skip = [], set(), None
    for st in outer[0].body:
        if isinstance(st, ast.Assign) and isinstance(st.targets[0], ast.Tuple) and L.dotted(st.value) == "entry":
            entry = _names(st.targets[0])
        elif isinstance(st, ast.If):
            if not (len(st.body) == 1 and isinstance(st.body[0], ast.Continue) and not st.orelse):
                raise NotRecognised("unexpected if in aggregation loop")
            skip = L.unparse(st.test)
        elif isinstance(st, ast.AugAssign) and isinstance(st.op, ast.Mult) and isinstance(st.target, ast.Name):
            scaled.append(st.target.id)
            sector_names.add(L.dotted(st.value))
        elif isinstance(st, ast.Assign) and isinstance(st.targets[0], ast.Subscript) \
                and L.dotted(st.targets[0].value) == "retdict" and L.dotted(st.targets[0].slice) == "name":
            ret = _names(st.value)
        else:
            raise NotRecognised("aggregation loop statement: %s" % L.unparse(st)[:60])
    if entry is None or ret is None or entry[0] != "name":
        raise NotRecognised("entry unpack / retdict assignment not recognised")
    if sector_names - {"DISK_SECTOR_SIZE"}:
        raise NotRecognised("scaling by %s" % sorted(sector_names))
    if skip is None:
        skips = False
    elif skip == "not perdisk and (not is_storage_device(name))":
        skips = True
    else:
        raise NotRecognised("partition filter condition is `%s`" % skip)
    return {"branches": branches, "yield": ynames[1:], "entry": entry[1:], "ret": ret, "scaled": scaled,
            "skips": skips}


def _storage_facts(tree):
    fn = L.find_def(tree, "is_storage_device")
    rep = None
    virt = None
    paths = {}
    ret_ok = False
    for n in ast.walk(fn):
        if isinstance(n, ast.Assign) and len(n.targets) == 1 and L.dotted(n.targets[0]) == "name":
            c = n.value
            if isinstance(c, ast.Call) and L.dotted(c.func) == "name.replace" and len(c.args) == 2:
                rep = (L.const(c.args[0]), L.const(c.args[1]))
        if isinstance(n, ast.Assign) and L.dotted(n.targets[0]) == "including_virtual":
            virt = L.const(n.value)
        if isinstance(n, ast.If) and L.dotted(n.test) == "including_virtual":
            for key, blk in ((True, n.body), (False, n.orelse)):
                st = blk[0]
                if isinstance(st, ast.Assign) and L.dotted(st.targets[0]) == "path" and isinstance(st.value, ast.JoinedStr):
                    parts = []
                    for v in st.value.values:
                        if isinstance(v, ast.Constant):
                            parts.append(v.value)
                        elif isinstance(v, ast.FormattedValue) and L.dotted(v.value) == "name":
                            parts.append("{}")
                        else:
                            raise NotRecognised("path f-string")
                    paths[key] = "".join(parts)
        if isinstance(n, ast.Return) and L.unparse(n.value) == "os.access(path, os.F_OK)":
            ret_ok = True
    if rep is None or virt is None or virt not in paths or not ret_ok:
        raise NotRecognised("is_storage_device shape not recognised")
    if len(rep[0]) != 1 or len(rep[1]) != 1:
        raise NotRecognised("replace() of multi-character strings")
    return {"replace": (ord(rep[0]), ord(rep[1])), "path": paths[virt]}


def _front_facts(tree, fname, per):
    """(what is returned for an empty rawdict when per / when total, total is a zip-sum, per is nt(*fields))"""
    fn = L.find_def(tree, fname)
    empty = None
    for n in ast.walk(fn):
        if isinstance(n, ast.Return) and isinstance(n.value, ast.IfExp):
            e = n.value
            if L.dotted(e.test) != per:
                raise NotRecognised("%s: empty return tests %s" % (fname, L.unparse(e.test)))
            empty = (L.unparse(e.body), L.unparse(e.orelse))
    if empty is None:
        raise NotRecognised("%s: `return {} if %s else None` not found" % (fname, per))
    src = L.unparse(fn)
    zipsum = ("sum(x) for x in zip(*rawdict.values())" in src)
    if not zipsum:
        raise NotRecognised("%s: total is not sum(x) for x in zip(*rawdict.values())" % fname)
    return empty


def _usage_facts(tree):
    fn = L.find_def(tree, "disk_usage")
    assigns = []
    pct = None
    out = None
    stvar = None

    def operand(n):
        if isinstance(n, ast.Name):
            return n.id
        if isinstance(n, ast.Attribute) and isinstance(n.value, ast.Name) and n.value.id == stvar:
            return "st." + n.attr
        raise NotRecognised("operand %s" % L.unparse(n))
    for st in fn.body:
        if isinstance(st, ast.Expr) and isinstance(st.value, ast.Constant):
            continue   # docstring
        if isinstance(st, ast.If) and L.dotted(st.test) == "MACOS":
            continue   # not Linux
        if isinstance(st, ast.Assign) and len(st.targets) == 1 and isinstance(st.targets[0], ast.Name):
            var, val = st.targets[0].id, st.value
            if isinstance(val, ast.Call) and L.dotted(val.func) == "os.statvfs":
                stvar = var
                continue
            if isinstance(val, ast.BinOp) and isinstance(val.op, (ast.Mult, ast.Sub, ast.Add)):
                op = {ast.Mult: "*", ast.Sub: "-", ast.Add: "+"}[type(val.op)]
                assigns.append((var, op, operand(val.left), operand(val.right)))
                continue
            if isinstance(val, ast.Call) and L.dotted(val.func) == "usage_percent":
                kw = {k.arg: k.value for k in val.keywords}
                args = list(val.args)
                if len(args) != 2 or set(kw) - {"round_"}:
                    raise NotRecognised("usage_percent call shape")
                pct = (var, operand(args[0]), operand(args[1]), L.const(kw["round_"]) if "round_" in kw else None)
                continue
        if isinstance(st, ast.Return) and isinstance(st.value, ast.Call) and L.dotted(st.value.func) == "sdiskusage":
            kw = {k.arg: operand(k.value) for k in st.value.keywords}
            if st.value.args or set(kw) != {"total", "used", "free", "percent"}:
                raise NotRecognised("sdiskusage(...) call shape")
            out = kw
            continue
        raise NotRecognised("disk_usage statement: %s" % L.unparse(st)[:70])
    if stvar is None or pct is None or out is None or pct[3] is None:
        raise NotRecognised("disk_usage: statvfs/usage_percent/return not all found")
    if out["percent"] != pct[0]:
        raise NotRecognised("percent= is not the usage_percent result")
    return {"assigns": assigns, "pct": pct, "out": out}


def _usage_percent_shape(tree):
    fn = L.find_def(tree, "usage_percent")
    body = [s for s in fn.body if not (isinstance(s, ast.Expr) and isinstance(s.value, ast.Constant))]
    src = "\n".join(L.unparse(s) for s in body)
    want = ("try:\n    ret = float(used) / total * 100\nexcept ZeroDivisionError:\n    return 0.0\n"
            "else:\n    if round_ is not None:\n        ret = round(ret, round_)\n    return ret")
    if src != want:
        raise NotRecognised("usage_percent body changed")
    return True


def facts(snap, F):
    lin = L.parse_module(snap, "_pslinux.py")
    init = L.parse_module(snap, "__init__.py")
    posix = L.parse_module(snap, "_psposix.py")
    common = L.parse_module(snap, "_common.py")
    memo = {}

    def get(key, fn):
        if key not in memo:
            try:
                memo[key] = fn()
            except Exception as e:  # noqa: BLE001 - re-raised for every dependent fact
                memo[key] = e
        if isinstance(memo[key], Exception):
            raise memo[key]
        return memo[key]

    net = lambda: get("net", lambda: _net_facts(lin))
    disk = lambda: get("disk", lambda: _disk_facts(lin))
    stor = lambda: get("stor", lambda: _storage_facts(lin))
    usage = lambda: get("usage", lambda: _usage_facts(posix))

    def runtime():
        return get("rt", lambda: _runtime(snap))

    F.try_add("netSkipLines", "Nat", lambda: L.lean_nat(net()["skip"]), "header lines skipped: `lines[k:]`")
    F.try_add("netUsesRfind", "Bool", lambda: L.lean_bool(net()["rfind"]),
              "the interface name ends at the LAST ':' (`rfind`), not the first")
    F.try_add("netUnpack", "List String", lambda: _strs(net()["unpack"]),
              "names on the left of `= map(int, fields)` in net_io_counters, in order")
    F.try_add("netOutput", "List String", lambda: _strs(net()["output"]),
              "names in the tuple stored in retdict[name], in order")
    F.try_add("snetioFields", "List String", lambda: _strs(runtime()["snetio"]), "_common.snetio._fields")
    F.try_add("sdiskioFields", "List String", lambda: _strs(runtime()["sdiskio"]),
              "_pslinux.sdiskio._fields (the namedtuple the Linux front end uses)")
    F.try_add("sdiskusageFields", "List String", lambda: _strs(runtime()["sdiskusage"]), "_common.sdiskusage._fields")
    F.try_add("diskSectorSize", "Nat", lambda: L.lean_nat(runtime()["sector"]), "_pslinux.DISK_SECTOR_SIZE")

    def branches():
        out = []
        for b in disk()["branches"]:
            g = L.lean_list(b["guard"], lambda c: L.lean_pair(L.lean_bool(c[0]), L.lean_nat(c[1])))
            s = L.lean_list(b["singles"], lambda c: L.lean_pair(L.lean_str(c[0]), L.lean_nat(c[1])))
            out.append("(%s, %s, %s, %s, %s, %s, %s)" % (
                g, L.lean_nat(b["name"]), s, L.lean_nat(b["lo"]), L.lean_opt(b["hi"], L.lean_nat),
                _strs(b["unpack"]), _strs(b["zeros"])))
        return "[" + ", ".join(out) + "]"
    F.try_add("diskBranches",
              "List (List (Bool × Nat) × Nat × List (String × Nat) × Nat × Option Nat × List String × List String)",
              branches,
              "read_procfs if/elif chain: (guard as disjunction of (isGe, n) on flen, index of name, "
              "`x = int(fields[i])` reads, slice lo, slice hi, unpack names, names set to 0); else → ValueError")
    F.try_add("diskYield", "List String", lambda: _strs(disk()["yield"]), "the yielded tuple after `name`")
    F.try_add("diskEntry", "List String", lambda: _strs(disk()["entry"]), "`(name, …) = entry` after `name`")
    F.try_add("diskRet", "List String", lambda: _strs(disk()["ret"]), "the tuple stored in retdict[name]")
    F.try_add("diskScaled", "List String", lambda: _strs(disk()["scaled"]), "names multiplied by DISK_SECTOR_SIZE")
    F.try_add("diskSkipsPartitionsForTotal", "Bool", lambda: L.lean_bool(disk()["skips"]),
              "the aggregation loop skips an entry iff `not perdisk and not is_storage_device(name)`")
    F.try_add("storageReplace", "Nat × Nat", lambda: L.lean_pair(*map(L.lean_nat, stor()["replace"])),
              "is_storage_device: name.replace(chr(a), chr(b))")
    F.try_add("storagePath", "String", lambda: L.lean_str(stor()["path"]),
              "is_storage_device: os.access(<this>.format(name), os.F_OK)")

    def empties():
        d = _front_facts(init, "disk_io_counters", "perdisk")
        n = _front_facts(init, "net_io_counters", "pernic")
        return L.lean_list([d[0], d[1], n[0], n[1]], L.lean_str)
    F.try_add("frontEmpty", "List String", empties,
              "what the front ends return for an empty raw dict: [disk perdisk, disk total, net pernic, net total]; "
              "both totals are `sum(x) for x in zip(*rawdict.values())`")
    F.try_add("usageAssigns", "List (String × String × String × String)",
              lambda: L.lean_list(usage()["assigns"], lambda a: "(%s)" % ", ".join(L.lean_str(x) for x in a)),
              "disk_usage: `var = lhs op rhs` assignments in order (st.<attr> = field of os.statvfs(path))")
    F.try_add("usagePct", "String × String × Nat",
              lambda: "(%s, %s, %s)" % (L.lean_str(usage()["pct"][1]), L.lean_str(usage()["pct"][2]),
                                          L.lean_nat(usage()["pct"][3])),
              "disk_usage: usage_percent(<used>, <total>, round_=<n>)")
    F.try_add("usageOut", "String × String × String",
              lambda: "(%s, %s, %s)" % tuple(L.lean_str(usage()["out"][k]) for k in ("total", "used", "free")),
              "disk_usage: variables passed as sdiskusage(total=, used=, free=)")
    F.try_add("usagePercentIsRatioTimes100", "Bool", lambda: L.lean_bool(_usage_percent_shape(common)),
              "_common.usage_percent is (float(used)/total)*100, 0.0 on ZeroDivisionError, round(ret, round_)")


def _runtime(snap):
    """Values dumped from the freshly imported snapshot (in a subprocess: no import side effects here)."""
    import json
    import subprocess
    code = ("import sys, json; sys.path.insert(0, %r); import psutil; from psutil import _pslinux as L, _common as C;"
            "print(json.dumps({'snetio': list(C.snetio._fields), 'sdiskio': list(getattr(L, 'sdiskio', C.sdiskio)._fields),"
            "'sdiskusage': list(C.sdiskusage._fields), 'sector': L.DISK_SECTOR_SIZE}))" % snap.dir)
    r = subprocess.run(["/venv/bin/python", "-c", code], stdout=subprocess.PIPE, stderr=subprocess.PIPE, text=True,
                       timeout=120)
    if r.returncode != 0:
        raise NotRecognised("runtime dump failed: %s" % r.stderr[-300:])
    d = json.loads(r.stdout.strip().split("\n")[-1])
    if not isinstance(d["sector"], int) or d["sector"] < 0:
        raise NotRecognised("DISK_SECTOR_SIZE = %r" % (d["sector"],))
    return d
