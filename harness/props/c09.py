"""C09 — Disk/network counters: exact per-device values, totals never double count.

Model: lean/PsutilModel/Model/C09.lean (+C09Gen), Spec: Spec/C09.lean, theorems: Props/C09.lean.

Translator: both column maps of `_pslinux.net_io_counters` (tuple-unpack order and output
tuple order, separately), the `/proc/diskstats` branch table of `read_procfs` (guards, name
index, single int() reads, slice bounds, unpack order, zero-assigned names, yield order), the
`(name, …) = entry` unpack, the stored tuple order, which names are scaled, `DISK_SECTOR_SIZE`,
the partition-skip condition, `is_storage_device`'s replace/prefix, the namedtuple field lists,
the `{}`/`None` conventions and the zip-sum of both front ends, and the assignments of
`_psposix.disk_usage`; second extension round: `assert colon > k`, `line[colon + k:]`, the defaults of `perdisk` / `pernic`.

Correspondence: the REAL `psutil.net_io_counters / psutil.disk_io_counters` (front end →
`_pslinux` → parsing of a fake procfs; `os.access`, `os.path.exists`, `os.listdir`, `os.walk` redirected for
`/sys/block[/...]` only, so that worlds without `/proc/diskstats` run the real `read_sysfs`) and
`psutil.disk_usage` (over a patched `os.statvfs`) against the Lean model and the specification
on generated device tables rendered by the *Lean* kernel-side renderers.

Seeded round 5: HISTORIES of calls in one process with the default `nowrap=True` (op `hist`): the translator pins
`_common._WrapNumbers` / `wrap_numbers` and the statements under `if nowrap:` (facts wrapStrictLess, wrapNames, wrapClearNames,
wrapFrame, frontWrapFrame), the model is Model/C09Wrap.lean, the history-defined promise Spec/C09Hist.lean; generator family
`gen_hist_case` (+ corpus + 216 exhaustive 3-step histories).
"""
import ast
import errno
import hashlib
import os
import shutil
import tempfile
from fractions import Fraction

from harness.common import extract
from harness.common.extract import NotRecognised
from harness.common.build import InfraError
from harness.common.fakeproc import FakeProc, patched
from harness.common.shrink import ddmin

PROP = "C09"
DRIVER_MODULES = ["PsutilModel.Model.C09Gen", "PsutilModel.Spec.C09", "PsutilModel.Spec.C09Hist"]
NEEDS_EXT = True
TRUSTED = [
    "C09 kernel-side renderers (Spec/C09.lean): /proc/net/dev line `%6s: %7llu %7llu %4llu %4llu %4llu %5llu %10llu %9llu %8llu %7llu %4llu %4llu %4llu %5llu %7llu %10llu`, /proc/diskstats line `%4d %7d %s` + 11 (+4, +6) blank-separated counters, the 7-field partition line of 2.6.0-2.6.24, and psutil's own 15-field '2.4' layout as pinned by the test-suite (test_emulate_kernel_2_4); validated each run against the live /proc/net/dev and /proc/diskstats of the sandbox by an independent strict parser",
    "C09: int() on ASCII tokens is Base/C09Int.pyInt? (surrounding 9-13/32 stripped - not 0x1c-0x1f -, optional sign, single underscores between digits, leading zeros; compared with CPython's int() on every token of length <= 4 over '+-_019x', blank, 0x1f on every run); a negative result, a token with a byte >= 0x80 (int() accepts non-ASCII decimal digits) and text in which str.split() would see a UTF-8 encoded Unicode space are reported by the model as 'unmodelled' and not judged; the 4300-digit limit of int() (sys.int_info.default_max_str_digits) is not modelled: kernel counters have at most 20 digits",
    "C09: read_sysfs sees /sys/block through os.path.exists / os.listdir / os.walk, which the harness redirects (for the paths '/sys/block' and '/sys/block/...' only) into a temp tree; os.walk itself (top-down, followlinks=False) is modelled by Base/C09Sysfs.walk, the tree handed to the model is read back from the temp tree in os.scandir order; in the 'permuted listing order' cases the redirected os.listdir sorts its result and the redirected os.walk re-orders `dirs` (in place) and `files` of every directory by a seeded pseudo-random key before yielding (the documented way for a caller of a top-down walk to fix the traversal order) - this stands for a file system that lists the entries in that order; in the 'kernel layout' cases /sys/block/<dev> are symlinks into <root>/sys/devices and every device directory holds `subsystem`/`bdi` symlinks to directories, which os.walk lists but does not enter: such sub-directories are not part of the modelled tree; kernel `stat` renderer (Spec.renderStat: '%8lu' cells, one blank between, '\\n') is a trusted transcription of Documentation/block/stat.rst / part_stat_show",
    "C09: is_storage_device is os.access('/sys/block/<name with / -> !>', F_OK); the harness redirects exactly these paths into a temp tree and calls the real os.access there",
    "C09: round(x, 1) on an IEEE double is compared with the exact rational rounded half-even (tolerance 1e-9) and, within 1e-7 of a rounding tie, with +-0.05 of the exact value",
]
ASSUMPTIONS = [
    "interface names: non-empty, no NUL, no '\\n'/'\\r', first and last byte not removed by the strip the code applies (theorems C09_net*: WFName netCfg.nameWs); the full-strength statement for every name free of C-locale whitespace is C09_net_every_kernel_name_Full (proved for `.strip(' ')`, which is what the code uses since fix eb17d63 - C09_net_names_full -, refuted for the bare `.strip()` of the code as found: former finding C09-net-name-strip); with the bare strip() the UTF-8 encodings of Unicode spaces at the ends of a name are stripped by the code but not by the byte-level model (inside the former finding's region only)",
    "disk names (/proc/diskstats source): one non-empty token for str.split(): no ASCII whitespace incl. 0x1c-0x1f, no NUL, no UTF-8 encoded Unicode space (WFDisk.noUni: hasUniSpace name = false, stated in the theorems; a line that has one is 'unmodelled'); not '.' or '..'; distinct after the / -> ! mapping",
    "/sys/block source (C09_sysfs*): kernel-shaped tree - `stat` is the only file of that name in a device directory, attribute directories contain no file called `stat` (a deeper `stat` file IS read by the code and by the model: raw family 'deepstat'), directory names distinct and not '.'/'..'; names need not be split() tokens; kernel names contain no '!' (the kernel's '/' -> '!' is not injective otherwise); with the bare basename(root) of the code as found a device whose kernel name contains '/' was reported under its directory name (former finding C09-sysfs-slash-name, fixed in /repo by da4a5df): C09_sysfs_agrees_with_procfs_Full is proved for the generated configuration (C09_sysfs_agrees_with_procfs_full, through the obligation cfg_sysfs_unbang: cfg.nameReplace = some ('!','/')), refuted for the bare one",
    "device names are unique within one /proc file for the round-trip/sum theorems (the model itself keeps dict-overwrite semantics and the correspondence exercises duplicates)",
    "nowrap=True (the default) over a history of calls: exact values are claimed for field j of device d only when that field was not seen going backwards along the maximal run of consecutive earlier nowrap=True observations listing d since the last cache_clear(), over the calls of the same form AND over the calls of either form (Spec/C09Hist.lean); where a counter was seen going backwards the value is property C10's subject and not judged here (keys, order, field names, {}/None still are); the theorems for a call in a history (C09_nowrap_*) assume the state every history of samples leads to (SlotInv, C09_wrap_invariant_every_history) and tuples of the namedtuple's width; the statement over whole front-end histories (C09_nowrap_history_Full) is compared by the correspondence, not proved as one theorem",
    "/sys/block in any listing order (C09_sysfs_any_order, C09_sysfs_total_any_order): Spec.SysListing - every directory of the kernel-shaped tree (the /sys/block listing, the files and the partition/attribute sub-directories of a disk directory, the files and attribute directories of a partition directory) may be listed in any order; the per-device answer is then the promised dict up to the order of its items (Expect.same), the total is literally the promised value",
    "disk_usage: os.statvfs raising OSError is outside the statement ('every statvfs result'); the model (diskUsageCall, C09_disk_usage_call) propagates the error with its errno and the correspondence compares that on 7 errnos, with no specification column",
]
MANIFEST = {
    "level_text": "Machine-checked Lean 4 proofs over a model of _pslinux.net_io_counters, _pslinux.disk_io_counters (read_procfs, read_sysfs, the choice between them, NotImplementedError, is_storage_device filter), the two psutil front ends (nowrap=False, and - seeded round 5 - the DEFAULT nowrap=True over a history of calls: _common._WrapNumbers.run/cache_clear per cache name, the statements under `if nowrap:`; every reachable state satisfies the reminder invariant C09_wrap_invariant_every_history, per-device values are exact and the total is the sum over what is listed NOW unless that very counter was seen going backwards while the device stayed listed: C09_wrap_exact_unless_seen_backwards, C09_nowrap_pernic_exact, C09_nowrap_perdisk_exact, C09_nowrap_*_total_never_double_counts, what-if counterexamples for a merged history and for `<=`; the zip/sum of the system-wide branch is a translator fact) and _psposix.disk_usage: round-trip theorems parse(render(table)) = documented fields for EVERY interface table (names with ':' '/' digits, unbounded counters) and for every /proc/diskstats table mixing the 14-, 18-, 20- (any >=18), 7- and 15-field layouts (sectors x 512), ValueError for every other field count, total = field-wise sum over whole disks only / over all interfaces (deleting every partition line leaves the total unchanged), None/{} conventions, the same for every kernel-shaped /sys/block tree when /proc/diskstats is absent (stat files of 11, 15, 17 or more fields, partitions below disks, attribute files/directories around; fewer than 10 fields: ValueError) and agreement of the two sources for the same kernel state (full strength for the code as it is, C09_sysfs_agrees_with_procfs_full: read_sysfs uses `.replace('!', '/')` - translator fact sysfsNameReplace pinned by the obligation cfg_sysfs_unbang -; counterexample 'c/d' proved for the bare basename(root) of the code as found: former finding C09-sysfs-slash-name, fixed in /repo by da4a5df), NotImplementedError when neither exists, the same /sys/block answer for EVERY listing order of every directory of the tree (C09_sysfs_any_order: same dict; C09_sysfs_total_any_order: literally the same total), int() acceptance on ASCII tokens, disk_usage formulas with the unit of every count stated (C09_disk_usage_units: all three block counts x f_frsize; C09_disk_usage_ignores_bsize: f_bsize plays no role; counterexample for the free counts x f_bsize), an OSError of os.statvfs reaching the caller (C09_disk_usage_call), 0 <= percent <= 100, |round1 q - q| <= 1/20. The full-strength name statement (every interface name free of C-locale whitespace is reported unchanged) is proved for the translator-generated configuration (C09_net_names_full: the source uses `.strip(' ')`) and refuted with a witness for the bare `.strip()` (former finding C09-net-name-strip, fixed in /repo by eb17d63). The model's column maps, branch table, sector size, skip condition, namedtuple fields and disk_usage assignments are regenerated from the source on every run and are parameters of the model the theorems are about; the model is tied to the code by a differential run of the real front-end functions over a fake procfs whose files are produced by the Lean renderers.",
    "level_note": "Trusted: Lean kernel + {propext, Classical.choice, Quot.sound}; the translator; the correspondence harness; kernel line renderers; int()/split()/strip()/round()/os.walk of CPython modelled; negative int() results, non-ASCII digit tokens and UTF-8 encoded Unicode spaces are outside the model's domain (the model says so, such inputs are counted and not judged).",
    "technique": "Lean 4 round-trip proofs (render → parse) per kernel layout with translator-fed column maps + sum laws by induction + differential correspondence over a fake procfs and a redirected /sys/block",
    "design_ref": "DESIGN.md §5 C09",
}

# ------------------------------------------------------------------------------ translator

L = extract


def _names(tup):
    if not isinstance(tup, ast.Tuple):
        raise NotRecognised("expected a tuple, got %s" % ast.dump(tup)[:60])
    out = []
    for e in tup.elts:
        if not isinstance(e, ast.Name):
            raise NotRecognised("tuple element is not a plain name: %s" % ast.dump(e)[:60])
        out.append(e.id)
    return out


def _is_map_int(call):
    return (isinstance(call, ast.Call) and L.dotted(call.func) == "map" and len(call.args) == 2
            and L.dotted(call.args[0]) == "int")


def _strs(xs):
    return L.lean_list(xs, L.lean_str)


class _Scan(dict):
    """per-fact results of one scan of a function: a value, or the NotRecognised that fact raises when asked for;
    `frame` = every statement the scan did NOT turn into a model parameter, as source text, in order"""

    def need(self, key, what=None):
        if key not in self:
            raise NotRecognised("%s not found" % (what or key))
        v = self[key]
        if isinstance(v, Exception):
            raise v
        return v


def _nodoc(body):
    return [s for s in body if not (isinstance(s, ast.Expr) and isinstance(s.value, ast.Constant)
                                     and isinstance(s.value.value, str))]


def _indent(txt, pre="    "):
    return "\n".join(pre + l for l in txt.split("\n"))


def _net_facts(tree):
    """one scan of `_pslinux.net_io_counters`; every fact is extracted independently of the others, every statement
    that is not turned into a model parameter ends up in `frame` (pinned by the obligation `C09_code_frame`)"""
    out = _Scan()
    frame = out["frame"] = []
    fn = L.find_def(tree, "net_io_counters")
    loop = None
    for st in _nodoc(fn.body):
        if isinstance(st, ast.For) and loop is None:
            loop = st
            it = st.iter
            if (isinstance(it, ast.Subscript) and L.dotted(it.value) == "lines" and isinstance(it.slice, ast.Slice)
                    and it.slice.upper is None and it.slice.step is None and not st.orelse
                    and (it.slice.lower is None or (isinstance(it.slice.lower, ast.Constant)
                                                    and isinstance(it.slice.lower.value, int)
                                                    and it.slice.lower.value >= 0))):
                out["skip"] = 0 if it.slice.lower is None else it.slice.lower.value
                frame.append("for %s in lines[<netSkipLines>:]: <loop>" % L.unparse(st.target))
            else:
                out["skip"] = NotRecognised("net_io_counters: loop is not over lines[k:]: %s" % L.unparse(it))
                frame.append("for %s in %s: <loop>%s" % (L.unparse(st.target), L.unparse(it), " else: ..." if st.orelse else ""))
        else:
            frame.append(L.unparse(st))
    if loop is None:
        return out

    def put(key, val, st):
        """first recognised statement of a kind sets the fact; a second one is not part of the model: frame"""
        if key in out:
            frame.append(_indent(L.unparse(st)))
        else:
            out[key] = val
            if isinstance(val, Exception):
                frame.append(_indent(L.unparse(st)))
    for st in loop.body:
        if isinstance(st, ast.Assign) and len(st.targets) == 1 and L.dotted(st.targets[0]) == "fields":
            # fields = line[colon + k:].strip().split()
            v = st.value
            ok = (isinstance(v, ast.Call) and isinstance(v.func, ast.Attribute) and v.func.attr == "split" and not v.args
                  and not v.keywords and isinstance(v.func.value, ast.Call) and isinstance(v.func.value.func, ast.Attribute)
                  and v.func.value.func.attr == "strip" and not v.func.value.args and not v.func.value.keywords)
            sub = v.func.value.func.value if ok else None
            try:
                good = (ok and isinstance(sub, ast.Subscript) and L.dotted(sub.value) == "line" and isinstance(sub.slice, ast.Slice)
                        and sub.slice.upper is None and sub.slice.step is None and isinstance(sub.slice.lower, ast.BinOp)
                        and isinstance(sub.slice.lower.op, ast.Add) and L.dotted(sub.slice.lower.left) == "colon"
                        and isinstance(L.const(sub.slice.lower.right), int) and L.const(sub.slice.lower.right) >= 0)
            except NotRecognised:
                good = False
            put("offset", L.const(sub.slice.lower.right) if good else NotRecognised("net_io_counters: %s" % L.unparse(st)), st)
            continue
        if isinstance(st, ast.Assert):
            t = st.test
            val = NotRecognised("net_io_counters: assert %s" % L.unparse(t))
            try:
                if (isinstance(t, ast.Compare) and len(t.ops) == 1 and L.dotted(t.left) == "colon"
                        and isinstance(L.const(t.comparators[0]), int) and L.const(t.comparators[0]) >= 0):
                    k = L.const(t.comparators[0])
                    if isinstance(t.ops[0], ast.Gt):
                        val = k + 1
                    elif isinstance(t.ops[0], ast.GtE):
                        val = k
            except NotRecognised:
                pass
            put("min_colon", val, st)
            continue
        if isinstance(st, ast.Assign) and len(st.targets) == 1:
            tgt, val = st.targets[0], st.value
            if L.dotted(tgt) == "colon":
                if (isinstance(val, ast.Call) and isinstance(val.func, ast.Attribute) and L.dotted(val.func.value) == "line"
                        and len(val.args) == 1 and not val.keywords and isinstance(val.args[0], ast.Constant)
                        and val.args[0].value == ":" and val.func.attr in ("rfind", "find")):
                    put("rfind", val.func.attr == "rfind", st)
                else:
                    put("rfind", NotRecognised("net_io_counters: %s" % L.unparse(st)), st)
                continue
            if L.dotted(tgt) == "name":
                r = NotRecognised("net_io_counters: %s" % L.unparse(st))
                if (isinstance(val, ast.Call) and isinstance(val.func, ast.Attribute) and val.func.attr == "strip"
                        and L.unparse(val.func.value) == "line[:colon]" and not val.keywords):
                    if len(val.args) == 0 or (len(val.args) == 1 and isinstance(val.args[0], ast.Constant) and val.args[0].value is None):
                        r = ("strip", None)
                    elif (len(val.args) == 1 and isinstance(val.args[0], ast.Constant) and isinstance(val.args[0].value, str)
                          and all(ord(ch) < 128 for ch in val.args[0].value)):
                        r = ("strip", sorted(set(ord(ch) for ch in val.args[0].value)))
                put("strip", r, st)
                continue
            if isinstance(tgt, ast.Tuple) and _is_map_int(val) and L.dotted(val.args[1]) == "fields":
                try:
                    put("unpack", _names(tgt), st)
                except NotRecognised as e:
                    put("unpack", e, st)
                continue
            if isinstance(tgt, ast.Subscript) and L.dotted(tgt.value) == "retdict" and L.dotted(tgt.slice) == "name":
                try:
                    put("output", _names(val), st)
                except NotRecognised as e:
                    put("output", e, st)
                continue
        frame.append(_indent(L.unparse(st)))
    return out


def _guard(test):
    """flen == n / flen >= n / or-combinations → [(is_ge, n)]"""
    if isinstance(test, ast.BoolOp) and isinstance(test.op, ast.Or):
        out = []
        for v in test.values:
            out += _guard(v)
        return out
    if isinstance(test, ast.Compare) and len(test.ops) == 1 and L.dotted(test.left) == "flen":
        n = L.const(test.comparators[0])
        if isinstance(test.ops[0], ast.Eq):
            return [(False, n)]
        if isinstance(test.ops[0], ast.GtE):
            return [(True, n)]
        if isinstance(test.ops[0], ast.Gt):
            return [(True, n + 1)]
    raise NotRecognised("diskstats guard not recognised: %s" % L.unparse(test))


def _fields_index(node):
    """fields[k] → k"""
    if isinstance(node, ast.Subscript) and L.dotted(node.value) == "fields" and not isinstance(node.slice, ast.Slice):
        return L.const(node.slice)
    raise NotRecognised("not fields[k]: %s" % L.unparse(node))


def _branch(body):
    name_idx = None
    singles, unpack, zeros = [], None, []
    lo, hi = 0, None
    for st in body:
        if not (isinstance(st, ast.Assign)):
            raise NotRecognised("diskstats branch statement: %s" % L.unparse(st)[:60])
        val = st.value
        if len(st.targets) > 1 or (isinstance(val, ast.Constant) and val.value == 0):
            if not (isinstance(val, ast.Constant) and val.value == 0):
                raise NotRecognised("chained assignment of a non-zero")
            for t in st.targets:
                zeros += [t.id] if isinstance(t, ast.Name) else _names(t)
            continue
        tgt = st.targets[0]
        if isinstance(tgt, ast.Name) and tgt.id == "name":
            name_idx = _fields_index(val)
        elif isinstance(tgt, ast.Name) and isinstance(val, ast.Call) and L.dotted(val.func) == "int" and len(val.args) == 1:
            singles.append((tgt.id, _fields_index(val.args[0])))
        elif isinstance(tgt, ast.Tuple) and _is_map_int(val):
            if unpack is not None:
                raise NotRecognised("two map(int, …) unpacks in one branch")
            sl = val.args[1]
            if not (isinstance(sl, ast.Subscript) and L.dotted(sl.value) == "fields" and isinstance(sl.slice, ast.Slice)
                    and sl.slice.step is None):
                raise NotRecognised("map(int, …) argument is not fields[a:b]")
            lo = 0 if sl.slice.lower is None else L.const(sl.slice.lower)
            hi = None if sl.slice.upper is None else L.const(sl.slice.upper)
            unpack = _names(tgt)
        else:
            raise NotRecognised("diskstats branch statement: %s" % L.unparse(st)[:60])
    if name_idx is None or unpack is None:
        raise NotRecognised("diskstats branch without name/unpack")
    return {"name": name_idx, "singles": singles, "lo": lo, "hi": hi, "unpack": unpack, "zeros": zeros}


SKIP_COND = "not perdisk and (not is_storage_device(name))"


def _disk_facts(tree):
    """one scan of `_pslinux.disk_io_counters` (outer body + read_procfs); facts independent of each other; every
    statement that is not turned into a model parameter goes to `frame`"""
    out = _Scan()
    frame = out["frame"] = []
    fn = L.find_def(tree, "disk_io_counters")
    rp = None
    outer = None
    for st in _nodoc(fn.body):
        if isinstance(st, ast.FunctionDef) and st.name == "read_procfs" and rp is None:
            rp = st
            frame.append("def read_procfs(): <read_procfs>")
        elif isinstance(st, ast.FunctionDef) and st.name == "read_sysfs":
            frame.append("def read_sysfs(): <facts sysfs*>")
        elif isinstance(st, ast.If) and L.unparse(st.test).startswith("os.path.exists("):
            frame.append("if os.path.exists(...): <fact diskSources> else: <fact diskNoSource>")
        elif isinstance(st, ast.For) and outer is None and L.dotted(st.iter) == "gen" and L.dotted(st.target) == "entry" \
                and not st.orelse:
            outer = st
            frame.append("for entry in gen: <aggregation loop>")
        else:
            frame.append(L.unparse(st))
    # ---- read_procfs
    if rp is not None:
        if rp.args.args or rp.args.vararg or rp.args.kwarg or rp.args.kwonlyargs or rp.decorator_list:
            frame.append("read_procfs: signature %s" % L.unparse(rp.args))
        loop = None
        for st in _nodoc(rp.body):
            if isinstance(st, ast.For) and loop is None and L.unparse(st.iter) == "lines" and L.unparse(st.target) == "line" \
                    and not st.orelse:
                loop = st
                frame.append("read_procfs: for line in lines: <loop>")
            else:
                frame.append("read_procfs: " + L.unparse(st))
        if loop is not None:
            chain = None
            seen_yield = False
            prologue = []
            for i, st in enumerate(loop.body):
                src = L.unparse(st)
                if i < 2 and src == ["fields = line.split()", "flen = len(fields)"][i]:
                    prologue.append(src)
                elif isinstance(st, ast.If) and chain is None and len(prologue) == 2:
                    chain = st
                elif isinstance(st, ast.Expr) and isinstance(st.value, ast.Yield) and chain is not None and not seen_yield:
                    seen_yield = True
                    try:
                        ynames = _names(st.value.value)
                        if ynames[:1] != ["name"]:
                            raise NotRecognised("yield tuple does not start with name")
                        out["yield"] = ynames[1:]
                    except NotRecognised as e:
                        out["yield"] = e
                        frame.append("read_procfs:     " + src)
                else:
                    frame.append("read_procfs:" + _indent(src).replace("\n", "\nread_procfs:"))
            if len(prologue) != 2:
                out["branches"] = NotRecognised("read_procfs prologue: %r" % prologue)
            elif chain is None:
                out["branches"] = NotRecognised("read_procfs: if/elif chain not found")
            else:
                try:
                    branches = []
                    node = chain
                    while True:
                        bb = _branch(node.body)
                        bb["guard"] = _guard(node.test)
                        branches.append(bb)
                        if len(node.orelse) == 1 and isinstance(node.orelse[0], ast.If):
                            node = node.orelse[0]
                            continue
                        # final else must end by raising ValueError
                        last = node.orelse[-1] if node.orelse else None
                        if not (isinstance(last, ast.Raise) and isinstance(last.exc, ast.Call)
                                and L.dotted(last.exc.func) == "ValueError"):
                            raise NotRecognised("read_procfs: final else does not raise ValueError")
                        for x in node.orelse[:-1]:
                            if not (isinstance(x, ast.Assign) and len(x.targets) == 1 and L.dotted(x.targets[0]) == "msg"):
                                frame.append("read_procfs: else: " + L.unparse(x))
                        break
                    out["branches"] = branches
                except NotRecognised as e:
                    out["branches"] = e
                    frame.append("read_procfs:" + _indent(L.unparse(chain)).replace("\n", "\nread_procfs:"))
    # ---- aggregation loop
    if outer is not None:
        scaled, conds = [], []
        for st in outer.body:
            src = L.unparse(st)
            if isinstance(st, ast.Assign) and len(st.targets) == 1 and isinstance(st.targets[0], ast.Tuple) \
                    and L.dotted(st.value) == "entry" and "entry" not in out:
                try:
                    en = _names(st.targets[0])
                    if en[:1] != ["name"]:
                        raise NotRecognised("entry unpack does not start with name")
                    out["entry"] = en[1:]
                except NotRecognised as e:
                    out["entry"] = e
                    frame.append("loop:" + _indent(src))
            elif isinstance(st, ast.If) and len(st.body) == 1 and isinstance(st.body[0], ast.Continue) and not st.orelse:
                conds.append(L.unparse(st.test))
            elif isinstance(st, ast.AugAssign) and isinstance(st.op, ast.Mult) and isinstance(st.target, ast.Name) \
                    and L.dotted(st.value) == "DISK_SECTOR_SIZE" and "ret" not in out:
                scaled.append(st.target.id)
            elif isinstance(st, ast.Assign) and len(st.targets) == 1 and isinstance(st.targets[0], ast.Subscript) \
                    and L.dotted(st.targets[0].value) == "retdict" and L.dotted(st.targets[0].slice) == "name" \
                    and "ret" not in out:
                try:
                    out["ret"] = _names(st.value)
                except NotRecognised as e:
                    out["ret"] = e
                    frame.append("loop:" + _indent(src))
            else:
                frame.append("loop:" + _indent(src).replace("\n", "\nloop:"))
        out["scaled"] = scaled
        # the partition filter: exactly one `if <SKIP_COND>: continue` (true) or none (false); every other
        # `if ...: continue` is not part of the model
        out["skips"] = SKIP_COND in conds
        for c in conds:
            if c != SKIP_COND:
                frame.append("loop:    if %s: continue" % c)
        if conds.count(SKIP_COND) > 1:
            frame.append("loop:    (partition filter repeated)")
    return out


def _storage_facts(tree):
    fn = L.find_def(tree, "is_storage_device")
    rep = None
    virt = None
    paths = {}
    ret_ok = False
    for n in ast.walk(fn):
        if isinstance(n, ast.Assign) and len(n.targets) == 1 and L.dotted(n.targets[0]) == "name":
            c = n.value
            if isinstance(c, ast.Call) and L.dotted(c.func) == "name.replace" and len(c.args) == 2:
                rep = (L.const(c.args[0]), L.const(c.args[1]))
        if isinstance(n, ast.Assign) and L.dotted(n.targets[0]) == "including_virtual":
            virt = L.const(n.value)
        if isinstance(n, ast.If) and L.dotted(n.test) == "including_virtual":
            for key, blk in ((True, n.body), (False, n.orelse)):
                st = blk[0]
                if isinstance(st, ast.Assign) and L.dotted(st.targets[0]) == "path" and isinstance(st.value, ast.JoinedStr):
                    parts = []
                    for v in st.value.values:
                        if isinstance(v, ast.Constant):
                            parts.append(v.value)
                        elif isinstance(v, ast.FormattedValue) and L.dotted(v.value) == "name":
                            parts.append("{}")
                        else:
                            raise NotRecognised("path f-string")
                    paths[key] = "".join(parts)
        if isinstance(n, ast.Return) and L.unparse(n.value) == "os.access(path, os.F_OK)":
            ret_ok = True
    if rep is None or virt is None or virt not in paths or not ret_ok:
        raise NotRecognised("is_storage_device shape not recognised")
    if len(rep[0]) != 1 or len(rep[1]) != 1:
        raise NotRecognised("replace() of multi-character strings")
    return {"replace": (ord(rep[0]), ord(rep[1])), "path": paths[virt]}


def _front_facts(tree, fname, per):
    """(what is returned for an empty rawdict when per / when total, total is a zip-sum, per is nt(*fields))"""
    fn = L.find_def(tree, fname)
    empty = None
    for n in ast.walk(fn):
        if isinstance(n, ast.Return) and isinstance(n.value, ast.IfExp):
            e = n.value
            if L.dotted(e.test) != per:
                raise NotRecognised("%s: empty return tests %s" % (fname, L.unparse(e.test)))
            empty = (L.unparse(e.body), L.unparse(e.orelse))
    if empty is None:
        raise NotRecognised("%s: `return {} if %s else None` not found" % (fname, per))
    return empty


def _front_frame(tree, fname):
    """the top-level statements of a front end that run when `nowrap` is false, as source text, in order
    (an `if nowrap:` statement contributes its else branch; what is done under nowrap=True is property C10's)"""
    fn = L.find_def(tree, fname)
    out = []
    for st in _nodoc(fn.body):
        if isinstance(st, ast.If) and L.unparse(st.test) == "nowrap":
            out += [L.unparse(x) for x in st.orelse]
        else:
            out.append(L.unparse(st))
    return out


def _front_wrap_frame(tree, fname):
    """the statements of a front end that run when `nowrap` is TRUE and that the nowrap=False frame does not show:
    the body of every top-level `if nowrap:` (source text, in order)"""
    fn = L.find_def(tree, fname)
    out = []
    seen = False
    for st in _nodoc(fn.body):
        if isinstance(st, ast.If) and L.unparse(st.test) == "nowrap":
            seen = True
            out += ["nowrap: " + L.unparse(x) for x in st.body]
        else:
            # the other statements (pinned in full by frontFrame) by their first line: fixes the ORDER of the two kinds
            out.append(L.unparse(st).split("\n")[0])
    if not seen:
        raise NotRecognised("%s: no `if nowrap:` statement" % fname)
    return out


def _wrap_name_pair(tree, fname, per):
    """the `name` handed to _wrap_numbers by the per-device form and by the system-wide form of a front end"""
    fn = L.find_def(tree, fname)
    calls = L.calls_in(fn, "_wrap_numbers")
    if len(calls) != 1 or len(calls[0].args) != 2 or calls[0].keywords:
        raise NotRecognised("%s: not exactly one call _wrap_numbers(<dict>, <name>)" % fname)
    arg = calls[0].args[1]
    if isinstance(arg, ast.Constant) and isinstance(arg.value, str):
        return arg.value, arg.value
    if isinstance(arg, ast.Name):
        assigns = [st for st in ast.walk(fn) if isinstance(st, ast.Assign) and len(st.targets) == 1
                   and L.dotted(st.targets[0]) == arg.id]
        if len(assigns) == 1 and isinstance(assigns[0].value, ast.IfExp) and L.dotted(assigns[0].value.test) == per:
            ie = assigns[0].value
            if all(isinstance(x, ast.Constant) and isinstance(x.value, str) for x in (ie.body, ie.orelse)):
                return ie.body.value, ie.orelse.value
    raise NotRecognised("%s: name argument of _wrap_numbers: %s" % (fname, L.unparse(arg)))


def _wrap_clear_names(tree, fname):
    """the names `<fname>.cache_clear()` clears: `functools.partial(_wrap_numbers.cache_clear, 'N')` or a module-level
    function whose body is `_wrap_numbers.cache_clear('N')` calls only"""
    for st in tree.body:
        if isinstance(st, ast.Assign) and len(st.targets) == 1 and L.dotted(st.targets[0]) == fname + ".cache_clear":
            c = st.value
            if isinstance(c, ast.Call) and L.dotted(c.func).endswith("partial") and len(c.args) == 2 and not c.keywords \
                    and L.dotted(c.args[0]) == "_wrap_numbers.cache_clear" and isinstance(c.args[1], ast.Constant) \
                    and isinstance(c.args[1].value, str):
                return [c.args[1].value]
            if isinstance(c, ast.Name):
                names = []
                for b in _nodoc(L.find_def(tree, c.id).body):
                    if isinstance(b, ast.Expr) and isinstance(b.value, ast.Call) and len(b.value.args) == 1 \
                            and not b.value.keywords and L.dotted(b.value.func) == "_wrap_numbers.cache_clear" \
                            and isinstance(b.value.args[0], ast.Constant) and isinstance(b.value.args[0].value, str):
                        names.append(b.value.args[0].value)
                    else:
                        raise NotRecognised("%s: statement %s" % (c.id, L.unparse(b)[:60]))
                return names
            raise NotRecognised("%s.cache_clear = %s" % (fname, L.unparse(c)[:60]))
    raise NotRecognised("%s.cache_clear is not assigned" % fname)


def _wrap_facts(common):
    """_common._WrapNumbers (the helper behind nowrap=True): the comparison that detects a counter going backwards, and
    every statement of _add_dict / _remove_dead_reminders / run / cache_clear and of wrap_numbers as source text"""
    out = {}
    run = L.find_def(common, "run", cls="_WrapNumbers")
    found = []
    for n in ast.walk(run):
        if isinstance(n, ast.If) and isinstance(n.test, ast.Compare) and len(n.test.ops) == 1 \
                and any(isinstance(b, ast.AugAssign) for b in n.body):
            l, r = L.dotted(n.test.left), L.dotted(n.test.comparators[0])
            op = type(n.test.ops[0]).__name__
            if (l, r) == ("input_value", "old_value") and op in ("Lt", "LtE"):
                found.append(op == "Lt")
            elif (l, r) == ("old_value", "input_value") and op in ("Gt", "GtE"):
                found.append(op == "Gt")
            else:
                raise NotRecognised("run: wrap test %s" % L.unparse(n.test))
    if len(found) != 1:
        raise NotRecognised("run: %d wrap tests" % len(found))
    out["strict"] = found[0]
    frame = []
    for m in ("__init__", "_add_dict", "_remove_dead_reminders", "run", "cache_clear"):
        fn = L.find_def(common, m, cls="_WrapNumbers")
        frame.append("def %s(%s):" % (m, L.unparse(fn.args)))
        frame += [_indent(L.unparse(s)) for s in _nodoc(fn.body)]
    fn = L.find_def(common, "wrap_numbers")
    frame.append("def wrap_numbers(%s):" % L.unparse(fn.args))
    frame += [_indent(L.unparse(s)) for s in _nodoc(fn.body)]
    for st in common.body:
        if isinstance(st, ast.Assign) and any(L.dotted(t) in ("_wn", "wrap_numbers.cache_clear") for t in st.targets):
            frame.append(L.unparse(st))
    out["frame"] = frame
    return out


def _front_default(tree, fname, per):
    """the default of the `perdisk` / `pernic` parameter, as written"""
    fn = L.find_def(tree, fname)
    a = fn.args
    if a.vararg or a.kwarg or a.kwonlyargs or a.posonlyargs:
        raise NotRecognised("%s: signature shape" % fname)
    names = [x.arg for x in a.args]
    if per not in names:
        raise NotRecognised("%s: no parameter %s" % (fname, per))
    i = names.index(per) - (len(names) - len(a.defaults))
    if i < 0:
        raise NotRecognised("%s: %s has no default" % (fname, per))
    return L.unparse(a.defaults[i])


def _front_total(tree, fname, per):
    """the system-wide branch `return CTOR(*(R(x) for x in S))` → (R, unparse(S))"""
    fn = L.find_def(tree, fname)
    found = []
    for n in ast.walk(fn):
        if isinstance(n, ast.If) and L.dotted(n.test) == per and n.orelse:
            rets = [s for s in n.orelse if isinstance(s, ast.Return)]
            if len(rets) != 1 or len(n.orelse) != 1:
                raise NotRecognised("%s: else branch of `if %s` is not a single return" % (fname, per))
            found.append(rets[0].value)
            body = [L.unparse(s) for s in n.body]
            if len(n.body) != 2 or not isinstance(n.body[0], ast.For) or body[1] != "return rawdict":
                raise NotRecognised("%s: per-device branch shape" % fname)
            loop = n.body[0]
            if L.unparse(loop.iter) != "rawdict.items()" or len(loop.body) != 1:
                raise NotRecognised("%s: per-device loop" % fname)
            st = loop.body[0]
            tgt = _names(loop.target)
            ok = (isinstance(st, ast.Assign) and L.unparse(st.targets[0]) == "rawdict[%s]" % tgt[0]
                  and isinstance(st.value, ast.Call) and len(st.value.args) == 1 and not st.value.keywords
                  and isinstance(st.value.args[0], ast.Starred) and L.dotted(st.value.args[0].value) == tgt[1])
            if not ok:
                raise NotRecognised("%s: per-device statement is not rawdict[k] = nt(*fields)" % fname)
    if len(found) != 1:
        raise NotRecognised("%s: `if %s: … else: return …` not found exactly once" % (fname, per))
    call = found[0]
    if not (isinstance(call, ast.Call) and len(call.args) == 1 and not call.keywords
            and isinstance(call.args[0], ast.Starred)):
        raise NotRecognised("%s: total is not CTOR(*…)" % fname)
    comp = call.args[0].value
    if not (isinstance(comp, (ast.GeneratorExp, ast.ListComp)) and len(comp.generators) == 1):
        raise NotRecognised("%s: total argument is not a single-generator comprehension" % fname)
    g = comp.generators[0]
    if g.ifs or g.is_async or not isinstance(g.target, ast.Name):
        raise NotRecognised("%s: comprehension has a filter / tuple target" % fname)
    e = comp.elt
    if not (isinstance(e, ast.Call) and isinstance(e.func, ast.Name) and len(e.args) == 1 and not e.keywords
            and L.dotted(e.args[0]) == g.target.id):
        raise NotRecognised("%s: comprehension element is not R(x)" % fname)
    return (e.func.id, L.unparse(g.iter))


def _sysfs_facts(tree):
    """read_sysfs + the choice of the generator in _pslinux.disk_io_counters"""
    fn = L.find_def(tree, "disk_io_counters")
    inner = [n for n in fn.body if isinstance(n, ast.FunctionDef) and n.name == "read_sysfs"]
    if not inner:
        raise NotRecognised("read_sysfs not found")
    rs = inner[0]
    if len(rs.body) != 1 or not isinstance(rs.body[0], ast.For):
        raise NotRecognised("read_sysfs: body is not one for loop")
    outer = rs.body[0]
    it = outer.iter
    if not (isinstance(it, ast.Call) and L.dotted(it.func) == "os.listdir" and len(it.args) == 1 and not it.keywords
            and isinstance(L.const(it.args[0]), str) and isinstance(outer.target, ast.Name)):
        raise NotRecognised("read_sysfs: outer loop is not `for block in os.listdir('<dir>')`")
    root = L.const(it.args[0])
    if len(outer.body) != 1 or not isinstance(outer.body[0], ast.For):
        raise NotRecognised("read_sysfs: inner loop")
    walk = outer.body[0]
    if L.unparse(walk.iter) != "os.walk(os.path.join(%r, %s))" % (root, outer.target.id):
        raise NotRecognised("read_sysfs: inner loop iterates over %s" % L.unparse(walk.iter))
    tgt = walk.target
    if not (isinstance(tgt, ast.Tuple) and len(tgt.elts) == 3 and all(isinstance(e, ast.Name) for e in tgt.elts)):
        raise NotRecognised("read_sysfs: walk target")
    rootv, _, filesv = [e.id for e in tgt.elts]
    body = walk.body
    if len(body) != 5:
        raise NotRecognised("read_sysfs: %d statements in the walk loop" % len(body))
    t = body[0]
    if not (isinstance(t, ast.If) and isinstance(t.test, ast.Compare) and len(t.test.ops) == 1
            and isinstance(t.test.ops[0], ast.NotIn) and isinstance(L.const(t.test.left), str)
            and L.dotted(t.test.comparators[0]) == filesv and len(t.body) == 1 and isinstance(t.body[0], ast.Continue)
            and not t.orelse):
        raise NotRecognised("read_sysfs: `if '<file>' not in files: continue` not found")
    stat = L.const(t.test.left)
    w = body[1]
    if not (isinstance(w, ast.With) and len(w.items) == 1
            and L.unparse(w.items[0].context_expr) == "open_text(os.path.join(%s, %r))" % (rootv, stat)
            and isinstance(w.items[0].optional_vars, ast.Name) and len(w.body) == 1
            and L.unparse(w.body[0]) == "fields = %s.read().strip().split()" % w.items[0].optional_vars.id):
        raise NotRecognised("read_sysfs: open/read statement")
    nm = body[2]
    name_replace = "?"
    if isinstance(nm, ast.Assign) and len(nm.targets) == 1 and L.dotted(nm.targets[0]) == "name":
        v = nm.value
        if L.unparse(v) == "os.path.basename(%s)" % rootv:
            name_replace = None
        elif (isinstance(v, ast.Call) and isinstance(v.func, ast.Attribute) and v.func.attr == "replace"
              and L.unparse(v.func.value) == "os.path.basename(%s)" % rootv and len(v.args) == 2 and not v.keywords
              and all(isinstance(L.const(a_), str) and len(L.const(a_)) == 1 and ord(L.const(a_)) < 128 for a_ in v.args)):
            name_replace = (ord(L.const(v.args[0])), ord(L.const(v.args[1])))
    if name_replace == "?":
        raise NotRecognised("read_sysfs: %s" % L.unparse(nm))
    a = body[3]
    if not (isinstance(a, ast.Assign) and len(a.targets) == 1 and isinstance(a.targets[0], ast.Tuple) and _is_map_int(a.value)):
        raise NotRecognised("read_sysfs: unpack statement")
    sl = a.value.args[1]
    if not (isinstance(sl, ast.Subscript) and L.dotted(sl.value) == "fields" and isinstance(sl.slice, ast.Slice)
            and sl.slice.lower is None and sl.slice.step is None and sl.slice.upper is not None):
        raise NotRecognised("read_sysfs: map(int, …) argument is not fields[:k]")
    take = L.const(sl.slice.upper)
    unpack = _names(a.targets[0])
    y = body[4]
    if not (isinstance(y, ast.Expr) and isinstance(y.value, ast.Yield)):
        raise NotRecognised("read_sysfs: yield")
    ynames = _names(y.value.value)
    if ynames[0] != "name":
        raise NotRecognised("read_sysfs: yield tuple does not start with name")
    return {"root": root, "stat": stat, "take": take, "unpack": unpack, "yield": ynames[1:],
            "name_replace": name_replace,
            "shape": [root, L.unparse(walk.iter), L.unparse(t.test), L.unparse(w.items[0].context_expr),
                      L.unparse(w.body[0])]}


def _disk_sources(tree):
    """the choice of the generator in _pslinux.disk_io_counters (independent of the shape of read_sysfs)"""
    fn = L.find_def(tree, "disk_io_counters")
    # the choice of the generator
    chain = [n for n in fn.body if isinstance(n, ast.If) and L.unparse(n.test).startswith("os.path.exists(")]
    if len(chain) != 1:
        raise NotRecognised("disk_io_counters: source selection chain not found")
    node = chain[0]
    sources = []
    while True:
        c = node.test
        if not (isinstance(c, ast.Call) and L.dotted(c.func) == "os.path.exists" and len(c.args) == 1):
            raise NotRecognised("source selection test: %s" % L.unparse(c))
        arg = c.args[0]
        if isinstance(arg, ast.JoinedStr):
            path = "".join(v.value if isinstance(v, ast.Constant) else "{%s}" % L.unparse(v.value) for v in arg.values)
        else:
            path = L.const(arg)
        if len(node.body) != 1 or not L.unparse(node.body[0]).startswith("gen = "):
            raise NotRecognised("source selection body")
        call = node.body[0].value
        if not (isinstance(call, ast.Call) and isinstance(call.func, ast.Name) and not call.args):
            raise NotRecognised("source selection body")
        sources.append((call.func.id, path))
        if len(node.orelse) == 1 and isinstance(node.orelse[0], ast.If):
            node = node.orelse[0]
            continue
        raises = [s_ for s_ in node.orelse if isinstance(s_, ast.Raise)]
        if not raises or not isinstance(raises[-1].exc, ast.Call):
            raise NotRecognised("source selection: final else does not raise")
        nosrc = L.dotted(raises[-1].exc.func)
        break
    return {"sources": sources, "nosrc": nosrc}


def _usage_facts(tree):
    fn = L.find_def(tree, "disk_usage")
    assigns = []
    pct = None
    out = None
    stvar = None

    def operand(n):
        if isinstance(n, ast.Name):
            return n.id
        if isinstance(n, ast.Attribute) and isinstance(n.value, ast.Name) and n.value.id == stvar:
            return "st." + n.attr
        raise NotRecognised("operand %s" % L.unparse(n))
    for st in fn.body:
        if isinstance(st, ast.Expr) and isinstance(st.value, ast.Constant):
            continue   # docstring
        if isinstance(st, ast.If) and L.dotted(st.test) == "MACOS":
            continue   # not Linux
        if isinstance(st, ast.Assign) and len(st.targets) == 1 and isinstance(st.targets[0], ast.Name):
            var, val = st.targets[0].id, st.value
            if isinstance(val, ast.Call) and L.dotted(val.func) == "os.statvfs":
                stvar = var
                continue
            if isinstance(val, ast.BinOp) and isinstance(val.op, (ast.Mult, ast.Sub, ast.Add)):
                op = {ast.Mult: "*", ast.Sub: "-", ast.Add: "+"}[type(val.op)]
                assigns.append((var, op, operand(val.left), operand(val.right)))
                continue
            if isinstance(val, ast.Call) and L.dotted(val.func) == "usage_percent":
                kw = {k.arg: k.value for k in val.keywords}
                args = list(val.args)
                if len(args) != 2 or set(kw) - {"round_"}:
                    raise NotRecognised("usage_percent call shape")
                pct = (var, operand(args[0]), operand(args[1]), L.const(kw["round_"]) if "round_" in kw else None)
                continue
        if isinstance(st, ast.Return) and isinstance(st.value, ast.Call) and L.dotted(st.value.func) == "sdiskusage":
            kw = {k.arg: operand(k.value) for k in st.value.keywords}
            if st.value.args or set(kw) != {"total", "used", "free", "percent"}:
                raise NotRecognised("sdiskusage(...) call shape")
            out = kw
            continue
        raise NotRecognised("disk_usage statement: %s" % L.unparse(st)[:70])
    if stvar is None or pct is None or out is None or pct[3] is None:
        raise NotRecognised("disk_usage: statvfs/usage_percent/return not all found")
    if out["percent"] != pct[0]:
        raise NotRecognised("percent= is not the usage_percent result")
    return {"assigns": assigns, "pct": pct, "out": out}


def _open_text_newline(tree):
    """does open_text() read with universal newlines (no newline= / newline=None) or with newline='\\n'?"""
    fn = L.find_def(tree, "open_text")
    calls = [c for c in L.calls_in(fn, "open") if L.dotted(c.func) == "open"]
    if len(calls) != 1:
        raise NotRecognised("open_text: expected exactly one open() call")
    kw = {k.arg: k.value for k in calls[0].keywords}
    if "newline" not in kw or L.const(kw["newline"]) is None:
        return True
    if L.const(kw["newline"]) == "\n":
        return False
    raise NotRecognised("open_text: newline=%r" % (L.const(kw["newline"]),))


def _usage_percent_shape(tree):
    fn = L.find_def(tree, "usage_percent")
    body = [s for s in fn.body if not (isinstance(s, ast.Expr) and isinstance(s.value, ast.Constant))]
    src = "\n".join(L.unparse(s) for s in body)
    want = ("try:\n    ret = float(used) / total * 100\nexcept ZeroDivisionError:\n    return 0.0\n"
            "else:\n    if round_ is not None:\n        ret = round(ret, round_)\n    return ret")
    return src == want     # total: a changed body is the value `false`, which the obligation cfg_usage_percent_shape rejects


def facts(snap, F):
    lin = L.parse_module(snap, "_pslinux.py")
    init = L.parse_module(snap, "__init__.py")
    posix = L.parse_module(snap, "_psposix.py")
    common = L.parse_module(snap, "_common.py")
    memo = {}

    def get(key, fn):
        if key not in memo:
            try:
                memo[key] = fn()
            except Exception as e:  # noqa: BLE001 - re-raised for every dependent fact
                memo[key] = e
        if isinstance(memo[key], Exception):
            raise memo[key]
        return memo[key]

    net = lambda: get("net", lambda: _net_facts(lin))
    disk = lambda: get("disk", lambda: _disk_facts(lin))
    stor = lambda: get("stor", lambda: _storage_facts(lin))
    usage = lambda: get("usage", lambda: _usage_facts(posix))
    sysfs = lambda: get("sysfs", lambda: _sysfs_facts(lin))
    dsrc = lambda: get("dsrc", lambda: _disk_sources(lin))

    def runtime():
        return get("rt", lambda: _runtime(snap))

    F.try_add("netSkipLines", "Nat", lambda: L.lean_nat(net().need("skip")), "header lines skipped: `lines[k:]`")
    F.try_add("netUsesRfind", "Bool", lambda: L.lean_bool(net().need("rfind")),
              "the interface name ends at the LAST ':' (`rfind`), not the first")
    F.try_add("netUnpack", "List String", lambda: _strs(net().need("unpack")),
              "names on the left of `= map(int, fields)` in net_io_counters, in order")
    F.try_add("netOutput", "List String", lambda: _strs(net().need("output")),
              "names in the tuple stored in retdict[name], in order")
    F.try_add("netNameStrip", "Option (List Nat)", lambda: L.lean_opt(net().need("strip", "name = line[:colon].strip(...)")[1], lambda cs: L.lean_list(cs, L.lean_nat)),
              "`name = line[:colon].strip(<chars>)`: none = every whitespace character of str.strip(), some cs = only these")
    F.try_add("netMinColon", "Nat", lambda: L.lean_nat(net().need("min_colon")),
              "`assert colon > k` (k + 1) / `assert colon >= k` (k): the smallest index of the colon that is accepted")
    F.try_add("netFieldsOffset", "Nat", lambda: L.lean_nat(net().need("offset")),
              "`fields = line[colon + k:].strip().split()`: the counters start k characters after the colon's index")
    F.try_add("frontPerDefault", "List String",
              lambda: _strs([_front_default(init, "disk_io_counters", "perdisk"), _front_default(init, "net_io_counters", "pernic")]),
              "defaults of `perdisk` (psutil.disk_io_counters) and `pernic` (psutil.net_io_counters) as written: a call "
              "without the argument asks for the system-wide form")
    F.try_add("textUniversalNewlines", "Bool", lambda: L.lean_bool(_open_text_newline(common)),
              "_common.open_text reads with universal newlines (true: '\\r', '\\r\\n' become '\\n') or with newline='\\n' (false)")
    F.try_add("snetioFields", "List String", lambda: _strs(runtime()["snetio"]), "_common.snetio._fields")
    F.try_add("sdiskioFields", "List String", lambda: _strs(runtime()["sdiskio"]),
              "_pslinux.sdiskio._fields (the namedtuple the Linux front end uses)")
    F.try_add("sdiskusageFields", "List String", lambda: _strs(runtime()["sdiskusage"]), "_common.sdiskusage._fields")
    F.try_add("diskSectorSize", "Nat", lambda: L.lean_nat(runtime()["sector"]), "_pslinux.DISK_SECTOR_SIZE")

    def branches():
        out = []
        for b in disk().need("branches"):
            g = L.lean_list(b["guard"], lambda c: L.lean_pair(L.lean_bool(c[0]), L.lean_nat(c[1])))
            s = L.lean_list(b["singles"], lambda c: L.lean_pair(L.lean_str(c[0]), L.lean_nat(c[1])))
            out.append("(%s, %s, %s, %s, %s, %s, %s)" % (
                g, L.lean_nat(b["name"]), s, L.lean_nat(b["lo"]), L.lean_opt(b["hi"], L.lean_nat),
                _strs(b["unpack"]), _strs(b["zeros"])))
        return "[" + ", ".join(out) + "]"
    F.try_add("diskBranches",
              "List (List (Bool × Nat) × Nat × List (String × Nat) × Nat × Option Nat × List String × List String)",
              branches,
              "read_procfs if/elif chain: (guard as disjunction of (isGe, n) on flen, index of name, "
              "`x = int(fields[i])` reads, slice lo, slice hi, unpack names, names set to 0); else → ValueError")
    F.try_add("diskYield", "List String", lambda: _strs(disk().need("yield")), "the yielded tuple after `name`")
    F.try_add("diskEntry", "List String", lambda: _strs(disk().need("entry")), "`(name, …) = entry` after `name`")
    F.try_add("diskRet", "List String", lambda: _strs(disk().need("ret")), "the tuple stored in retdict[name]")
    F.try_add("diskScaled", "List String", lambda: _strs(disk().need("scaled")), "names multiplied by DISK_SECTOR_SIZE")
    F.try_add("diskSkipsPartitionsForTotal", "Bool", lambda: L.lean_bool(disk().need("skips")),
              "the aggregation loop skips an entry iff `not perdisk and not is_storage_device(name)`")
    F.try_add("storageReplace", "Nat × Nat", lambda: L.lean_pair(*map(L.lean_nat, stor()["replace"])),
              "is_storage_device: name.replace(chr(a), chr(b))")
    F.try_add("storagePath", "String", lambda: L.lean_str(stor()["path"]),
              "is_storage_device: os.access(<this>.format(name), os.F_OK)")

    def empties():
        d = _front_facts(init, "disk_io_counters", "perdisk")
        n = _front_facts(init, "net_io_counters", "pernic")
        return L.lean_list([d[0], d[1], n[0], n[1]], L.lean_str)
    F.try_add("frontEmpty", "List String", empties,
              "what the front ends return for an empty raw dict: [disk perdisk, disk total, net pernic, net total]")

    def totals():
        d = _front_total(init, "disk_io_counters", "perdisk")
        n = _front_total(init, "net_io_counters", "pernic")
        return L.lean_list([d, n], lambda rs: L.lean_pair(L.lean_str(rs[0]), L.lean_str(rs[1])))
    F.try_add("frontTotal", "List (String × String)", totals,
              "system-wide branch of the front ends [disk, net]: `return CTOR(*(R(x) for x in S))` as (R, S); the "
              "per-device branch is `for k, fields in rawdict.items(): rawdict[k] = CTOR(*fields)`")
    F.try_add("sysfsShape", "List String", lambda: _strs(sysfs()["shape"]),
              "read_sysfs: directory listed, walk expression, membership test, open expression, read statement")
    F.try_add("sysfsNameReplace", "Option (Nat × Nat)",
              lambda: L.lean_opt(sysfs()["name_replace"], lambda ab: L.lean_pair(L.lean_nat(ab[0]), L.lean_nat(ab[1]))),
              "read_sysfs: `name = os.path.basename(root)` (none) or `name = os.path.basename(root).replace(chr a, chr b)` (some (a, b))")
    F.try_add("sysfsStatName", "List Nat", lambda: L.lean_bytes(os.fsencode(sysfs()["stat"])),
              "read_sysfs: the file read in every walked directory (file-system encoding of the literal)")
    F.try_add("sysfsTake", "Nat", lambda: L.lean_nat(sysfs()["take"]), "read_sysfs: `map(int, fields[:k])`")
    F.try_add("sysfsUnpack", "List String", lambda: _strs(sysfs()["unpack"]), "read_sysfs: names on the left of the unpack")
    F.try_add("sysfsYield", "List String", lambda: _strs(sysfs()["yield"]), "read_sysfs: the yielded tuple after `name`")
    F.try_add("diskSources", "List (String × String)",
              lambda: L.lean_list(dsrc()["sources"], lambda c: L.lean_pair(L.lean_str(c[0]), L.lean_str(c[1]))),
              "_pslinux.disk_io_counters: `if os.path.exists(P1): gen = G1() elif os.path.exists(P2): gen = G2() else: raise` as [(G, P)]")
    F.try_add("diskNoSource", "String", lambda: L.lean_str(dsrc()["nosrc"]),
              "_pslinux.disk_io_counters: the exception raised when no source exists")
    F.try_add("usageAssigns", "List (String × String × String × String)",
              lambda: L.lean_list(usage()["assigns"], lambda a: "(%s)" % ", ".join(L.lean_str(x) for x in a)),
              "disk_usage: `var = lhs op rhs` assignments in order (st.<attr> = field of os.statvfs(path))")
    F.try_add("usagePct", "String × String × Nat",
              lambda: "(%s, %s, %s)" % (L.lean_str(usage()["pct"][1]), L.lean_str(usage()["pct"][2]),
                                          L.lean_nat(usage()["pct"][3])),
              "disk_usage: usage_percent(<used>, <total>, round_=<n>)")
    F.try_add("usageOut", "String × String × String",
              lambda: "(%s, %s, %s)" % tuple(L.lean_str(usage()["out"][k]) for k in ("total", "used", "free")),
              "disk_usage: variables passed as sdiskusage(total=, used=, free=)")
    F.try_add("netFrame", "List String", lambda: _strs(net()["frame"]),
              "_pslinux.net_io_counters: every statement that is NOT turned into a model parameter by the facts net*, as source "
              "text in order (statements of the loop body indented); anything added to the function shows up here")
    F.try_add("diskFrame", "List String", lambda: _strs(disk()["frame"]),
              "_pslinux.disk_io_counters incl. read_procfs and the aggregation loop: every statement that is NOT turned into a "
              "model parameter by the facts disk*/sysfs*, as source text in order")
    F.try_add("frontFrame", "List (List String)",
              lambda: L.lean_list([_strs(_front_frame(init, "disk_io_counters")), _strs(_front_frame(init, "net_io_counters"))]),
              "psutil.disk_io_counters / psutil.net_io_counters: the top-level statements that run when nowrap is false, as "
              "source text in order")
    F.try_add("usagePercentIsRatioTimes100", "Bool", lambda: L.lean_bool(_usage_percent_shape(common)),
              "_common.usage_percent is (float(used)/total)*100, 0.0 on ZeroDivisionError, round(ret, round_)")
    # ---- seeded round 5: the default call form (nowrap=True) over a history of calls
    wrap = lambda: get("wrap", lambda: _wrap_facts(common))
    F.try_add("wrapStrictLess", "Bool", lambda: L.lean_bool(wrap()["strict"]),
              "_WrapNumbers.run: a counter counts as gone backwards iff `input_value < old_value` (strict)")

    def wrap_names():
        d = _wrap_name_pair(init, "disk_io_counters", "perdisk")
        n = _wrap_name_pair(init, "net_io_counters", "pernic")
        return _strs([d[0], d[1], n[0], n[1]])
    F.try_add("wrapNames", "List String", wrap_names,
              "the `name` each call form hands to _wrap_numbers: [disk perdisk, disk system-wide, net pernic, net system-wide]")
    F.try_add("wrapClearNames", "List (List String)",
              lambda: L.lean_list([_strs(_wrap_clear_names(init, "disk_io_counters")), _strs(_wrap_clear_names(init, "net_io_counters"))]),
              "the names psutil.disk_io_counters.cache_clear() / psutil.net_io_counters.cache_clear() clear")
    F.try_add("wrapFrame", "List String", lambda: _strs(wrap()["frame"]),
              "_common._WrapNumbers.__init__/_add_dict/_remove_dead_reminders/run/cache_clear, wrap_numbers and the module-level "
              "instance: every statement as source text, in order (what Model/C09Wrap.lean transcribes)")
    F.try_add("frontWrapFrame", "List (List String)",
              lambda: L.lean_list([_strs(_front_wrap_frame(init, "disk_io_counters")), _strs(_front_wrap_frame(init, "net_io_counters"))]),
              "psutil.disk_io_counters / psutil.net_io_counters: the statements under `if nowrap:` (the raw sample and "
              "_wrap_numbers under one lock, the empty dict fed as well; `rawdict = wrapdict` after the empty test), as source text")


def _runtime(snap):
    """Values dumped from the freshly imported snapshot (in a subprocess: no import side effects here)."""
    import json
    import subprocess
    code = ("import sys, json; sys.path.insert(0, %r); import psutil; from psutil import _pslinux as L, _common as C;"
            "print(json.dumps({'snetio': list(C.snetio._fields), 'sdiskio': list(getattr(L, 'sdiskio', C.sdiskio)._fields),"
            "'sdiskusage': list(C.sdiskusage._fields), 'sector': L.DISK_SECTOR_SIZE}))" % snap.dir)
    r = subprocess.run(["/venv/bin/python", "-c", code], stdout=subprocess.PIPE, stderr=subprocess.PIPE, text=True,
                       timeout=120)
    if r.returncode != 0:
        raise NotRecognised("runtime dump failed: %s" % r.stderr[-300:])
    d = json.loads(r.stdout.strip().split("\n")[-1])
    if not isinstance(d["sector"], int) or d["sector"] < 0:
        raise NotRecognised("DISK_SECTOR_SIZE = %r" % (d["sector"],))
    return d


# ------------------------------------------------------------------------------ implementation side

H1 = b"Inter-|   Receive                                                |  Transmit"
H2 = (b" face |bytes    packets errs drop fifo frame compressed multicast|bytes    packets errs drop fifo colls "
      b"carrier compressed")
ST_FIELDS = ["f_bsize", "f_frsize", "f_blocks", "f_bfree", "f_bavail", "f_files", "f_ffree", "f_favail",
             "f_flag", "f_namemax"]


class Impl:
    """Drives the real psutil functions over a fake procfs, a redirected /sys/block and a scripted statvfs."""

    def __init__(self, ctx):
        self.ps = ctx.psutil
        self.lin = self.ps._pslinux
        self.fp = FakeProc(self.ps, prefix="psv-c09-proc-")
        # every redirected /sys lives under one parent; `cur_sysroot` is the one the next call sees
        self.sysparent = tempfile.mkdtemp(prefix="psv-c09-sys-")
        self.sysroot = os.path.join(self.sysparent, "default")
        self.sysblock = os.path.join(self.sysroot, "sys", "block")
        os.makedirs(self.sysblock)
        self.cur_sysroot = self.sysroot
        self.nroots = 0
        self.real_access = os.access
        self.real_statvfs = os.statvfs
        self.real_exists = os.path.exists
        self.real_listdir = os.listdir
        self.real_walk = os.walk
        self.next_st = None
        self.next_errno = None
        self.cur_order = None          # seed of the listing order the next call sees (None = the file system's own)
        self.order_log = 0
        self.access_log = 0
        self.sysfs_log = 0
        real_access, real_exists, real_listdir, real_walk = os.access, os.path.exists, os.listdir, os.walk

        def is_sys(path):
            return isinstance(path, str) and (path == "/sys/block" or path.startswith("/sys/block/"))

        def access(path, mode, **kw):
            # only the hard-coded /sys/block/... probes of is_storage_device are redirected
            if isinstance(path, str) and path.startswith("/sys/block/"):
                self.access_log += 1
                return real_access(self.cur_sysroot + path, mode, **kw)
            return real_access(path, mode, **kw)

        # read_sysfs: os.path.exists('/sys/block'), os.listdir('/sys/block'), os.walk('/sys/block/<dev>') are
        # redirected into the same tree (the roots os.walk yields are then real paths: open_text() is not touched)
        def exists(path):
            if is_sys(path):
                self.sysfs_log += 1
                return real_exists(self.cur_sysroot + path)
            return real_exists(path)

        def listdir(path="."):
            if is_sys(path):
                self.sysfs_log += 1
                r = real_listdir(self.cur_sysroot + path)
                if self.cur_order is not None:
                    self.order_log += 1
                    r.sort(key=lambda n: order_key(self.cur_order, n))
                return r
            return real_listdir(path)

        def ordered_walk(it, seed):
            # os.walk(topdown=True) lets the caller re-order `dirs` in place: exactly what another
            # listing order of the same directory would produce
            for root, dirs, files in it:
                dirs.sort(key=lambda n: order_key(seed, n))
                files.sort(key=lambda n: order_key(seed, n))
                yield root, dirs, files

        def walk(top, *a, **kw):
            if is_sys(top):
                self.sysfs_log += 1
                it = real_walk(self.cur_sysroot + top, *a, **kw)
                if self.cur_order is not None and kw.get("topdown", True) and not a:
                    return ordered_walk(it, self.cur_order)
                return it
            return real_walk(top, *a, **kw)
        os.path.exists = exists
        os.listdir = listdir
        os.walk = walk

        def statvfs(path):
            if self.next_errno is not None and path == "/psv-c09-mount":
                raise OSError(self.next_errno, os.strerror(self.next_errno), path)
            if self.next_st is not None and path == "/psv-c09-mount":
                return os.statvfs_result(tuple(self.next_st))
            return self.real_statvfs(path)
        os.access = access
        os.statvfs = statvfs

    def close(self):
        os.access = self.real_access
        os.statvfs = self.real_statvfs
        os.path.exists = self.real_exists
        os.listdir = self.real_listdir
        os.walk = self.real_walk
        self.fp.close()
        shutil.rmtree(self.sysparent, ignore_errors=True)

    def set_sysblock(self, entries):
        shutil.rmtree(self.sysblock, ignore_errors=True)
        os.makedirs(self.sysblock)
        for e in entries:
            os.mkdir(os.path.join(os.fsencode(self.sysblock), bytes(e)))

    # ---- whole /sys/block trees (read_sysfs)
    def _build(self, base, node):
        p = os.path.join(base, bytes.fromhex(node["name"]))
        os.mkdir(p)
        for fn, content in node["files"]:
            with open(os.path.join(p, bytes.fromhex(fn)), "wb") as f:
                f.write(bytes.fromhex(content))
        for sub in node["subs"]:
            self._build(p, sub)

    def _readback(self, p, order=None):
        """the directory as os.scandir lists it (= the order os.listdir / os.walk will see), or in the listing
        order `order` the redirected os.listdir / os.walk will present"""
        files, subs = [], []
        with os.scandir(p) as it:
            entries = list(it)
        if order is not None:
            entries.sort(key=lambda e: order_key(order, e.name))
        for e in entries:
            if e.is_dir(follow_symlinks=False):
                subs.append(self._readback(e.path, order))
            else:
                with open(e.path, "rb") as f:
                    files.append([e.name.hex(), f.read().hex()])
        return {"name": os.path.basename(p).hex(), "files": files, "subs": subs}

    def kernel_layout(self, root):
        """re-arrange <root>/sys/block the way the kernel presents it: every entry of /sys/block is a SYMLINK to the
        device directory under /sys/devices/...; every device directory holds symlinks to directories (`subsystem`,
        `bdi`) that os.walk lists but does not enter (followlinks=False) - here they lead to decoy directories with
        well-formed `stat` files: entering them would report phantom devices"""
        sysd = os.fsencode(os.path.join(root, "sys"))
        blk = os.path.join(sysd, b"block")
        devs = os.path.join(sysd, b"devices", b"virtual", b"block")
        decoy = os.path.join(sysd, b"class", b"block")
        os.makedirs(devs)
        os.makedirs(os.path.join(decoy, b"phantom0"))
        with open(os.path.join(decoy, b"phantom0", b"stat"), "wb") as f:
            f.write(b"      77       77       77       77       77       77       77       77       77       77       77\n")
        with open(os.path.join(decoy, b"stat"), "wb") as f:
            f.write(b"      66       66       66       66       66       66       66       66       66       66       66\n")
        n = 0
        for name in os.listdir(blk):
            os.rename(os.path.join(blk, name), os.path.join(devs, name))
            os.symlink(os.path.join(b"..", b"devices", b"virtual", b"block", name), os.path.join(blk, name))
            for d, subdirs, _ in os.walk(os.path.join(devs, name)):
                if os.path.basename(d) in (b"queue", b"holders", b"slaves", b"power", b"mq", b"integrity", b"trace"):
                    continue
                for ln in (b"subsystem", b"bdi"):
                    if ln not in subdirs and not os.path.lexists(os.path.join(d, ln)):
                        os.symlink(decoy, os.path.join(d, ln))
                        n += 1
        return n

    def materialise(self, tree, order=None):
        """tree (list of nodes, or None = /sys/block does not exist) → (root holding sys/block, the tree in listing order)"""
        self.nroots += 1
        root = os.path.join(self.sysparent, "w%d" % self.nroots)
        os.makedirs(os.path.join(root, "sys"))
        if tree is None:
            return root, None
        blk = os.fsencode(os.path.join(root, "sys", "block"))
        os.mkdir(blk)
        for node in tree:
            self._build(blk, node)
        return root, self._readback(blk, order)["subs"]

    def disk_world(self, diskstats, tree, perdisk, nowrap=False, sysdir=None, order=None, kernel=False, default=False):
        """psutil.disk_io_counters in a world with/without {procfs}/diskstats and with/without /sys/block"""
        if diskstats is None:
            self.fp.remove("diskstats")
        else:
            self.fp.write("diskstats", diskstats)
        if sysdir is None or not os.path.isdir(sysdir):
            sysdir, _ = self.materialise(tree)
        if kernel and tree is not None:
            self.kernel_links = self.kernel_layout(sysdir)
        self.cur_sysroot = sysdir
        self.cur_order = order
        try:
            if nowrap:
                self.ps.disk_io_counters.cache_clear()
            kw = {"nowrap": nowrap} if default and not perdisk else {"perdisk": perdisk, "nowrap": nowrap}
            return self._call(self.ps.disk_io_counters, **kw)
        finally:
            self.cur_sysroot = self.sysroot
            self.cur_order = None
            shutil.rmtree(sysdir, ignore_errors=True)

    def ints(self, toks):
        out = []
        for t in toks:
            try:
                out.append(int(os.fsdecode(bytes(t))))
            except ValueError:
                out.append("ValueError")
        return out

    def _canon(self, r):
        if r is None:
            return {"kind": "none"}
        if isinstance(r, dict):
            if not r:
                return {"kind": "empty"}
            devs = []
            for k, v in r.items():
                devs.append([os.fsencode(k).hex(), [[f, int(x)] for f, x in zip(v._fields, v)]])
            # NOT sorted: the order of the items (= insertion order = order of the lines in the file) is compared
            return {"kind": "perdev", "devs": devs}
        return {"kind": "total", "fields": [[f, int(x)] for f, x in zip(r._fields, r)]}

    def _call(self, fn, **kw):
        try:
            return self._canon(fn(**kw))
        except Exception as e:  # noqa: BLE001 - every exception is an observable
            return {"kind": "exc", "exc": type(e).__name__}

    def net(self, file, pernic, nowrap=False, default=False):
        self.fp.write("net/dev", file)
        if nowrap:
            self.ps.net_io_counters.cache_clear()
        # `default`: the system-wide form is asked for by NOT passing pernic
        kw = {"nowrap": nowrap} if default and not pernic else {"pernic": pernic, "nowrap": nowrap}
        return self._call(self.ps.net_io_counters, **kw)

    def disk(self, file, sysblock, perdisk, nowrap=False, default=False):
        self.fp.write("diskstats", file)
        self.set_sysblock(sysblock)
        if nowrap:
            self.ps.disk_io_counters.cache_clear()
        kw = {"nowrap": nowrap} if default and not perdisk else {"perdisk": perdisk, "nowrap": nowrap}
        return self._call(self.ps.disk_io_counters, **kw)

    def hist(self, steps, files):
        """a history of calls in ONE process: both nowrap caches are emptied first (a fresh process), then every step
        writes the kernel files of its moment and makes the call; `_omit` = nowrap is not passed (the documented default)"""
        self.ps.net_io_counters.cache_clear()
        self.ps.disk_io_counters.cache_clear()
        self.ps._common.wrap_numbers.cache_clear()
        outs = []
        try:
            for st, fl in zip(steps, files):
                k = st["k"]
                if k == "clearnet":
                    outs.append(self._call(self.ps.net_io_counters.cache_clear))
                    continue
                if k == "cleardisk":
                    outs.append(self._call(self.ps.disk_io_counters.cache_clear))
                    continue
                per_kw = "pernic" if k == "net" else "perdisk"
                kw = {}
                if st[per_kw] or not st.get("_default"):
                    kw[per_kw] = st[per_kw]
                if not (st["nowrap"] and st.get("_omit")):
                    kw["nowrap"] = st["nowrap"]
                if k == "net":
                    self.fp.write("net/dev", bytes.fromhex(fl["file"]))
                    outs.append(self._call(self.ps.net_io_counters, **kw))
                else:
                    self.fp.write("diskstats", bytes.fromhex(fl["file"]))
                    self.set_sysblock([bytes.fromhex(x) for x in fl["sysblock"]])
                    outs.append(self._call(self.ps.disk_io_counters, **kw))
        finally:
            self.ps.net_io_counters.cache_clear()
            self.ps.disk_io_counters.cache_clear()
        return outs

    def storage(self, sysblock, names):
        self.set_sysblock(sysblock)
        out = []
        for n in names:
            try:
                out.append(bool(self.lin.is_storage_device(os.fsdecode(bytes(n)))))
            except Exception as e:  # noqa: BLE001
                out.append(type(e).__name__)
        return out

    def usage(self, st, err=None):
        self.next_st = st
        self.next_errno = err
        try:
            r = self.ps.disk_usage("/psv-c09-mount")
            return {"total": int(r.total), "used": int(r.used), "free": int(r.free), "percent": float(r.percent),
                    "fields": list(r._fields)}
        except OSError as e:
            return {"kind": "exc", "exc": "OSError", "errno": e.errno}
        except Exception as e:  # noqa: BLE001
            return {"kind": "exc", "exc": type(e).__name__}
        finally:
            self.next_st = None
            self.next_errno = None


def order_key(seed, name):
    """the position of a directory entry in listing order number `seed` (any fixed pseudo-random permutation)"""
    return hashlib.sha1(b"%d:" % seed + (name if isinstance(name, bytes) else os.fsencode(name))).digest()


def canon_model(out):
    """driver output → the shape Impl._canon produces"""
    if out is None:
        return None
    if out.get("kind") == "perdev":
        return {"kind": "perdev", "devs": [[k, v] for k, v in out["devs"]]}     # in the model's / the promise's order
    return out


def as_dict(out):
    """the answer up to the order of the items (Spec.Expect.same)"""
    if isinstance(out, dict) and out.get("kind") == "perdev":
        return {"kind": "perdev", "devs": sorted(out["devs"])}
    return out


def order_free(op):
    """ops whose promise is a dict up to the order of its items: the counters come from /sys/block, whose listing order is
    the file system's (theorem C09_sysfs_any_order: Expect.same); everywhere else the order of the lines of the file is
    promised and compared"""
    return op.get("op") == "sysfs" and not op.get("procfs")


# ------------------------------------------------------------------------------ generators

# bytes >= 0x80 that cannot start/continue the UTF-8 encoding of a Unicode space (c2 85, c2 a0, e1 9a 80,
# e2 80 xx, e2 81 9f, e3 80 80) - see ASSUMPTIONS
HIGH = [b for b in range(0x80, 0x100) if b not in (0xC2, 0xE1, 0xE2, 0xE3)]
NAMECHARS = b"abcdefghijklmnopqrstuvwxyzABCDEFGHIJKLMNOPQRSTUVWXYZ0123456789_-.@"


def rand_counter(rng, style):
    if style == "big":
        return rng.choice([2**64 - 1, 2**63, 2**32, 2**32 - 1, rng.randrange(2**64), rng.randrange(2**64),
                           rng.randrange(2**70)])
    if style == "mid":
        return rng.randrange(10**rng.randrange(1, 13))
    return rng.randrange(0, 50)


def distinct_row(rng, n, style, salt):
    """n non-zero counters, pairwise distinct so that any swap/shift of columns is visible"""
    if style in ("tiny", "small"):
        return [salt * 64 + i + 1 + (rng.randrange(0, 2) * 32 if style == "small" else 0) for i in range(n)]
    row, seen = [], set()
    for _ in range(n):
        v = rand_counter(rng, style)
        while v in seen or v == 0:
            v += 1 + rng.randrange(0, 7)
        seen.add(v)
        row.append(v)
    return row


def zeroed(rng, row, mode):
    """idle devices: `all` = every counter 0 (an interface that never carried a packet), `some` = each counter 0 with
    probability 1/2 (the usual state of errs/drop/fifo/merged columns); the other counters stay pairwise distinct"""
    if mode == "all":
        return [0] * len(row)
    if mode == "some":
        return [0 if rng.random() < 0.5 else v for v in row]
    return row


def zero_mode(rng, idle_case):
    if idle_case:
        return "all"
    r = rng.random()
    return "all" if r < 0.12 else "some" if r < 0.27 else None


# device-class prefixes of the kernel's naming schemes (drivers/net, block drivers): a filter on a class of names
# (`startswith('dummy')`, `startswith('pmem')`) must meet at least one member
NET_PREFIXES = [b"lo", b"eth", b"en", b"eno", b"ens", b"enp0s", b"enx", b"wl", b"wlan", b"wlp2s", b"ww", b"wwan", b"dummy", b"veth",
                b"docker", b"br", b"br-", b"virbr", b"vnet", b"tun", b"tap", b"bond", b"team", b"vlan", b"ppp", b"sit", b"gre", b"gretap",
                b"ip6tnl", b"ip6gre", b"tunl", b"wg", b"ifb", b"macvlan", b"macvtap", b"ipvlan", b"vxlan", b"geneve", b"can", b"vcan",
                b"usb", b"ib", b"sl", b"erspan", b"nlmon", b"teql", b"bridge", b"cali", b"flannel.", b"cni", b"lxc", b"lxdbr", b"ovs-",
                b"nr", b"rose", b"hsr", b"bat", b"xfrm", b"vrf", b"nsim", b"p2p", b"mon.", b"rmnet", b"ccmni", b"bnep", b"eql"]
DISK_PREFIXES = [b"sd", b"hd", b"vd", b"xvd", b"nvme", b"mmcblk", b"dm-", b"loop", b"md", b"zram", b"sr", b"fd", b"ram", b"nbd",
                 b"pmem", b"dasd", b"rbd", b"drbd", b"bcache", b"ubd", b"mtdblock", b"scd", b"nullb", b"zd", b"vblk", b"etherd/e",
                 b"cciss/c", b"ida/c", b"rd/c", b"sx8/", b"i2o/hd", b"ataraid/d", b"mspblk", b"ssd", b"ubiblock", b"rssd", b"skd",
                 b"rnbd", b"zloop", b"ublkb", b"xd", b"pd", b"pf", b"pcd", b"hdisk", b"emd", b"tapdev", b"iseries/vd", b"mpath"]


def class_name(rng, prefixes):
    pre = rng.choice(prefixes)
    r = rng.random()
    if r < 0.5:
        suf = b"%d" % rng.choice([0, 1, 2, 7, 10, 127, rng.randrange(1000)])
    elif r < 0.8:
        suf = bytes(rng.choice(b"abcdefghijklmnopqrstuvwxyz") for _ in range(rng.randrange(1, 3)))
    else:
        suf = b"%dn%d" % (rng.randrange(4), rng.randrange(1, 4))
    return pre + suf


def gen_net_name(rng, fam):
    if fam == "class":
        return class_name(rng, NET_PREFIXES)
    if fam == "plain":
        return rng.choice([b"lo", b"eth0", b"wlp3s0", b"docker0", b"enp0s31f6", b"br-3f2a1c9d8e7b", b"veth1a2b3c4",
                           b"tun0", b"e", b"abcdef", b"abcde", b"abcdefg"])
    if fam == "colon":
        return rng.choice([b"eth0:1", b"eth0:123", b"a:b:c", b":x", b"x:", b"::", b"eth0: 5", b"lo:0: 1 2",
                           b":abcdefgh", b"a:1 2 3 4 5 6 7 8 9 10 11 12 13 14 15 16"])
    if fam == "slash":
        return rng.choice([b"a/b", b"/", b"eth/0", b"../x", b"vlan/12"])
    if fam == "digits":
        return rng.choice([b"0", b"123", b"0042", b"9" * 12, b"1:2"])
    if fam == "high":
        n = rng.randrange(1, 9)
        return bytes(rng.choice(HIGH) if rng.random() < 0.6 else rng.choice(NAMECHARS) for _ in range(n))
    if fam == "ctrledge":
        # legal for the kernel (dev_valid_name only rejects '/', ':', isspace()), whitespace for str.strip()
        return rng.choice([b"a\x1f", b"\x1ceth0", b"\x1d", b"eth0\x1e\x1f", b"eth\xc2\x85", b"\xe2\x80\xa8x",
                           b"w\xe3\x80\x80", b"\xe1\x9a\x80"])
    if fam == "innerws":
        # (a `\r` inside a name is an ordinary character since open_text reads with newline="\n")
        return rng.choice([b"a b", b"a\tb", b"a\x1fb", b"a\x1c\x1db", b"x  y z", b"a\rb", b"\rx", b"x\r"])
    n = rng.randrange(1, 16)
    return bytes(rng.choice(NAMECHARS + b":/") for _ in range(n))


NET_FAMS = ["plain", "class", "class", "colon", "colon", "slash", "digits", "high", "innerws", "random", "ctrledge"]

FINDING_STRIP = "C09-net-name-strip"


def in_strip_region(op):
    """region of finding C09-net-name-strip: some interface name begins or ends with a character that
    str.strip() removes (the names are free of C-locale whitespace by construction)"""
    if op.get("op") != "net":
        return False
    for i in op["ifs"]:
        s = os.fsdecode(bytes.fromhex(i["name"]))
        if s != s.strip():
            return True
    return False


def gen_net_case(rng):
    r = rng.random()
    n = 0 if r < 0.06 else (1 if r < 0.15 else rng.randrange(2, 41 if rng.random() < 0.15 else 9))
    style = rng.choice(["tiny", "small", "mid", "big", "big"])
    ifs, seen = [], set()
    fams = set()
    idle = n > 0 and rng.random() < 0.06          # a host whose interfaces are all idle
    zeros = set()
    for k in range(n):
        for _ in range(20):
            fam = rng.choice(NET_FAMS)
            nm = gen_net_name(rng, fam)
            if nm not in seen:
                break
        else:
            continue
        seen.add(nm)
        fams.add(fam)
        zm = zero_mode(rng, idle)
        if zm:
            zeros.add(zm)
        ifs.append({"name": nm.hex(), "cols": zeroed(rng, distinct_row(rng, 16, style, k), zm)})
    return {"op": "net", "h1": H1.hex(), "h2": H2.hex(), "ifs": ifs, "pernic": rng.random() < 0.5}, \
        {"n": len(ifs), "style": style, "fams": sorted(fams), "zeros": sorted(zeros), "idle": idle}


def big_net_case(rng, n, pernic):
    """a container host: n interfaces with 2^64-ish counters (n = 600: more than 200 KB of /proc/net/dev)"""
    ifs = []
    for k in range(n):
        nm = rng.choice([b"veth", b"cali", b"lxc", b"vnet", b"br-"]) + b"%07x" % (k * 7919 + 13)
        ifs.append({"name": nm.hex(), "cols": zeroed(rng, distinct_row(rng, 16, "big", k), "some" if k % 5 == 0 else None)})
    return {"op": "net", "h1": H1.hex(), "h2": H2.hex(), "ifs": ifs, "pernic": pernic}, \
        {"n": n, "style": "big", "fams": ["class"], "zeros": ["some"], "big": True}


def big_disk_case(rng, n, perdisk):
    """a storage host: n device lines (whole disks with up to four partitions each), 20-field layout, 2^64-ish counters"""
    devs = []
    b = 0
    while len(devs) < n:
        base = b"sd" + bytes([97 + (b // 676) % 26, 97 + (b // 26) % 26, 97 + b % 26])
        b += 1
        devs.append({"major": 8 + (b % 7), "minor": (b * 16) % (1 << 20), "name": base.hex(), "part": False,
                     "rec": gen_rec(rng, "full6", "big", len(devs))})
        for i in range(1, 1 + b % 5):
            if len(devs) < n:
                devs.append({"major": 8 + (b % 7), "minor": (b * 16) % (1 << 20) + i, "name": part_name(base, i).hex(),
                             "part": True, "rec": gen_rec(rng, "full6", "big", len(devs))})
    return {"op": "disk", "devs": devs, "perdisk": perdisk}, \
        {"n": len(devs), "style": "big", "layouts": ["full6"], "whole": sum(1 for d in devs if not d["part"]), "big": True}


DISK_BASES = [b"sda", b"sdb", b"sdaa", b"hda", b"vda", b"xvda", b"nvme0n1", b"nvme1n1", b"mmcblk0", b"dm-0", b"dm-12",
              b"loop0", b"loop7", b"md127", b"zram0", b"sr0", b"cciss/c0d0", b"cciss/c0d1", b"ida/c0d0", b"rd/c0d0",
              b"nbd0", b"ram0", b"\xe9disk", b"d\xff\x80"]


DISK_BASES_SET = set()


def disk_bases(rng, n):
    """n distinct whole-disk names: the fixed pool, names built from the kernel's device-class prefixes, random tokens"""
    out = []
    for _ in range(n * 5):
        if len(out) == n:
            break
        r = rng.random()
        if r < 0.45:
            nm = rng.choice(DISK_BASES)
        elif r < 0.9:
            nm = class_name(rng, DISK_PREFIXES)
        else:
            nm = bytes(rng.choice(NAMECHARS + b"/:") for _ in range(rng.randrange(1, 12)))
        if nm in (b".", b"..") or b"!" in nm or nm in out:
            continue
        out.append(nm)
    return out


def part_name(base, i):
    if base[-1:].isdigit():
        return base + b"p%d" % i
    return base + b"%d" % i


DISK_BASES_SET.update(DISK_BASES)
DISK_BASES_SET.update(part_name(b, i) for b in DISK_BASES for i in range(1, 9))
LAYOUTS = ["full0", "full4", "full6", "fullN", "part", "old24"]


def gen_rec(rng, layout, style, salt, zm=None):
    if layout == "part":
        return {"k": "part", "v": zeroed(rng, distinct_row(rng, 4, style, salt), zm)}
    row = zeroed(rng, distinct_row(rng, 24, style, salt), zm)
    if layout == "old24":
        return {"k": "old24", "s": row[:11], "last": row[11]}
    k = {"full0": 0, "full4": 4, "full6": 6}.get(layout)
    if k is None:
        k = rng.choice([5, 7, 8, 9, 12])
    return {"k": "full", "s": row[:11], "ext": row[11:11 + k]}


def gen_disk_case(rng):
    r = rng.random()
    ndisks = 0 if r < 0.06 else (1 if r < 0.2 else rng.randrange(2, 7))
    style = rng.choice(["tiny", "small", "mid", "big", "big"])
    mixed = rng.random() < 0.7
    lay0 = rng.choice(LAYOUTS)
    bases = disk_bases(rng, ndisks)
    devs = []
    lays = set()
    big = rng.random() < 0.1
    idle = rng.random() < 0.06                       # every device idle since boot (loop0..7, ram0.. of a fresh host)
    zeros = set()
    taken = set()
    for bi, base in enumerate(bases):
        names = [base] + [part_name(base, i) for i in range(1, 9)]
        if any(x.replace(b"/", b"!") in taken for x in names):
            continue                                 # (sda + partition 1 = sda1 vs a disk called sda1)
        taken.update(x.replace(b"/", b"!") for x in names)
        lay = rng.choice(LAYOUTS) if mixed else lay0
        lays.add(lay)
        whole_is_part = rng.random() < 0.04          # a whole-disk name the kernel does not list in /sys/block
        zm = zero_mode(rng, idle)
        zeros.update([zm] if zm else [])
        devs.append({"major": rng.choice([3, 8, 8, 65, 179, 253, 259, 7, 1000, 12345]), "minor": rng.choice([0, 16, 32, 1 << 20]),
                     "name": base.hex(), "part": whole_is_part, "rec": gen_rec(rng, lay, style, len(devs), zm)})
        nparts = rng.choice([0, 0, 1, 2, 3, 8 if big else 2])
        for i in range(1, nparts + 1):
            layp = rng.choice(LAYOUTS) if mixed else lay0
            lays.add(layp)
            zm = zero_mode(rng, idle)
            zeros.update([zm] if zm else [])
            devs.append({"major": devs[-1]["major"], "minor": i, "name": part_name(base, i).hex(),
                         "part": rng.random() < 0.97, "rec": gen_rec(rng, layp, style, len(devs), zm)})
    if rng.random() < 0.3:
        rng.shuffle(devs)
    devs = devs[:40]
    return {"op": "disk", "devs": devs, "perdisk": rng.random() < 0.5}, \
        {"n": len(devs), "style": style, "layouts": sorted(lays), "whole": sum(1 for d in devs if not d["part"]),
         "zeros": sorted(zeros), "idle": idle and bool(devs),
         "classname": any(bytes.fromhex(d["name"]) not in DISK_BASES_SET for d in devs)}


def render_net_line(name, cols):
    """an independent (Python) rendition of the kernel format, used for the malformed stream only"""
    fmt = [7, 7, 4, 4, 4, 5, 10, 9, 8, 7, 4, 4, 4, 5, 7, 10]
    return name.rjust(6) + b":" + b"".join(b" " + str(v).encode().rjust(w) for w, v in zip(fmt, cols))


def gen_netraw_case(rng):
    """malformed / corner-case /proc/net/dev contents (model-only comparison)"""
    fam = rng.choice(["nocolon", "short", "long", "nonnum", "blank", "emptyname", "crlf", "noheader", "oneheader",
                      "empty", "dup", "nofinalnl", "tabs", "leadzero", "signed", "negative", "unispace", "colonpos", "adjacent"])
    rows = [(rng.choice([b"lo", b"eth0", b"eth0:1", b"w"]), distinct_row(rng, 16, "small", k)) for k in range(rng.randrange(1, 4))]
    lines = [H1, H2] + [render_net_line(n, c) for n, c in rows]
    end = b"\n"
    if fam == "nocolon":
        lines.append(b"  eth9 1 2 3 4 5 6 7 8 9 10 11 12 13 14 15 16")
    elif fam == "short":
        lines.append(b"  eth9:" + b" ".join(b"%d" % i for i in range(1, rng.choice([1, 8, 15, 16]))))
    elif fam == "long":
        lines.append(b"  eth9: " + b" ".join(b"%d" % i for i in range(1, rng.choice([18, 19, 33]))))
    elif fam == "nonnum":
        toks = [b"%d" % i for i in range(1, 17)]
        toks[rng.randrange(16)] = rng.choice([b"x", b"1x", b"0x10", b"1.5", b"1e3", b"--1", b"1-"])
        lines.append(b"  eth9: " + b" ".join(toks))
    elif fam == "blank":
        lines.insert(rng.randrange(2, len(lines) + 1), rng.choice([b"", b"   ", b"\t"]))
    elif fam == "emptyname":
        lines.append(rng.choice([b": 1 2 3 4 5 6 7 8 9 10 11 12 13 14 15 16", b"   : 1 2 3 4 5 6 7 8 9 10 11 12 13 14 15 16"]))
    elif fam == "crlf":
        end = rng.choice([b"\r\n", b"\r"])
    elif fam == "noheader":
        lines = lines[2:]
    elif fam == "oneheader":
        lines = lines[:1] if rng.random() < 0.5 else lines[1:]
    elif fam == "empty":
        lines = []
    elif fam == "dup":
        n, _ = rows[0]
        lines.append(render_net_line(n, distinct_row(rng, 16, "small", 9)))
        if rng.random() < 0.5:
            lines.append(render_net_line(b"zz", distinct_row(rng, 16, "small", 5)))
    elif fam == "tabs":
        lines.append(b"\teth9:\t" + b"\t".join(b"%d" % i for i in range(1, 17)) + b"\t")
    elif fam == "adjacent":
        # no blank between the colon and the first counter (old kernels, wide counters)
        lines.append(rng.choice([b"  eth9:", b"eth9:", b"a:b:"]) + b" ".join(b"%d" % v for v in distinct_row(rng, 16, "mid", 3)))
    elif fam == "colonpos":
        # the colon at index 0..3 of an unpadded line (`assert colon > 0`)
        lines.append(rng.choice([b"", b"a", b"ab", b"abc"]) + b": " + b" ".join(b"%d" % i for i in range(1, 17)))
    elif fam == "leadzero":
        lines.append(b"eth9:" + b" ".join(b"00%d" % i for i in range(1, 17)))
    elif fam in ("signed", "negative"):
        toks = [b"%d" % i for i in range(1, 17)]
        for _ in range(3):
            toks[rng.randrange(16)] = rng.choice([b"+5", b"1_000", b"-0", b"0_1", b"+0_0"])
        if fam == "negative":
            toks[rng.randrange(16)] = rng.choice([b"-5", b"-1_0"])
        lines.append(b"  eth9: " + b" ".join(toks))
    elif fam == "unispace":
        lines.append(b"  eth9: " + rng.choice([b"\xc2\xa0", b"\xe2\x80\x83"]).join(b"%d" % i for i in range(1, 17)))
    data = end.join(lines) + (b"" if fam == "nofinalnl" or not lines else end)
    return {"op": "netraw", "file": data.hex(), "pernic": rng.random() < 0.6}, {"fam": fam}


def disk_line(major, minor, name, nums, name_idx=2):
    toks = [b"%4d" % major, b"%7d" % minor] + [b"%d" % v for v in nums]
    toks.insert(name_idx, name)
    return b" ".join(toks)


def gen_diskraw_case(rng):
    fam = rng.choice(["flen", "flen", "nonnum", "blank", "dup", "crlf", "empty", "tabs", "nofinalnl", "dotname", "signed",
                      "negative", "unispace"])
    sys = [b"sda", b"sdb"]
    lines = [disk_line(8, 0, b"sda", distinct_row(rng, 11, "small", 1)),
             disk_line(8, 1, b"sda1", distinct_row(rng, 11, "small", 2))]
    end = b"\n"
    if fam == "flen":
        n = rng.randrange(0, 26)
        toks = [b"%d" % (100 + i) for i in range(n)]
        if n > 2:
            toks[2] = b"sdb"
        if n == 15:
            toks[2], toks[3] = b"102", b"sdb"
        lines.insert(rng.randrange(0, 3), b" ".join(toks))
    elif fam == "nonnum":
        nums = [b"%d" % v for v in distinct_row(rng, 11, "small", 3)]
        nums[rng.randrange(11)] = rng.choice([b"x", b"1x", b"1.0", b"0x1", b"--1"])
        lines.append(b"   8      16 sdb " + b" ".join(nums))
    elif fam == "blank":
        lines.insert(rng.randrange(0, 3), rng.choice([b"", b"  "]))
    elif fam == "dup":
        lines.append(disk_line(8, 0, rng.choice([b"sda", b"sda1"]), distinct_row(rng, 11, "small", 5)))
        lines.append(disk_line(8, 16, b"sdb", distinct_row(rng, 11, "small", 6)))
    elif fam == "crlf":
        end = rng.choice([b"\r\n", b"\r"])
    elif fam == "empty":
        lines = []
    elif fam == "tabs":
        lines.append(b"\t8\t16\tsdb\t" + b"\t".join(b"%d" % v for v in distinct_row(rng, 11, "small", 4)))
    elif fam in ("signed", "negative"):
        nums = [b"%d" % v for v in distinct_row(rng, 11, "small", 3)]
        for _ in range(3):
            nums[rng.randrange(11)] = rng.choice([b"+5", b"1_000", b"-0", b"0_1", b"007"])
        if fam == "negative":
            nums[rng.randrange(11)] = rng.choice([b"-5", b"-1_0"])
        lines.append(b"   8      16 sdb " + b" ".join(nums))
    elif fam == "unispace":
        # a Unicode space inside a device name: str.split() cuts the name there (outside the byte-level model)
        lines.append(disk_line(8, 32, rng.choice([b"sd\xc2\xa0b", b"\xe2\x80\x83sdb", b"sdb\xe3\x80\x80"]),
                               distinct_row(rng, 11, "small", 7)))
    elif fam == "dotname":
        lines.append(disk_line(8, 32, rng.choice([b".", b"..", b"...", b"!", b"a!b", b"a/b"]), distinct_row(rng, 11, "small", 7)))
        sys = sys + [b"a!b"] if rng.random() < 0.5 else sys
    data = end.join(lines) + (b"" if fam == "nofinalnl" or not lines else end)
    return {"op": "diskraw", "file": data.hex(), "sysblock": [s.hex() for s in sys], "perdisk": rng.random() < 0.5}, \
        {"fam": fam}


# ---- /sys/block worlds (read_sysfs, source selection, NotImplementedError)

def hx(b):
    return bytes(b).hex()


def node(name, files=(), subs=()):
    return {"name": hx(name), "files": [[hx(a), hx(b)] for a, b in files], "subs": list(subs)}


def gen_attr_dirs(rng):
    """attribute directories of a block device: no file called `stat` anywhere below"""
    pool = [
        lambda: node(b"queue", [(b"scheduler", b"[none] mq-deadline\n"), (b"iostats", b"1\n"), (b"nr_requests", b"256\n")],
                     [node(b"iosched", [(b"fifo_batch", b"16\n")])] if rng.random() < 0.5 else []),
        lambda: node(b"holders"),
        lambda: node(b"slaves"),
        lambda: node(b"power", [(b"runtime_status", b"unsupported\n"), (b"control", b"auto\n")]),
        lambda: node(b"mq", [], [node(b"0", [(b"cpu_list", b"0, 1\n")], [node(b"cpu0"), node(b"cpu1")])]),
        lambda: node(b"integrity", [(b"format", b"none\n"), (b"stats", b"1 2 3 4 5 6 7 8 9 10 11\n")]),
        lambda: node(b"trace", [(b"enable", b"0\n"), (b"stat_", b"7 7 7 7 7 7 7 7 7 7 7\n")]),
    ]
    return [f() for f in rng.sample(pool, rng.randrange(0, 4))]


def gen_other_files(rng, major, minor):
    pool = [(b"dev", b"%d:%d\n" % (major, minor)), (b"size", b"%d\n" % rng.randrange(1, 10**9)), (b"ro", b"0\n"),
            (b"removable", b"0\n"), (b"inflight", b"       0        3\n"), (b"uevent", b"MAJOR=%d\nMINOR=%d\n" % (major, minor)),
            (b"stat.old", b"1 2 3 4 5 6 7 8 9 10 11\n"), (b"Stat", b"9 9 9 9 9 9 9 9 9 9 9\n"), (b"alignment_offset", b"0\n")]
    return [[hx(a), hx(b)] for a, b in rng.sample(pool, rng.randrange(0, 5))]


def gen_sysfs_case(rng):
    """a kernel state presented through /sys/block (and, in a third of the cases, through /proc/diskstats too)"""
    procfs = rng.random() < 0.3
    r = rng.random()
    ndisks = 0 if r < 0.06 else (1 if r < 0.25 else rng.randrange(2, 6))
    style = rng.choice(["tiny", "small", "mid", "big", "big"])
    # one kernel = one stat layout: 11, 15, 17 fields; other extensions only where /proc/diskstats is not rendered
    extlen = rng.choice([0, 4, 6, 6] + ([9] if procfs else [1, 2, 3, 5, 9]))
    bases = []
    taken = set()
    for base in disk_bases(rng, ndisks):
        names = [(base if i == 0 else part_name(base, i)).replace(b"/", b"!") for i in range(0, 4)]
        if not any(x in taken for x in names):
            taken.update(names)
            bases.append(base)
    ndisks = len(bases)
    disks = []
    salt = 0
    nparts_total = 0
    idle = rng.random() < 0.06
    for base in bases:
        major = rng.choice([3, 8, 65, 179, 253, 259, 7])
        minor = rng.choice([0, 16, 32])
        row = zeroed(rng, distinct_row(rng, 11 + extlen, style, salt), zero_mode(rng, idle))
        salt += 1
        parts = []
        for i in range(1, rng.choice([0, 0, 1, 2, 3]) + 1):
            prow = zeroed(rng, distinct_row(rng, 11 + extlen, style, salt), zero_mode(rng, idle))
            salt += 1
            parts.append({"minor": minor + i, "name": hx(part_name(base, i)), "s": prow[:11], "ext": prow[11:],
                          "others": gen_other_files(rng, major, minor + i), "attrs": gen_attr_dirs(rng) if rng.random() < 0.4 else []})
        nparts_total += len(parts)
        disks.append({"major": major, "minor": minor, "name": hx(base), "s": row[:11], "ext": row[11:],
                      "others": gen_other_files(rng, major, minor), "attrs": gen_attr_dirs(rng), "parts": parts})
    op = {"op": "sysfs", "disks": disks, "procfs": procfs, "perdisk": rng.random() < 0.5}
    # the order in which os.listdir / os.walk list the entries: the file system's own, or one of 2^30 others
    if rng.random() < 0.6:
        op["_order"] = rng.randrange(1 << 30)
    # the kernel's layout: /sys/block/<dev> are symlinks, `subsystem`/`bdi` symlinks to directories below
    if rng.random() < 0.35:
        op["_kernel"] = True
    return op, \
        {"n": ndisks + nparts_total, "style": style, "fields": 11 + extlen, "parts": nparts_total,
         "slash": any(b"/" in b for b in bases)}


def stat_text(vals, sep=b" ", end=b"\n", width=8):
    return sep.join((b"%d" % v).rjust(width) if isinstance(v, int) else v for v in vals) + end


def gen_sysfsraw_case(rng):
    """malformed / corner-case worlds (model-only comparison; the specification speaks only about the world with
    neither source)"""
    fam = rng.choice(["neither", "nosys", "short", "ten", "nonnum", "nonnum-late", "signed", "negative", "deepstat",
                      "dupname", "nostat", "emptystat", "crlf", "tabs", "unispace", "statdir", "both-bad-sys", "emptysys"])
    good = [rng.randrange(1, 1000) for _ in range(rng.choice([11, 15, 17]))]
    diskstats = None
    sda = lambda stat, subs=(): node(b"sda", [(b"dev", b"8:0\n")] + ([(b"stat", stat)] if stat is not None else []), subs)
    sdb = node(b"sdb", [(b"stat", stat_text([rng.randrange(1, 99) for _ in range(11)]))])
    tree = [sda(stat_text(good), [node(b"sda1", [(b"stat", stat_text([v + 1 for v in good]))]), node(b"queue", [(b"x", b"1\n")])]), sdb]
    if fam == "neither":
        tree = None
    elif fam == "nosys":
        tree = None
        diskstats = disk_line(8, 0, b"sda", distinct_row(rng, 11, "small", 1)) + b"\n"
    elif fam == "short":
        tree[0] = sda(stat_text(good[:rng.randrange(0, 10)]))
    elif fam == "ten":
        tree[0] = sda(stat_text(good[:10]))
    elif fam == "nonnum":
        g = list(good)
        g[rng.randrange(0, 10)] = rng.choice([b"x", b"1x", b"0x10", b"1.5", b"--1", b"1__0", b"_1", b"1_", b"+"])
        tree[0] = sda(stat_text(g))
    elif fam == "nonnum-late":
        g = list(good)
        g[rng.randrange(10, len(g))] = rng.choice([b"x", b"-5", b"1.5"])
        tree[0] = sda(stat_text(g))
    elif fam == "signed":
        g = list(good)
        for _ in range(3):
            g[rng.randrange(0, 10)] = rng.choice([b"+5", b"1_000", b"007", b"-0", b"+0_0", b"0_1"])
        tree[0] = sda(stat_text(g))
    elif fam == "negative":
        g = list(good)
        g[rng.randrange(0, 10)] = rng.choice([b"-5", b"-1_0"])
        tree[0] = sda(stat_text(g))
    elif fam == "deepstat":
        tree[0] = sda(stat_text(good), [node(b"queue", [(b"stat", stat_text([v + 5 for v in good]))],
                                             [node(b"inner", [(b"stat", stat_text([v + 9 for v in good]))])])])
    elif fam == "dupname":
        # the same base name twice: the later one in listing order overwrites the earlier
        tree = [sda(stat_text(good), [node(b"sdb", [(b"stat", stat_text([v + 7 for v in good]))])]), sdb,
                node(b"sdc", [(b"stat", stat_text(good[::-1]))], [node(b"sda", [(b"stat", stat_text([v + 3 for v in good]))])])]
    elif fam == "nostat":
        tree[0] = sda(None, [node(b"sda1", [(b"stat", stat_text(good))])])
    elif fam == "emptystat":
        tree[0] = sda(rng.choice([b"", b"\n", b"   \n"]))
    elif fam == "crlf":
        tree[0] = sda(stat_text(good, end=rng.choice([b"\r\n", b"\r", b"", b"\n\n", b" \n"])))
    elif fam == "tabs":
        tree[0] = sda(stat_text(good, sep=rng.choice([b"\t", b"  ", b" \x1f ", b"\x0c"]), width=1))
    elif fam == "unispace":
        tree[0] = sda(stat_text(good, sep=rng.choice([b"\xc2\xa0", b"\xe2\x80\x83", b" \xe3\x80\x80"]), width=1))
    elif fam == "statdir":
        tree[0] = node(b"sda", [(b"dev", b"8:0\n")], [node(b"stat", [(b"stat", stat_text(good))])])
    elif fam == "both-bad-sys":
        tree[0] = sda(b"garbage\n")
        diskstats = disk_line(8, 0, b"sda", distinct_row(rng, 11, "small", 1)) + b"\n" + \
            disk_line(8, 1, b"sda1", distinct_row(rng, 11, "small", 2)) + b"\n"
    elif fam == "emptysys":
        tree = []
    op = {"op": "sysfsraw", "tree": tree, "diskstats": None if diskstats is None else diskstats.hex(),
          "perdisk": rng.random() < 0.5}
    if rng.random() < 0.5 or fam == "dupname":
        op["_order"] = rng.randrange(1 << 30)     # with duplicate base names the listing order decides who wins
    return op, {"fam": fam}


INT_ALPHABET = b"+-_019x \x1f"


def int_ops():
    """every token of length <= 4 over an alphabet of sign, underscore, digits, a letter and two blanks, plus a
    hand-picked list: Python's int() against Base/C09Int.pyInt?"""
    toks = [b""]
    layer = [b""]
    for _ in range(4):
        layer = [t + bytes([c]) for t in layer for c in INT_ALPHABET]
        toks += layer
    extra = [b"18446744073709551615", b"000000000000000000000", b"1_2_3_4_5", b"+1_2", b"-1_2", b"1__2", b"12_", b"\t12\n",
             b"\x0b\x0c12\r", b"\x1c12\x1d", b"1 2", b"+ 1", b"0b1", b"0o7", b"0x1f", b"1e3", b"1.0", b"inf", b"9" * 60,
             b"\xd9\xa1\xd9\xa2", b"\xc2\xa012", b"12\xe2\x80\x83", b"\xff1", b"1\xc2\xb2"]
    return [({"op": "int", "toks": [t.hex() for t in toks + extra]}, {"n": len(toks) + len(extra)})]



def gen_usage_case(rng):
    fam = rng.choice(["typical", "typical", "full", "emptyfs", "zero", "reserved", "weird", "huge", "huge", "tie", "oserror"])
    frsize = rng.choice([512, 1024, 4096, 4096, 65536, 1, 3])
    # f_bsize (preferred I/O size) is ALWAYS different from f_frsize (the unit of the block counts): NFS-like
    # large values, smaller than the fragment, huge
    bsize = rng.choice([4096, 8192, 131072, 1048576, 7, 512, 2**31, 2**40, 2**63])
    if bsize == frsize:
        bsize *= 2                      # distinct, so that f_bsize-for-f_frsize is visible
    blocks = rng.randrange(1, 10**rng.randrange(1, 12))
    if fam == "typical":
        bfree = rng.randrange(0, blocks + 1)
        bavail = rng.randrange(0, bfree + 1)
    elif fam == "full":
        bfree = rng.randrange(0, 3)
        bavail = 0
    elif fam == "emptyfs":
        bfree = blocks
        bavail = blocks - rng.randrange(0, min(blocks, 5) + 1)
    elif fam == "zero":
        blocks = bfree = bavail = 0
    elif fam == "reserved":
        bfree = rng.randrange(0, blocks + 1)
        bavail = 0
    elif fam == "weird":                 # pseudo file systems: free > total, avail > free; f_frsize = 0
        bfree = blocks + rng.randrange(0, 1000)
        bavail = rng.randrange(0, 2 * blocks + 1000)
        if rng.random() < 0.4:
            frsize = 0
    elif fam == "huge":
        blocks = rng.randrange(2**60, 2**64)
        bfree = rng.randrange(0, blocks)
        bavail = rng.randrange(0, bfree + 1)
        frsize = rng.choice([4096, 2**20, 2**32])
        bsize = rng.choice([512, 2**16, 2**33, 2**62, 2**64 - 1])
        if bsize == frsize:
            bsize += 1
    elif fam == "oserror":
        bfree = rng.randrange(0, blocks + 1)
        bavail = rng.randrange(0, bfree + 1)
    else:                                # percent exactly at a rounding tie k.x5
        d = rng.choice([2000, 200, 400, 4000])
        k = rng.randrange(0, d) | 1
        used_b, free_b = k, d - k        # used/(used+free)*100 = k/d*100
        blocks = used_b + free_b + rng.randrange(0, 5)
        bfree = blocks - used_b
        bavail = free_b
    files = rng.randrange(1, 10**6)
    st = [bsize, frsize, blocks, bfree, bavail, files, files // 2 + 1, files // 3 + 2, rng.choice([0, 1, 4096, 1024]),
          rng.choice([255, 143, 1020])]
    op = {"op": "usage", "st": st}
    if fam == "oserror":
        op["errno"] = rng.choice([errno.ENOENT, errno.EACCES, errno.EIO, errno.ENOTDIR, errno.ELOOP, errno.ENAMETOOLONG, errno.ENOSYS])
    return op, {"fam": fam}


# ------------------------------------------------------------------------------ histories of calls (nowrap=True: the default)

HIST_FAMS = ["return_lower", "return_lower", "return_higher", "return_equal", "steady", "wrap_listed", "rename", "empty_between",
             "clear_between", "forms", "nowrap_false_between", "random", "random"]
NET_COLS = 16


def _hist_pool(rng, fn):
    """the devices that may be listed during a history: net → names; disk → whole disks with partitions, one layout each"""
    pool = []
    if fn == "net":
        names = []
        for _ in range(rng.randrange(2, 6)):
            for _ in range(10):
                nm = gen_net_name(rng, rng.choice(["plain", "class", "class", "colon", "slash", "digits", "high"]))
                if nm not in names:
                    names.append(nm)
                    break
        for nm in names:
            pool.append({"name": nm, "n": NET_COLS})
        return pool
    taken = set()
    for base in disk_bases(rng, rng.randrange(1, 4)):
        names = [base] + [part_name(base, i) for i in range(1, 4)]
        if any(x.replace(b"/", b"!") in taken for x in names):
            continue
        taken.update(x.replace(b"/", b"!") for x in names)
        lay = rng.choice(["full0", "full4", "full6", "full6", "old24"])
        major = rng.choice([8, 65, 179, 253, 259])
        pool.append({"name": base, "part": False, "lay": lay, "major": major, "minor": 0})
        for i in range(1, rng.choice([0, 1, 1, 2, 3]) + 1):
            pool.append({"name": part_name(base, i), "part": True, "lay": rng.choice([lay, "part"]), "major": major, "minor": i})
    for d in pool:
        d["n"] = {"full0": 11, "full4": 15, "full6": 17, "old24": 12, "part": 4}[d["lay"]]
    return pool


def _hist_fresh(rng, n, level, salt):
    """the counters of a device that has just appeared: `low` = a young device, `high` = one that has worked a lot"""
    if level == "low":
        return [rng.randrange(0, 40) for _ in range(n)]
    if level == "big":
        return [2**64 - 1 - rng.randrange(0, 1000) - 1000 * i for i in range(n)]
    return [10**rng.randrange(3, 12) + salt * 97 + i * 7 + rng.randrange(0, 50) for i in range(n)]


def _hist_advance(rng, vals):
    """counters of a device that stayed up: each grows or stays as it is (an idle column does not move)"""
    return [v + (0 if rng.random() < 0.35 else rng.randrange(1, 10**rng.randrange(1, 7))) for v in vals]


def _hist_item(fn, d, vals):
    if fn == "net":
        return {"name": d["name"].hex(), "cols": list(vals)}
    if d["lay"] == "part":
        rec = {"k": "part", "v": list(vals)}
    elif d["lay"] == "old24":
        rec = {"k": "old24", "s": list(vals[:11]), "last": vals[11]}
    else:
        rec = {"k": "full", "s": list(vals[:11]), "ext": list(vals[11:])}
    return {"major": d["major"], "minor": d["minor"], "name": d["name"].hex(), "part": d["part"], "rec": rec}


def _hist_step(fn, per, nowrap, items, rng=None):
    st = {"k": fn, ("pernic" if fn == "net" else "perdisk"): per, "nowrap": nowrap}
    if fn == "net":
        st.update({"h1": H1.hex(), "h2": H2.hex(), "ifs": items})
    else:
        st["devs"] = items
    if rng is not None:
        if nowrap and rng.random() < 0.6:
            st["_omit"] = True           # nowrap=True by NOT passing it: the documented default
        if not per and rng.random() < 0.5:
            st["_default"] = True        # the system-wide form by not passing pernic / perdisk
    return st


def hist_from_plan(rng, fn, pool, plan, forms, nowraps, clears=()):
    """plan[t][i] = what device i does at step t: 'up' (listed, counters advance), 'same' (listed, unchanged), 'gone',
    'low' / 'high' / 'equal' (listed as a NEW device with young / heavily used / the last seen counters), 'wrap' (listed,
    some counters lower than before: a real overflow); clears = steps before which cache_clear() is called"""
    steps, events = [], set()
    vals = [None] * len(pool)
    last = [None] * len(pool)          # the counters when last listed
    for t, row in enumerate(plan):
        if t in clears:
            steps.append({"k": "clear" + fn})
        items = []
        for i, (d, ev) in enumerate(zip(pool, row)):
            was = vals[i]
            if ev == "gone":
                vals[i] = None
                continue
            if ev in ("low", "high", "big") or last[i] is None:
                vals[i] = _hist_fresh(rng, d["n"], ev if ev in ("low", "high", "big") else rng.choice(["low", "high", "high"]), i)
            elif ev == "equal":
                vals[i] = list(last[i])
            elif ev == "wrap":
                base = was if was is not None else last[i]
                vals[i] = [v // rng.randrange(2, 9) if (rng.random() < 0.4 and v > 0) else v + rng.randrange(0, 5) for v in base]
            elif ev == "same":
                vals[i] = list(was if was is not None else last[i])
            else:
                vals[i] = _hist_advance(rng, was if was is not None else last[i])
            if was is None and last[i] is not None and t > 0:
                lower = any(a < b for a, b in zip(vals[i], last[i]))
                events.add("device listed again after an absence with %s counters" % ("LOWER" if lower else "no lower"))
            elif was is not None and any(a < b for a, b in zip(vals[i], was)):
                events.add("counter goes backwards while listed (no claim there)")
            last[i] = list(vals[i])
            items.append(_hist_item(fn, d, vals[i]))
        if not items:
            events.add("nothing listed at some step")
        steps.append(_hist_step(fn, forms[t], nowraps[t], items, rng))
    if clears:
        events.add("cache_clear() inside the history")
    if len(set(forms)) > 1:
        events.add("both call forms in one history")
    if not all(nowraps):
        events.add("nowrap=False call inside the history")
    return steps, events


def gen_hist_case(rng, fam=None, fn=None):
    fam = fam or rng.choice(HIST_FAMS)
    fn = fn or rng.choice(["net", "disk"])
    pool = _hist_pool(rng, fn)
    while not pool:
        pool = _hist_pool(rng, fn)
    n = len(pool)
    T = rng.randrange(3, 8)
    x = rng.randrange(n)                       # the device the family is about
    plan = [["up" if rng.random() < 0.8 else "same" for _ in range(n)] for _ in range(T)]
    per0 = rng.random() < 0.5
    if fn == "disk" and pool[x]["part"] and fam != "random":
        per0 = True                            # a partition is listed by the per-device form only
    forms = [per0] * T
    nowraps = [True] * T
    clears = set()
    a = rng.randrange(1, T - 1)                # X goes away before step a …
    b = rng.randrange(a + 1, T)                # … and is listed again at step b
    if fam in ("return_lower", "return_higher", "return_equal"):
        for t in range(a, b):
            plan[t][x] = "gone"
        plan[b][x] = {"return_lower": "low", "return_higher": "big", "return_equal": "equal"}[fam]
        plan[0][x] = "high"
    elif fam == "steady":
        pass
    elif fam == "wrap_listed":
        plan[0][x] = "high"
        plan[a][x] = "wrap"
    elif fam == "rename":
        y = rng.randrange(n)
        for t in range(a, T):
            plan[t][x] = "gone"
        if y != x:
            for t in range(0, a):
                plan[t][y] = "gone"
            plan[a][y] = "low"
    elif fam == "empty_between":
        for i in range(n):
            plan[a][i] = "gone"
            plan[0][i] = "high"
            if a + 1 < T:
                plan[a + 1][i] = rng.choice(["low", "low", "equal", "up"])
    elif fam == "clear_between":
        plan[0][x] = "high"
        plan[a][x] = "low"
        clears.add(a)
    elif fam == "forms":
        forms = [rng.random() < 0.5 for _ in range(T)]
        for t in range(a, b):
            plan[t][x] = "gone"
        plan[0][x] = "high"
        plan[b][x] = rng.choice(["low", "big", "equal"])
    elif fam == "nowrap_false_between":
        plan[0][x] = "high"
        for t in range(a, b):
            plan[t][x] = "gone"
            nowraps[t] = False
        plan[b][x] = "low"
    else:
        forms = [rng.random() < 0.5 for _ in range(T)] if rng.random() < 0.5 else forms
        for t in range(T):
            if rng.random() < 0.12:
                nowraps[t] = False
            if t and rng.random() < 0.08:
                clears.add(t)
            for i in range(n):
                r = rng.random()
                plan[t][i] = ("gone" if r < 0.22 else "low" if r < 0.32 else "high" if r < 0.38 else "equal" if r < 0.42
                              else "wrap" if r < 0.47 else "same" if r < 0.6 else "up")
    if fam != "random" and rng.random() < 0.25:
        forms = [rng.random() < 0.5 for _ in range(T)]
    steps, events = hist_from_plan(rng, fn, pool, plan, forms, nowraps, clears)
    return {"op": "hist", "steps": steps}, {"fam": fam, "fn": fn, "events": sorted(events), "n": n, "steps": len(steps)}


def hist_corpus_ops():
    """the clause in its plainest shape, for both functions and both forms: a device works, goes away, and a device of the same
    name is listed again counting from (about) zero, while another one stays up"""
    import random
    ops = []
    for fn in ("net", "disk"):
        for per in (True, False):
            rng = random.Random(905)
            if fn == "net":
                pool = [{"name": b"lo", "n": 16}, {"name": b"tun0", "n": 16}]
            else:
                pool = [{"name": b"sda", "part": False, "lay": "full6", "major": 8, "minor": 0, "n": 17},
                        {"name": b"sdb", "part": False, "lay": "full6", "major": 8, "minor": 16, "n": 17},
                        {"name": b"sdb1", "part": True, "lay": "full6", "major": 8, "minor": 17, "n": 17}]
            k = len(pool)
            plan = [["high"] * k, ["up"] + ["gone"] * (k - 1), ["up"] + ["low"] * (k - 1), ["up"] * k]
            steps, ev = hist_from_plan(rng, fn, pool, plan, [per] * 4, [True] * 4)
            for st in steps:
                st["_omit"] = True
                st.pop("_default", None)
            ops.append(({"op": "hist", "steps": steps}, {"fam": "return_lower", "fn": fn, "events": sorted(ev), "n": k, "steps": 4}))
    return ops


def hist_exhaustive_ops():
    """every 3-step history of one device X next to a device that stays up: X absent / listed with young counters / listed with
    large counters at each step (27), under the form sequences PPP, TTT, PTP, TPT, for both functions; nowrap by default"""
    ops = []
    lvl = {"lo": 10, "hi": 100000}
    for fn in ("net", "disk"):
        for forms in ((True, True, True), (False, False, False), (True, False, True), (False, True, False)):
            for s0 in ("ab", "lo", "hi"):
                for s1 in ("ab", "lo", "hi"):
                    for s2 in ("ab", "lo", "hi"):
                        steps = []
                        for t, (per, sx) in enumerate(zip(forms, (s0, s1, s2))):
                            n = 16 if fn == "net" else 17
                            rows = [(b"lo" if fn == "net" else b"sda", [5000 + 100 * t + i for i in range(n)], False, 0)]
                            if sx != "ab":
                                rows.append((b"tun0" if fn == "net" else b"sdb", [lvl[sx] + 3 * t + i for i in range(n)], False, 16))
                                if fn == "disk":
                                    rows.append((b"sdb1", [lvl[sx] // 2 + 3 * t + i for i in range(n)], True, 17))
                            if fn == "net":
                                items = [{"name": nm.hex(), "cols": v} for nm, v, _, _ in rows]
                            else:
                                items = [{"major": 8, "minor": mi, "name": nm.hex(), "part": pt,
                                          "rec": {"k": "full", "s": v[:11], "ext": v[11:]}} for nm, v, pt, mi in rows]
                            st = _hist_step(fn, per, True, items)
                            st["_omit"] = True
                            steps.append(st)
                        ops.append(({"op": "hist", "steps": steps},
                                    {"fam": "exhaustive3", "fn": fn, "events": [], "n": 2, "steps": 3}))
    return ops


# ------------------------------------------------------------------------------ correspondence

def features(op, meta):
    """which clause families of the property a case exercises"""
    f = set()
    if op["op"] == "net":
        f.add("net:" + ("pernic" if op["pernic"] else "total"))
        if not op["ifs"]:
            f.add("net:empty")
        for x in meta.get("fams", []):
            f.add("netname:" + x)
        for x in meta.get("zeros", []):
            f.add("net:row with %s counters 0" % x)
        if meta.get("idle"):
            f.add("net:every interface idle (all counters 0)")
        if any(c == 0 for i in op["ifs"] for c in i["cols"]):
            f.add("net:some counter is 0")
        if meta.get("big"):
            f.add("net:600 interfaces (> 200 KB)")
    elif op["op"] == "disk":
        f.add("disk:" + ("perdisk" if op["perdisk"] else "total"))
        if not op["devs"]:
            f.add("disk:empty")
        if op["devs"] and not op["perdisk"] and meta.get("whole") == 0:
            f.add("disk:only-partitions")
        if any(d["part"] for d in op["devs"]) and any(not d["part"] for d in op["devs"]):
            f.add("disk:disks+partitions")
        if any(b"/" in bytes.fromhex(d["name"]) for d in op["devs"]):
            f.add("disk:slash-name")
        for x in meta.get("layouts", []):
            f.add("layout:" + x)
        if len(meta.get("layouts", [])) > 1:
            f.add("disk:mixed-layouts")
        for x in meta.get("zeros", []):
            f.add("disk:row with %s counters 0" % x)
        if meta.get("idle"):
            f.add("disk:every device idle (all counters 0)")
        if meta.get("classname"):
            f.add("disk:name built from a device-class prefix / random token")
        if meta.get("big"):
            f.add("disk:600 device lines (> 100 KB)")
    elif op["op"] in ("netraw", "diskraw", "sysfsraw"):
        f.add(op["op"] + ":" + meta["fam"])
    elif op["op"] == "sysfs":
        f.add("sysfs:" + ("perdisk" if op["perdisk"] else "total"))
        f.add("sysfs:source=" + ("procfs (both exist)" if op["procfs"] else "sysfs (no /proc/diskstats)"))
        f.add("sysfs:stat-fields=%d" % meta.get("fields", 0))
        if not op["disks"]:
            f.add("sysfs:empty")
        if meta.get("parts"):
            f.add("sysfs:disks+partitions")
        if meta.get("slash"):
            f.add("sysfs:slash-name")
        f.add("sysfs:listing-order=" + ("permuted" if op.get("_order") is not None else "file system's own"))
        if op.get("_kernel"):
            f.add("sysfs:kernel-layout (symlinked /sys/block entries, subsystem/bdi symlinks not entered)")
    elif op["op"] == "usage":
        f.add("usage:" + meta["fam"])
        f.add("usage:f_bsize %s f_frsize" % ("<" if op["st"][0] < op["st"][1] else ">" if op["st"][0] > op["st"][1] else "=="))
    elif op["op"] == "hist":
        f.add("hist:family=" + meta["fam"])
        f.add("hist:function=" + meta["fn"])
        f.add("hist:steps=%d" % meta["steps"])
        for e in meta.get("events", []):
            f.add("hist:" + e)
        if any(st.get("_omit") for st in op["steps"]):
            f.add("hist:nowrap=True by default argument")
    if op["op"] == "sysfsraw" and op.get("_order") is not None:
        f.add("sysfsraw:listing-order=permuted")
    if op.get("_default"):
        f.add(op["op"] + ":system-wide form by default argument")
    return f


def usage_agrees(im, ref):
    """impl dict vs driver usage object; percent against exact rationals"""
    if "kind" in im or "kind" in ref:
        return im == ref
    if im.get("fields") != ["total", "used", "free", "percent"]:
        return False
    if (im["total"], im["used"], im["free"]) != (ref["total"], ref["used"], ref["free"]):
        return False
    exact = Fraction(ref["percent"][0], ref["percent"][1])
    r1 = Fraction(ref["round1"][0], ref["round1"][1])
    p = Fraction(im["percent"])                       # the double, exactly
    if abs(p - r1) <= Fraction(1, 10**9):
        return True
    # within 1e-7 of a rounding tie the double may fall on the other side
    t = exact * 10
    near_tie = abs((t - (t.numerator // t.denominator)) - Fraction(1, 2)) <= Fraction(1, 10**7) * max(1, abs(t))
    return near_tie and abs(p - exact) <= Fraction(1, 20) + Fraction(1, 10**9)


def _strip(o):
    """keys starting with `_` steer the implementation side only (also inside the steps of a history)"""
    d = {k: v for k, v in o.items() if not k.startswith("_")}
    if d.get("op") == "hist":
        d["steps"] = [{k: v for k, v in st.items() if not k.startswith("_")} for st in d["steps"]]
    return d


def run_ops(ctx, impl, ops):
    """→ list of (impl_out, model_out, spec_out_or_None, extra)"""
    outs = []
    drv = ctx.driver()
    CH = 400
    for a in range(0, len(ops), CH):
        chunk = ops[a:a + CH]
        for o in chunk:
            # raw /sys/block trees are built first and handed to the model in the order the OS lists them
            if o["op"] == "sysfsraw" and not (o.get("_sysdir") and os.path.isdir(o["_sysdir"])):
                o["_sysdir"], o["tree"] = impl.materialise(o["tree"], o.get("_order"))
        answers = drv.batch([_strip(o) for o in chunk])
        # (keys starting with `_` steer the implementation side only: _nowrap, _default, _order, _kernel)
        for o, ans in zip(chunk, answers):
            if "bad" in ans:
                raise InfraError("driver rejected %r: %s" % (o, ans))
            kind = o["op"]
            nowrap = bool(o.get("_nowrap"))
            dflt = bool(o.get("_default"))
            if kind == "net":
                im = impl.net(bytes.fromhex(ans["file"]), o["pernic"], nowrap, dflt)
            elif kind == "netraw":
                im = impl.net(bytes.fromhex(o["file"]), o["pernic"], nowrap, dflt)
            elif kind == "disk":
                im = impl.disk(bytes.fromhex(ans["file"]), [bytes.fromhex(x) for x in ans["sysblock"]], o["perdisk"], nowrap, dflt)
            elif kind == "diskraw":
                im = impl.disk(bytes.fromhex(o["file"]), [bytes.fromhex(x) for x in o["sysblock"]], o["perdisk"], nowrap, dflt)
            elif kind == "usage":
                im = impl.usage(o["st"], o.get("errno"))
            elif kind == "sysfs":
                im = impl.disk_world(None if ans["file"] is None else bytes.fromhex(ans["file"]), ans["tree"],
                                     o["perdisk"], nowrap, order=o.get("_order"), kernel=bool(o.get("_kernel")), default=dflt)
            elif kind == "sysfsraw":
                im = impl.disk_world(None if o["diskstats"] is None else bytes.fromhex(o["diskstats"]), o["tree"],
                                     o["perdisk"], nowrap, sysdir=o.pop("_sysdir", None), order=o.get("_order"), default=dflt)
            elif kind == "hist":
                im = impl.hist(o["steps"], ans["files"])
                outs.append((im, [canon_model(x) for x in ans["model"]], [canon_model(x) for x in ans["spec"]], ans))
                continue
            elif kind == "int":
                im = impl.ints([bytes.fromhex(x) for x in o["toks"]])
            elif kind == "storage":
                im = impl.storage([bytes.fromhex(x) for x in o["sysblock"]], [bytes.fromhex(x) for x in o["names"]])
            else:
                raise ValueError(kind)
            plain = kind in ("usage", "storage", "int")
            outs.append((im, ans.get("model") if plain else canon_model(ans.get("model")),
                         ans.get("spec") if plain else canon_model(ans.get("spec")), ans))
    return outs, len(ops)


def meets(im, sp):
    """an answer against a promise with holes (Spec.ExpectH): kind, keys, their order and the field names are promised
    unconditionally, a value only where the promise is not null"""
    if not isinstance(im, dict) or not isinstance(sp, dict) or im.get("kind") != sp.get("kind"):
        return False
    if sp["kind"] == "perdev":
        if [k for k, _ in im["devs"]] != [k for k, _ in sp["devs"]]:
            return False
        rows = zip((v for _, v in im["devs"]), (v for _, v in sp["devs"]))
    elif sp["kind"] == "total":
        rows = [(im["fields"], sp["fields"])]
    else:
        return im == sp
    for a, b in rows:
        if [f for f, _ in a] != [f for f, _ in b]:
            return False
        if any(y is not None and x != y for (_, x), (_, y) in zip(a, b)):
            return False
    return True


def hist_verdicts(im, mo, sp):
    """per step: None / 'spec' / 'model'"""
    out = []
    for a, m, p in zip(im, mo, sp):
        out.append("spec" if not meets(a, p) else ("model" if a != m else None))
    return out


def judge(op, im, mo, sp):
    """→ None (agree) / 'spec' / 'model'"""
    if op["op"] == "hist":
        if not (len(im) == len(mo) == len(sp) == len(op["steps"])):
            return "model"
        v = hist_verdicts(im, mo, sp)
        return "spec" if "spec" in v else ("model" if "model" in v else None)
    if op["op"] == "usage":
        if sp is not None and not usage_agrees(im, sp):
            return "spec"
        return None if usage_agrees(im, mo) else "model"
    if op["op"] == "int":
        bad = [i for i, (a, b) in enumerate(zip(im, mo)) if b != "unmodelled" and a != b]
        return "model" if bad or len(im) != len(mo) else None
    if isinstance(mo, dict) and mo.get("kind") == "unmodelled":
        return None         # outside the model's domain (negative int(), non-ASCII token, Unicode space): counted, not judged
    if order_free(op):
        im, mo, sp = as_dict(im), as_dict(mo), as_dict(sp)
    if sp is not None and im != sp:
        return "spec"
    if im != mo:
        return "model"
    return None


def stripped_expectation(op, sp):
    """the recorded defective behaviour of finding C09-net-name-strip, derived from the specification's
    per-interface values: names str.strip()ped, a later interface overwriting an earlier one of the same
    stripped name, totals summed over what is left"""
    rows = {}
    for i in op["ifs"]:
        nm = os.fsencode(os.fsdecode(bytes.fromhex(i["name"])).strip()).hex()
        c = i["cols"]
        rows[nm] = [["bytes_sent", c[8]], ["bytes_recv", c[0]], ["packets_sent", c[9]], ["packets_recv", c[1]],
                    ["errin", c[2]], ["errout", c[10]], ["dropin", c[3]], ["dropout", c[11]]]
    if op["pernic"]:
        return {"kind": "perdev", "devs": sorted([k, v] for k, v in rows.items())}
    vals = list(rows.values())
    return {"kind": "total", "fields": [[vals[0][j][0], sum(v[j][1] for v in vals)] for j in range(8)]}


FINDING_SLASH = "C09-sysfs-slash-name"


def in_slash_region(op):
    """region of finding C09-sysfs-slash-name: the counters come from /sys/block (no /proc/diskstats) and some
    device's kernel name contains '/'"""
    if op.get("op") != "sysfs" or op.get("procfs"):
        return False
    return any(b"/" in bytes.fromhex(x["name"]) for d in op["disks"] for x in [d] + d["parts"])


def banged_expectation(op, sp):
    """the recorded defective behaviour of finding C09-sysfs-slash-name: the promised answer with every device
    under its /sys/block directory name ('!' for '/'); the system-wide total is not affected"""
    if not isinstance(sp, dict) or sp.get("kind") != "perdev":
        return sp
    return {"kind": "perdev", "devs": sorted([bytes.fromhex(k).replace(b"/", b"!").hex(), v] for k, v in sp["devs"])}


# finding id -> (region predicate, the only deviation accepted inside the region while the finding is listed)
FINDING_RULES = {FINDING_STRIP: (in_strip_region, stripped_expectation),
                 FINDING_SLASH: (in_slash_region, banged_expectation)}


def check_finding(ctx, fnd):
    rule = FINDING_RULES.get(fnd.get("id"))
    if rule is None:
        return "unknown"
    impl = Impl(ctx)
    try:
        op = dict(fnd["witness"]["input"])
        (im, mo, sp, _), = run_ops(ctx, impl, [op])[0]
        if im == sp:
            return "gone"
        return "reproduces" if im == rule[1](op, sp) else "changed"
    finally:
        impl.close()


def corpus_ops():
    """clause-directed seeds that always run first"""
    def iface(name, base):
        return {"name": name.hex(), "cols": [base + i for i in range(1, 17)]}

    def dev(major, minor, name, part, rec):
        return {"major": major, "minor": minor, "name": name.hex(), "part": part, "rec": rec}
    s = list(range(1, 12))
    ops = []
    for per in (True, False):
        ops.append(({"op": "net", "h1": H1.hex(), "h2": H2.hex(), "ifs": [], "pernic": per}, {"n": 0, "fams": []}))
        ops.append(({"op": "net", "h1": H1.hex(), "h2": H2.hex(), "pernic": per,
                     "ifs": [iface(b"lo", 0), iface(b"eth0:1", 100), iface(b"a:b: 7 8", 200), iface(b"x/y", 300),
                             iface(b"123", 2**64 - 20)]}, {"n": 5, "fams": ["colon", "digits", "plain", "slash"]}))
        ops.append(({"op": "net", "h1": H1.hex(), "h2": H2.hex(), "pernic": per,
                     "ifs": [iface(b"a", 0), iface(b"a\x1f", 100)]}, {"n": 2, "fams": ["ctrledge"]}))
        ops.append(({"op": "disk", "devs": [], "perdisk": per}, {"n": 0, "layouts": [], "whole": 0}))
        # the test-suite's three pinned lines, one file, plus 18/20-field lines and a cciss disk with partitions
        ops.append(({"op": "disk", "perdisk": per, "devs": [
            dev(3, 0, b"hda", False, {"k": "old24", "s": s, "last": 12}),
            dev(3, 0, b"hdb", False, {"k": "full", "s": [20 + x for x in s], "ext": []}),
            dev(3, 1, b"hdb1", True, {"k": "part", "v": [41, 42, 43, 44]}),
            dev(259, 0, b"nvme0n1", False, {"k": "full", "s": [60 + x for x in s], "ext": [72, 73, 74, 75]}),
            dev(259, 1, b"nvme0n1p1", True, {"k": "full", "s": [80 + x for x in s], "ext": [92, 93, 94, 95, 96, 97]}),
            dev(104, 0, b"cciss/c0d0", False, {"k": "full", "s": [100 + x for x in s], "ext": [112, 113, 114, 115, 116, 117]}),
            dev(104, 1, b"cciss/c0d0p1", True, {"k": "full", "s": [120 + x for x in s], "ext": []}),
        ]}, {"n": 7, "layouts": ["full0", "full4", "full6", "old24", "part"], "whole": 4}))
        # only partitions listed: total is None
        ops.append(({"op": "disk", "perdisk": per, "devs": [dev(8, 1, b"sda1", True, {"k": "full", "s": s, "ext": []})]},
                    {"n": 1, "layouts": ["full0"], "whole": 0}))
        # /sys/block only (read_sysfs): a plain disk with two partitions and attribute directories, a cciss disk
        # (directory `cciss!c0d0`) with a partition; then the same state with /proc/diskstats present too
        sd = lambda ext: [
            {"major": 8, "minor": 0, "name": b"sda".hex(), "s": s, "ext": ext, "others": [[b"dev".hex(), b"8:0\n".hex()]],
             "attrs": [node(b"queue", [(b"iostats", b"1\n")]), node(b"holders")],
             "parts": [{"minor": 1, "name": b"sda1".hex(), "s": [20 + x for x in s], "ext": ext, "others": [],
                        "attrs": [node(b"power", [(b"control", b"auto\n")])]},
                       {"minor": 2, "name": b"sda2".hex(), "s": [40 + x for x in s], "ext": ext, "others": [], "attrs": []}]},
            {"major": 104, "minor": 0, "name": b"cciss/c0d0".hex(), "s": [60 + x for x in s], "ext": ext, "others": [], "attrs": [],
             "parts": [{"minor": 1, "name": b"cciss/c0d0p1".hex(), "s": [80 + x for x in s], "ext": ext, "others": [],
                        "attrs": []}]}]
        for ext in ([], [101, 102, 103, 104], [101, 102, 103, 104, 105, 106]):
            for procfs in (False, True):
                ops.append(({"op": "sysfs", "disks": sd(ext), "procfs": procfs, "perdisk": per},
                            {"n": 5, "fields": 11 + len(ext), "parts": 3, "slash": True}))
        ops.append(({"op": "sysfs", "disks": [], "procfs": False, "perdisk": per}, {"n": 0, "fields": 11, "parts": 0}))
        # the same state in five other listing orders, and in the kernel's layout (symlinks)
        for seed in (1, 2, 3, 4, 5):
            ops.append(({"op": "sysfs", "disks": sd([101, 102, 103, 104]), "procfs": False, "perdisk": per, "_order": seed,
                         "_kernel": seed % 2 == 0}, {"n": 5, "fields": 15, "parts": 3, "slash": True}))
        ops.append(({"op": "sysfs", "disks": sd([]), "procfs": False, "perdisk": per, "_kernel": True},
                    {"n": 5, "fields": 11, "parts": 3, "slash": True}))
        # neither source: NotImplementedError
        ops.append(({"op": "sysfsraw", "tree": None, "diskstats": None, "perdisk": per}, {"fam": "neither"}))
        # idle hosts: every counter of every interface / device is 0 (the sandbox's own ifb0, loop0..7 look like this);
        # one idle device among busy ones
        zi = lambda name: {"name": name.hex(), "cols": [0] * 16}
        ops.append(({"op": "net", "h1": H1.hex(), "h2": H2.hex(), "pernic": per, "ifs": [zi(b"lo"), zi(b"dummy0"), zi(b"ifb0")]},
                    {"n": 3, "fams": ["class"], "zeros": ["all"], "idle": True}))
        ops.append(({"op": "net", "h1": H1.hex(), "h2": H2.hex(), "pernic": per, "ifs": [iface(b"eth0", 50), zi(b"dummy0"), iface(b"wg0", 90)]},
                    {"n": 3, "fams": ["class"], "zeros": ["all"]}))
        z11 = [0] * 11
        ops.append(({"op": "disk", "perdisk": per, "devs": [
            dev(7, 0, b"loop0", False, {"k": "full", "s": z11, "ext": [0, 0, 0, 0, 0, 0]}),
            dev(259, 0, b"pmem0", False, {"k": "full", "s": z11, "ext": [0, 0, 0, 0]}),
            dev(259, 1, b"pmem0p1", True, {"k": "part", "v": [0, 0, 0, 0]})]},
            {"n": 3, "layouts": ["full4", "full6", "part"], "whole": 2, "zeros": ["all"], "idle": True, "classname": True}))
        ops.append(({"op": "disk", "perdisk": per, "devs": [
            dev(8, 0, b"sda", False, {"k": "full", "s": s, "ext": []}),
            dev(259, 0, b"pmem0", False, {"k": "full", "s": z11, "ext": []}),
            dev(1, 0, b"ram0", False, {"k": "full", "s": [30 + x for x in s], "ext": []})]},
            {"n": 3, "layouts": ["full0"], "whole": 3, "zeros": ["all"], "classname": True}))
    # a container / storage host: 600 lines, far beyond any read-buffer or line-count constant
    import random
    rb = random.Random(600)
    ops.append(big_net_case(rb, 600, True))
    ops.append(big_disk_case(rb, 600, False))
    return ops


def exhaustive_ops():
    """finite sub-domains enumerated completely"""
    ops = []
    # every field count 0..25 of one diskstats line, name at index 2 (index 3 for 15), alone and after a good line
    for n in range(0, 26):
        toks = [b"%d" % (100 + i) for i in range(n)]
        if n > 2:
            toks[2] = b"sdb"
        if n == 15:
            toks[2], toks[3] = b"102", b"sdb"
        for prefix in (b"", b"   8       0 sda 1 2 3 4 5 6 7 8 9 10 11\n"):
            for per in (True, False):
                ops.append(({"op": "diskraw", "file": (prefix + b" ".join(toks) + b"\n").hex(),
                             "sysblock": [b"sda".hex(), b"sdb".hex()], "perdisk": per}, {"fam": "flen"}))
    # every number of counters 0..20 after the colon of one /proc/net/dev line
    for n in range(0, 21):
        line = b"  eth0:" + b"".join(b" %d" % (i + 1) for i in range(n))
        ops.append(({"op": "netraw", "file": (H1 + b"\n" + H2 + b"\n" + line + b"\n").hex(), "pernic": True},
                    {"fam": "short" if n < 16 else "long"}))
    # every number of header lines 0..3 in front of two interface lines
    for k in range(0, 4):
        body = [H1, H2, H1][:k] + [render_net_line(b"lo", list(range(1, 17))), render_net_line(b"eth0", list(range(21, 37)))]
        ops.append(({"op": "netraw", "file": (b"\n".join(body) + b"\n").hex(), "pernic": True}, {"fam": "noheader"}))
    # every number of fields 0..20 in a /sys/block/<dev>/stat file (fewer than ten: ValueError; more: ignored)
    for n in range(0, 21):
        for per in (True, False):
            tree = [node(b"sda", [(b"stat", stat_text(list(range(1, n + 1))))], [node(b"sda1", [(b"stat", stat_text(list(range(31, 48))))])])]
            ops.append(({"op": "sysfsraw", "tree": tree, "diskstats": None, "perdisk": per}, {"fam": "short" if n < 10 else "ten"}))
    # the colon at every index 0..7 of a /proc/net/dev line (`assert colon > 0`: index 0 and no colon raise)
    for k in range(0, 8):
        line = b"abcdefg"[:k] + b":" + b"".join(b" %d" % (i + 1) for i in range(16))
        for per in (True, False):
            ops.append(({"op": "netraw", "file": (H1 + b"\n" + H2 + b"\n" + line + b"\n").hex(), "pernic": per},
                        {"fam": "colonpos"}))
    # the counters directly after the colon, as kernels before 2.6.x printed them ("%6s:%8lu %7lu ..."): a first counter of
    # 1..9 digits touching the colon, every other column distinct
    for nd in range(1, 10):
        first = int("987654321"[:nd])
        line = b"  eth0:" + b"%d" % first + b"".join(b" %d" % (i + 2) for i in range(15))
        for per in (True, False):
            ops.append(({"op": "netraw", "file": (H1 + b"\n" + H2 + b"\n" + line + b"\n").hex(), "pernic": per},
                        {"fam": "adjacent"}))
    # the system-wide form by default argument, on a non-empty and an empty table of each kind
    lo = render_net_line(b"lo", list(range(1, 17)))
    e0 = render_net_line(b"eth0", list(range(21, 37)))
    for body in (b"\n".join([H1, H2, lo, e0]) + b"\n", b"\n".join([H1, H2]) + b"\n"):
        ops.append(({"op": "netraw", "file": body.hex(), "pernic": False, "_default": True}, {"fam": "default"}))
    for body in (b"   8       0 sda 1 2 3 4 5 6 7 8 9 10 11\n   8       1 sda1 1 2 3 4 5 6 7 8 9 10 11\n   8      16 sdb 1 2 3 4 5 6 7 8 9 10 11\n", b""):
        ops.append(({"op": "diskraw", "file": body.hex(), "sysblock": [b"sda".hex(), b"sdb".hex()], "perdisk": False,
                     "_default": True}, {"fam": "default"}))
    # os.statvfs raising: every errno of the list propagates as OSError with that errno
    for e in (errno.ENOENT, errno.EACCES, errno.EIO, errno.ENOTDIR, errno.ELOOP, errno.ENAMETOOLONG, errno.ENOSYS):
        ops.append(({"op": "usage", "st": [4096, 512, 100, 50, 40, 10, 6, 5, 0, 255], "errno": e}, {"fam": "oserror"}))
    ops += int_ops()
    return ops


def storage_ops(rng):
    names = [b"sda", b"sda1", b"cciss/c0d0", b"cciss!c0d0", b"cciss/c0d0p1", b".", b"..", b"...", b"a/b/c", b"/", b"!",
             b"\xe9disk", b"d\xff\x80", b"loop0", b"SDA", b"sd", b"sdaa"]
    ops = []
    for _ in range(6):
        sb = rng.sample([b"sda", b"cciss!c0d0", b"a!b!c", b"!", b"\xe9disk", b"d\xff\x80", b"loop0", b"sdaa", b"..."],
                        rng.randrange(0, 7))
        ops.append(({"op": "storage", "sysblock": [x.hex() for x in sb], "names": [x.hex() for x in names]}, {}))
    return ops


def correspond(ctx, res):
    impl = Impl(ctx)
    try:
        res.rule = ("cases = one call (or, op `hist`, a history of 3-7 calls in one process with nowrap=True by default) of "
                    "psutil.net_io_counters / disk_io_counters / disk_usage over a generated "
                    "/proc/net/dev, /proc/diskstats (+/sys/block), /sys/block tree without /proc/diskstats, or statvfs result "
                    "(plus one case comparing int() with the model's int on a token list); non-trivial = at least one "
                    "interface/device line is parsed (or an exception / None / {} is the promised outcome for a "
                    "non-empty file) resp. a statvfs record with blocks > 0; distinct = distinct canonical inputs")
        ops = []
        ops += [(o, m, "corpus") for o, m in corpus_ops()]
        ops += [(o, m, "corpus") for o, m in hist_corpus_ops()]
        n_exh0 = len(ops)
        ops += [(o, m, "exhaustive") for o, m in exhaustive_ops()]
        ops += [(o, m, "exhaustive") for o, m in hist_exhaustive_ops()]
        n_exh = len(ops) - n_exh0
        ops += [(o, m, "storage") for o, m in storage_ops(ctx.rng)]
        n = ctx.n(1000, 40000)
        for i in range(n):
            r = i % 20
            if i % 400 == 399:
                o, m = (big_net_case if (i // 400) % 2 else big_disk_case)(ctx.rng, ctx.rng.randrange(41, 700), ctx.rng.random() < 0.5)
            elif r < 5:
                o, m = gen_disk_case(ctx.rng)
            elif r < 9:
                o, m = gen_net_case(ctx.rng)
            elif r < 13:
                o, m = gen_sysfs_case(ctx.rng)
            elif r < 15:
                o, m = gen_sysfsraw_case(ctx.rng)
            elif r < 17:
                o, m = gen_diskraw_case(ctx.rng)
            elif r < 18:
                o, m = gen_netraw_case(ctx.rng)
            else:
                o, m = gen_usage_case(ctx.rng)
            if o["op"] in ("net", "disk", "netraw", "diskraw", "sysfs", "sysfsraw") and ctx.rng.random() < 0.1:
                o["_nowrap"] = True      # first call after cache_clear(): nowrap=True must return the same
            if o["op"] in ("net", "disk", "netraw", "diskraw", "sysfs", "sysfsraw") and not o.get("pernic", o.get("perdisk")) \
                    and ctx.rng.random() < 0.5:
                o["_default"] = True     # the system-wide form asked for by leaving pernic / perdisk out
            ops.append((o, m, "random"))
        # histories of calls in one process, nowrap=True (mostly by default argument): every family in turn, then random ones
        for i in range(ctx.n(160, 6000)):
            o, m = gen_hist_case(ctx.rng, HIST_FAMS[i % len(HIST_FAMS)])
            ops.append((o, m, "random"))
        results, nlines = run_ops(ctx, impl, [o for o, _, _ in ops])
        res.extra["driver_lines"] = nlines
        for (o, m, src), (im, mo, sp, ans) in zip(ops, results):
            res.count("source:" + src)
            res.count("op:" + o["op"])
            if o["op"] == "storage":
                res.case(o, nontrivial=True)
                if im != mo:
                    res.disagree("model", o, im, mo, None, note="real is_storage_device on the redirected /sys/block "
                                 "differs from the model")
                continue
            if o["op"] == "int":
                res.case({"op": "int", "n": m["n"]}, nontrivial=True)
                res.count("int() tokens compared", m["n"])
                res.count("int() tokens outside the model (non-ASCII)", sum(1 for x in mo if x == "unmodelled"))
                if judge(o, im, mo, sp) is not None:
                    bad = [(t, a, b) for t, a, b in zip(o["toks"], im, mo) if b != "unmodelled" and a != b][:5]
                    res.disagree("model", {"op": "int", "toks": [t for t, _, _ in bad]}, [a for _, a, _ in bad],
                                 [b for _, _, b in bad], None, note="Python's int() differs from Base/C09Int.pyInt?")
                continue
            feats = features(o, m)
            for f in feats:
                res.count(f)
            if isinstance(mo, dict) and mo.get("kind") == "unmodelled":
                res.count("outside the model (negative int / non-ASCII token / Unicode space): not judged")
            if o.get("_nowrap"):
                res.count("nowrap=True after cache_clear")
            if isinstance(im, dict) and im.get("kind"):
                res.count("impl:" + im["kind"] + (":" + im["exc"] if im.get("kind") == "exc" else ""))
            if "n" in m:
                res.count("size:%s" % ("0" if m["n"] == 0 else "1" if m["n"] == 1 else "2-8" if m["n"] <= 8 else "9-40"
                                       if m["n"] <= 40 else "41-600"))
            if o["op"] == "usage" and o["st"][0] == o["st"][1]:
                res.count("usage:f_bsize == f_frsize (must stay 0)")
            if o["op"] == "hist":
                vals = [x for stp in sp for row in ([v for _, v in stp.get("devs", [])] + ([stp["fields"]] if "fields" in stp else []))
                        for _, x in row]
                res.count("hist:values promised exactly", sum(1 for x in vals if x is not None))
                res.count("hist:values without a claim (a counter was seen going backwards: C10's subject)", sum(1 for x in vals if x is None))
            nontrivial = o["op"] == "hist" or (o["op"] == "usage" and o["st"][2] > 0) or \
                         (o["op"] in ("net", "disk", "sysfs") and m.get("n", 0) > 0) or \
                         (o["op"] in ("netraw", "diskraw") and len(o["file"]) > 0) or o["op"] == "sysfsraw"
            res.case(o, nontrivial=nontrivial,
                     sample={"input": o, "impl": im} if src == "random" and len(res.samples) < 5 and nontrivial else None)
            verdict = judge(o, im, mo, sp)
            fid = None
            for cand, (region, expectation) in FINDING_RULES.items():
                if verdict is not None and region(o) and any(f.get("id") == cand for f in ctx.findings):
                    # inside the region of a listed finding the only accepted deviation is the recorded one
                    # (net: every name str.strip()ped, later duplicates overwrite; sysfs: '!' for '/') - anything
                    # else is new
                    if im == expectation(o, sp):
                        fid = cand
                        res.known_seen[fid] = res.known_seen.get(fid, 0) + 1
            if in_strip_region(o):
                res.count("net:name-with-strip()-able-end")
            if in_slash_region(o):
                res.count("sysfs:slash-name read through /sys/block (region of C09-sysfs-slash-name)")
            if verdict is not None and o["op"] == "hist":
                hv = hist_verdicts(im, mo, sp)
                k = next(i for i, v in enumerate(hv) if v == verdict) if verdict in hv else -1
                res.disagree(verdict, o, im, mo, sp, note="history of calls in one process: the answer of step %d (0-based) differs "
                             "from the %s; impl there: %s; promised (null = no claim): %s" % (
                                 k, "specification (Spec/C09Hist: exact kernel values unless that counter was seen going backwards "
                                 "while the device stayed listed)" if verdict == "spec" else "Lean model",
                                 str(im[k])[:300] if k >= 0 else "?", str(sp[k])[:300] if k >= 0 else "?"))
            elif verdict == "spec":
                res.disagree("spec", o, im, mo, sp, note="implementation differs from the specification "
                             "(kernel-rendered input → documented fields)", finding=fid)
            elif verdict == "model":
                res.disagree("model", o, im, mo, sp, note="implementation differs from the Lean model", finding=fid)
        res.exhaustive = ("%d cases: every field count 0..25 of a /proc/diskstats line (alone / after a valid line, "
                          "perdisk both ways), every counter count 0..20 of a /proc/net/dev line, every header-line "
                          "count 0..3, every index 0..7 of the colon in a /proc/net/dev line (pernic both ways), every field count 0..20 of a /sys/block/<dev>/stat file (perdisk both ways), int() on every "
                          "token of length <= 4 over the alphabet '+-_019x', blank, 0x1f (7381 tokens, one case); every 3-step history of a device "
                          "absent / listed young / listed with large counters next to one that stays up, under the form sequences PPP TTT PTP "
                          "TPT, both functions, nowrap by default (216 histories); the "
                          "table/usage cases are samples") % n_exh
        res.extra["access_redirects"] = impl.access_log
        res.extra["listings re-ordered (os.listdir of /sys/block)"] = impl.order_log
        res.extra["sysfs_redirects (exists/listdir/walk of /sys/block)"] = impl.sysfs_log
        res.extra["live_renderer_check"] = live_check(ctx, impl, res)
    finally:
        impl.close()


def search(ctx, res, broken):
    correspond(ctx, res)


# ------------------------------------------------------------------------------ renderer validation on the live kernel

def live_check(ctx, impl, res):
    """Parse the sandbox's real /proc/net/dev and /proc/diskstats with an independent strict parser, re-render
    through the Lean renderers and require byte equality (supporting evidence for the trusted renderers)."""
    out = {}
    ops = []
    try:
        with open("/proc/net/dev", "rb") as f:
            raw = f.read()
        lines = raw.split(b"\n")
        assert lines[-1] == b""
        ifs = []
        for l in lines[2:-1]:
            name, _, tail = l.rpartition(b":")
            cols = [int(x) for x in tail.split()]
            assert len(cols) == 16
            ifs.append({"name": name.lstrip(b" ").hex(), "cols": cols})
        ops.append(("net", raw, {"op": "net", "h1": lines[0].hex(), "h2": lines[1].hex(), "ifs": ifs, "pernic": True}))
    except Exception as e:  # noqa: BLE001
        out["net"] = "unavailable: %s" % type(e).__name__
    try:
        with open("/proc/diskstats", "rb") as f:
            raw = f.read()
        devs = []
        try:
            whole = set(os.fsencode(x) for x in impl.real_listdir("/sys/block"))
        except OSError:
            whole = None
        for l in raw.split(b"\n")[:-1]:
            t = l.split()
            assert len(t) in (14, 18, 20)
            # whole disk = listed in the live /sys/block (none listed when /sys/block cannot be read)
            part = whole is None or t[2].replace(b"/", b"!") not in whole
            devs.append({"major": int(t[0]), "minor": int(t[1]), "name": t[2].hex(), "part": part,
                         "rec": {"k": "full", "s": [int(x) for x in t[3:14]], "ext": [int(x) for x in t[14:]]}})
        ops.append(("disk", raw, {"op": "disk", "devs": devs, "perdisk": True}))
    except Exception as e:  # noqa: BLE001
        out["disk"] = "unavailable: %s" % type(e).__name__
    if ops:
        answers = ctx.driver().batch([o for _, _, o in ops])
        for (kind, raw, o), ans in zip(ops, answers):
            same = bytes.fromhex(ans.get("file", "")) == raw
            out[kind] = {"lines": len(o.get("ifs", o.get("devs", []))), "byte_identical": same}
            if not same:
                res.notes.append("live %s: the Lean renderer does not reproduce the sandbox kernel's file byte for byte" % kind)
        # the REAL psutil functions on the live content (the bytes just read, served through the fake procfs; whole disks =
        # the live /sys/block listing), both forms: the sandbox's interfaces / loop devices are idle (all counters 0)
        live_ops = []
        for kind, raw, o in ops:
            key = "pernic" if kind == "net" else "perdisk"
            for per in (True, False):
                live_ops.append(dict(o, **{key: per}))
        results, _ = run_ops(ctx, impl, live_ops)
        for o, (im, mo, sp, _a) in zip(live_ops, results):
            res.count("live:psutil.%s_io_counters on the sandbox's own /proc content" % o["op"])
            rows = o.get("ifs") or [{"cols": d["rec"]["s"] + d["rec"]["ext"]} for d in o.get("devs", [])]
            if any(all(c == 0 for c in r["cols"]) for r in rows):
                res.count("live:content has an all-zero row")
            res.case(dict(o, _live=True), nontrivial=bool(rows))
            v = judge(o, im, mo, sp)
            out.setdefault(o["op"], {}).setdefault("psutil_agrees", True)
            if v is not None:
                out[o["op"]]["psutil_agrees"] = False
                res.disagree(v, o, im, mo, sp, note="psutil on the content of the sandbox's live /proc file differs from the %s"
                             % ("specification" if v == "spec" else "Lean model"))
    return out


# ------------------------------------------------------------------------------ shrink / replay

def _fails(ctx, impl, op):
    (im, mo, sp, _), = run_ops(ctx, impl, [op])[0]
    return judge(op, im, mo, sp) == "spec", im, mo, sp


def shrink_hist(ctx, d):
    """fewer steps, then fewer devices (a device is removed from every step at once)"""
    op = d["input"]
    impl = Impl(ctx)
    try:
        fails = lambda steps: bool(steps) and _fails(ctx, impl, dict(op, steps=steps))[0]
        steps = ddmin(op["steps"], fails, max_tests=40) if len(op["steps"]) > 1 else op["steps"]
        names = sorted({x["name"] for st in steps for x in st.get("ifs", st.get("devs", []))})

        def without(drop):
            out = []
            for st in steps:
                st = dict(st)
                for key in ("ifs", "devs"):
                    if key in st:
                        st[key] = [x for x in st[key] if x["name"] not in drop]
                out.append(st)
            return out
        dropped = set()
        for nm in names:
            if len(names) - len(dropped) > 1 and fails(without(dropped | {nm})):
                dropped.add(nm)
        op2 = dict(op, steps=without(dropped))
        bad, im, mo, sp = _fails(ctx, impl, op2)
        if bad:
            hv = hist_verdicts(im, mo, sp)
            k = hv.index("spec")
            return dict(d, input=op2, impl=im, model=mo, spec=sp,
                        note="history of calls in one process (shrunk): step %d (0-based) returns %s; promised (null = no claim): %s"
                             % (k, str(im[k])[:300], str(sp[k])[:300]))
    finally:
        impl.close()
    return d


def shrink(ctx, d):
    op = d["input"]
    if op.get("op") == "hist":
        return shrink_hist(ctx, d)
    key = {"net": "ifs", "disk": "devs", "sysfs": "disks"}.get(op.get("op"))
    if key is None or len(op[key]) < 2:
        return d
    impl = Impl(ctx)
    try:
        small = ddmin(op[key], lambda items: _fails(ctx, impl, dict(op, **{key: items}))[0], max_tests=40)
        op2 = dict(op, **{key: small})
        bad, im, mo, sp = _fails(ctx, impl, op2)
        if bad:
            return dict(d, input=op2, impl=im, model=mo, spec=sp)
    finally:
        impl.close()
    return d


def replay(ctx, rp, res):
    op = rp.get("input")
    if not isinstance(op, dict) or "op" not in op:
        return True
    impl = Impl(ctx)
    try:
        (im, mo, sp, _), = run_ops(ctx, impl, [op])[0]
        v = judge(op, im, mo, sp)
        print("replay: impl=%s\n        spec=%s" % (str(im)[:400], str(sp if sp is not None else mo)[:400]))
        return v is not None
    finally:
        impl.close()
