"""C19 redirect layer: serve psutil's hard-coded `/sys/...` paths (and the fake procfs) from a temp root.

Narrow by construction: nothing in /repo is edited; for the duration of a call the names
`glob`, `os` in the `psutil._pslinux` namespace are replaced by shims (glob.glob, os.listdir,
os.sysconf, os.path.exists/isfile/isdir/lexists are redirected, everything else is delegated
to the real modules) and `open` is injected into `psutil._common`'s namespace (open_binary /
open_text / cat / bcat all live there). Paths handed back to psutil are the VIRTUAL ones
(`/sys/class/hwmon/hwmon0/temp1_input`), as a real kernel would produce, so psutil's own string
processing (`split('_')`, `dirname`, the `re.search('[0-9]+')` sort key) sees what it sees in
production whatever the temp dir is called.

Also importable in a subprocess (`python -m harness.props.c19_redirect <snapdir>`), which the
harness uses to run thermal-zone cases under other PYTHONHASHSEED values.
"""
import glob as _real_glob
import errno
import importlib.util
import json
import os as _real_os
import shutil
import sys
import tempfile
import builtins as _builtins

SYS_PREFIXES = ("/sys/",)


class _PathShim:
    def __init__(self, red):
        self._red = red

    def __getattr__(self, name):
        return getattr(_real_os.path, name)

    def exists(self, p):
        return _real_os.path.exists(self._red.real(p))

    def lexists(self, p):
        return _real_os.path.lexists(self._red.real(p))

    def isfile(self, p):
        return _real_os.path.isfile(self._red.real(p))

    def isdir(self, p):
        return _real_os.path.isdir(self._red.real(p))


class _OsShim:
    def __init__(self, red):
        self._red = red
        self.path = _PathShim(red)

    def __getattr__(self, name):
        return getattr(_real_os, name)

    def listdir(self, p="."):
        return sorted(_real_os.listdir(self._red.real(p)))

    def sysconf(self, name):
        r = self._red
        if r.sysconf_override is not None and name == "SC_NPROCESSORS_ONLN":
            kind, val = r.sysconf_override
            if kind == "raise":
                raise ValueError("unrecognized configuration name")
            return val
        return _real_os.sysconf(name)


class _GlobShim:
    def __init__(self, red):
        self._red = red

    def __getattr__(self, name):
        return getattr(_real_glob, name)

    def glob(self, pattern, **kw):
        r = self._red
        if r.is_virtual(pattern):
            n = len(r.root)
            return sorted(p[n:] for p in _real_glob.glob(r.root + pattern, **kw))
        return _real_glob.glob(pattern, **kw)


UNREAD_MODES = ("open_eacces", "open_enxio", "read_eio", "read_enodata", "read_enodev")


class _FailingFile:
    """What open() returns for an 'unreadable' file in the read_* modes: the open succeeds (as it does on a real
    hwmon / power_supply attribute), every way of getting data out of it raises OSError(errno) — the failures the
    comments in _pslinux.py cite (ENODATA, EIO, ENODEV at read(2) time)."""

    def __init__(self, eno, name):
        self.__dict__["_eno"] = eno
        self.__dict__["name"] = name
        self.__dict__["closed"] = False

    def _fail(self, *a, **kw):
        raise OSError(self._eno, _real_os.strerror(self._eno), self.name)

    read = readline = readlines = read1 = readinto = __next__ = _fail

    def __iter__(self):
        return self

    def __enter__(self):
        return self

    def __exit__(self, *a):
        self.close()
        return False

    def close(self):
        self.__dict__["closed"] = True

    def __setattr__(self, k, v):          # open_text sets _CHUNK_SIZE
        self.__dict__[k] = v


class Redirect:
    def __init__(self):
        self.root = tempfile.mkdtemp(prefix="psv-sys-")
        self.unreadable = set()          # REAL paths that cannot be read; HOW they fail: `unread_mode`
        self.unread_mode = "open_eacces"
        self.failed_reads = 0            # read-time failures actually delivered (evidence)
        self.sysconf_override = None
        self.opened = []                 # virtual paths opened (coverage / debugging)

    def is_virtual(self, p):
        return isinstance(p, str) and p.startswith(SYS_PREFIXES)

    def real(self, p):
        if isinstance(p, bytes):
            s = _real_os.fsdecode(p)
            return _real_os.fsencode(self.root + s) if self.is_virtual(s) else p
        return self.root + p if self.is_virtual(p) else p

    def open(self, file, *a, **kw):
        rp = self.real(file)
        key = _real_os.fsdecode(rp) if isinstance(rp, (bytes, str)) else rp
        if key in self.unreadable:
            mode = self.unread_mode
            if mode == "open_enxio":
                raise OSError(errno.ENXIO, "No such device or address", file)
            if mode.startswith("read_"):
                self.failed_reads += 1
                return _FailingFile({"read_eio": errno.EIO, "read_enodata": errno.ENODATA,
                                     "read_enodev": errno.ENODEV}[mode], file)
            raise PermissionError(13, "Permission denied", file)
        return _builtins.open(rp, *a, **kw)

    # ---- tree building (virtual paths)
    def clear(self):
        for n in _real_os.listdir(self.root):
            shutil.rmtree(_real_os.path.join(self.root, n), ignore_errors=True)
        self.unreadable.clear()
        self.sysconf_override = None
        self.unread_mode = "open_eacces"

    def mkdir(self, vpath):
        _real_os.makedirs(self.root + vpath, exist_ok=True)

    def put(self, vpath, fs):
        """fs: None = absent, False = unreadable (exists, open raises), bytes = content"""
        if fs is None:
            return
        rp = self.root + vpath
        _real_os.makedirs(_real_os.path.dirname(rp), exist_ok=True)
        with _builtins.open(rp, "wb") as f:
            if fs is not False:
                f.write(fs)
        if fs is False:
            self.unreadable.add(rp)

    def close(self):
        shutil.rmtree(self.root, ignore_errors=True)


class Patched:
    """Context manager: install the shims into the given platform module(s) + psutil._common."""

    def __init__(self, red, ps, modules):
        self.red, self.ps, self.modules = red, ps, modules
        self.saved = []

    def __enter__(self):
        osh, gsh = _OsShim(self.red), _GlobShim(self.red)
        for m in self.modules:
            self.saved.append((m, "os", m.__dict__.get("os")))
            self.saved.append((m, "glob", m.__dict__.get("glob")))
            m.os, m.glob = osh, gsh
        c = self.ps._common
        self.saved.append((c, "open", c.__dict__.get("open", _MISSING)))
        c.open = self.red.open
        return self

    def __exit__(self, *a):
        for m, name, old in reversed(self.saved):
            if old is _MISSING:
                try:
                    delattr(m, name)
                except AttributeError:
                    pass
            else:
                setattr(m, name, old)
        self.saved = []


_MISSING = object()


def load_pslinux_variant(ps, sysfs):
    """Execute psutil/_pslinux.py a second time (as psutil._pslinux_c19_<v>) with the import-time test
    `os.path.exists("/sys/devices/system/cpu/cpufreq/policy0") or …("/sys/devices/system/cpu/cpu0/cpufreq")`
    forced to `sysfs`, and return the module: its `cpu_freq` is the other definition."""
    name = "psutil._pslinux_c19_%s" % ("sysfs" if sysfs else "cpuinfo")
    if name in sys.modules:
        return sys.modules[name]
    path = _real_os.path.join(_real_os.path.dirname(ps.__file__), "_pslinux.py")
    spec = importlib.util.spec_from_file_location(name, path)
    mod = importlib.util.module_from_spec(spec)
    real_exists = _real_os.path.exists

    def fake_exists(p):
        if isinstance(p, str) and p.startswith("/sys/devices/system/cpu/"):
            return bool(sysfs)
        return real_exists(p)
    _real_os.path.exists = fake_exists
    try:
        sys.modules[name] = mod
        spec.loader.exec_module(mod)
    finally:
        _real_os.path.exists = real_exists
    return mod


def is_sysfs_variant(mod):
    return "glob" in mod.cpu_freq.__code__.co_names


# ------------------------------------------------------------------------------------ running cases

def _exc(e):
    cls = type(e)
    name = "OSError" if isinstance(e, OSError) else cls.__name__
    return {"kind": "exc", "exc": name, "cls": cls.__name__}


def _hx(s):
    if isinstance(s, str):
        s = _real_os.fsencode(s)
    return bytes(s).hex()


def fs_of(j):
    """JSON file state → None / False / bytes"""
    if j is None:
        return None
    if j is False:
        return False
    return bytes.fromhex(j)


TRIP_SET_EXPR = "{'_'.join(os.path.basename(p).split('_')[0:3]) for p in trip_paths}"


def trip_set_order(trip_paths):
    """Iteration order of the set psutil builds from these paths — the SAME expression, evaluated in
    this very interpreter (same hash seed, same insertion order)."""
    trip_points = {'_'.join(_real_os.path.basename(p).split('_')[0:3]) for p in trip_paths}
    return list(trip_points)


class Impl:
    """Builds trees under the redirect and calls the real psutil functions."""

    def __init__(self, ps):
        self.ps = ps
        self.pl = ps._psplatform
        self.red = Redirect()
        self.proc = tempfile.mkdtemp(prefix="psv-proc-")
        self.saved_procfs = ps.PROCFS_PATH
        ps.PROCFS_PATH = self.proc
        self.variants = {}
        native = is_sysfs_variant(self.pl)
        self.native_variant = native
        self.variants[native] = self.pl
        self.variant_errors = {}
        self.capture_fresh()

    def variant(self, sysfs):
        if sysfs not in self.variants:
            self.variants[sysfs] = load_pslinux_variant(self.ps, sysfs)
            assert is_sysfs_variant(self.variants[sysfs]) == sysfs
        return self.variants[sysfs]

    def close(self):
        self.ps.PROCFS_PATH = self.saved_procfs
        self.red.close()
        shutil.rmtree(self.proc, ignore_errors=True)

    # ---- module state of a fresh interpreter (seeded round 5: histories around module globals)
    _SCALARS = (type(None), bool, int, float, str, bytes)

    def _state_modules(self):
        mods = [self.ps, self.pl]
        c = getattr(self.ps, "_common", None)
        if c is not None:
            mods.append(c)
        return mods

    def capture_fresh(self):
        """the scalar module globals (None / bool / int / float / str / bytes) and the content of the plain list / dict / set
        globals of psutil, psutil._pslinux and psutil._common as they are right after import — BOOT_TIME forced to its
        import-time value None. `restore_fresh` puts them back (and removes scalar names that did not exist), so that every
        history starts in a fresh interpreter's state WHATEVER globals a changed source keeps its memory in (no name is
        special-cased). Not covered: state inside other objects (closures, instances)."""
        self.fresh = {}
        for m in self._state_modules():
            for k, v in list(vars(m).items()):
                if not k.startswith("__") and isinstance(v, self._SCALARS):
                    self.fresh[(m, k)] = v
        if hasattr(self.pl, "BOOT_TIME"):
            self.fresh[(self.pl, "BOOT_TIME")] = None
        # plain module-level containers (list / dict / set objects): their CONTENT at this point, put back in place
        self.fresh_containers = []
        for m in self._state_modules():
            for k, v in list(vars(m).items()):
                if not k.startswith("__") and type(v) in (list, dict, set):
                    self.fresh_containers.append((m, k, v, type(v)(v)))

    def restore_fresh(self):
        for (m, k), v in self.fresh.items():
            if vars(m).get(k, _MISSING) is not v:
                setattr(m, k, v)
        for m, k, obj, content in self.fresh_containers:
            if obj != content:
                obj.clear()
                if isinstance(obj, list):
                    obj.extend(content)
                else:
                    obj.update(content)
            if vars(m).get(k, _MISSING) is not obj:
                setattr(m, k, obj)
        for m in self._state_modules():
            for k, v in list(vars(m).items()):
                if not k.startswith("__") and (m, k) not in self.fresh and isinstance(v, self._SCALARS):
                    delattr(m, k)

    def put_pid_stat(self, pid, start):
        """<procfs>/<pid>/stat as the kernel prints it (fs/proc/array.c do_task_stat: 52 fields), field 22 = starttime"""
        d = _real_os.path.join(self.proc, str(pid))
        _real_os.makedirs(d, exist_ok=True)
        fields = ["S", "1", str(pid), str(pid), "0", "-1", "4194304"] + ["0"] * 43
        fields[19] = str(start)
        with open(_real_os.path.join(d, "stat"), "wb") as f:
            f.write(("%d (sleeper) %s\n" % (pid, " ".join(fields))).encode())
        return d

    def run_boothist(self, steps, unread="open_eacces"):
        """a HISTORY of public calls in one interpreter whose module state is that of a fresh import at the start: each step
        first installs the <procfs>/stat of its moment (the kernel's btime may have moved by any amount since the last
        step), then makes ONE call: psutil.boot_time(), psutil.cpu_stats(), or create_time() of a process with the given
        starttime — through a new `_pslinux.Process` (mode plat) or a new `psutil.Process` (mode front: the constructor
        itself asks for the creation time). → one result per step + the module global at the end."""
        self.red.clear()
        self.red.unread_mode = unread
        outs, dirs = [], []
        self.restore_fresh()
        g = None
        with Patched(self.red, self.ps, [self.pl]):
            try:
                for i, st in enumerate(steps):
                    self.put_proc("stat", st["stat"])
                    call = st["call"]
                    try:
                        if call == "boot_time":
                            outs.append({"kind": "ok", "value": self.ps.boot_time()})
                        elif call == "cpu_stats":
                            s = self.ps.cpu_stats()
                            outs.append({"kind": "ok", "value": [s.ctx_switches, s.interrupts, s.soft_interrupts]})
                        elif call == "create_time":
                            pid = 4000 + i
                            dirs.append(self.put_pid_stat(pid, st["start"]))
                            if st.get("mode") == "front":
                                v = self.ps.Process(pid).create_time()
                            else:
                                v = self.pl.Process(pid).create_time()
                            outs.append({"kind": "ok", "value": v})
                        else:
                            raise ValueError(call)
                    except Exception as e:  # noqa: BLE001
                        outs.append(_exc(e))
                g = getattr(self.pl, "BOOT_TIME", "<deleted>")
            finally:
                self.restore_fresh()
                for d in dirs:
                    shutil.rmtree(d, ignore_errors=True)
        return {"outs": outs, "global": g, "ticks": self.pl.CLOCK_TICKS}

    # ---- procfs
    def put_proc(self, name, fs):
        p = _real_os.path.join(self.proc, name)
        if _real_os.path.exists(p):
            _real_os.unlink(p)
        self.red.unreadable.discard(p)
        if fs is None:
            return
        with open(p, "wb") as f:
            if fs is not False:
                f.write(fs)
        if fs is False:
            self.red.unreadable.add(p)

    # ---- temperatures / fans
    def build_hwmon(self, chips):
        r = self.red
        r.mkdir("/sys/class/hwmon")
        for i, c in enumerate(chips):
            d = "/sys/class/hwmon/hwmon%d" % c.get("dirn", i)
            r.mkdir(d)
            if c.get("nested"):
                d += "/device"
                r.mkdir(d)
            r.put(d + "/name", fs_of(c.get("name")))
            for j, s in enumerate(c.get("temps", []), 1):
                j = s.get("idx", j)
                for k in ("input", "label", "max", "crit"):
                    r.put("%s/temp%d_%s" % (d, j, k), fs_of(s.get(k)))
                if s.get("other"):
                    r.put("%s/temp%d_alarm" % (d, j), b"0\n")
            for j, f in enumerate(c.get("fans", []), 1):
                j = f.get("idx", j)
                for k in ("input", "label"):
                    r.put("%s/fan%d_%s" % (d, j, k), fs_of(f.get(k)))
                if f.get("other"):
                    r.put("%s/fan%d_min" % (d, j), b"0\n")

    def build_temps(self, case):
        """case: chips, coretemp (n files), zones [{temp, typ, trips:[{k, typ, temp, hyst}]}].
        Returns per zone the set-iteration order of the derived trip-point NAMES (as this interpreter has it)."""
        r = self.red
        r.clear()
        r.unread_mode = case.get("unread", "open_eacces")
        self.build_hwmon(case.get("chips", []))
        for k in range(case.get("coretemp", 0)):
            r.put("/sys/devices/platform/coretemp.0/hwmon/hwmon0/temp%d_input" % (k + 1), b"40000\n")
        r.mkdir("/sys/class/thermal")
        orders = []
        for i, z in enumerate(case.get("zones", [])):
            d = "/sys/class/thermal/thermal_zone%d" % z.get("dirn", i)
            r.mkdir(d)
            r.put(d + "/temp", fs_of(z.get("temp")))
            r.put(d + "/type", fs_of(z.get("typ")))
            for t in z.get("trips", []):
                r.put("%s/trip_point_%d_type" % (d, t["k"]), fs_of(t.get("typ")))
                r.put("%s/trip_point_%d_temp" % (d, t["k"]), fs_of(t.get("temp")))
                if t.get("hyst"):
                    r.put("%s/trip_point_%d_hyst" % (d, t["k"]), b"0\n")
            for name, v in z.get("extra", []):
                r.put("%s/%s" % (d, name), fs_of(v))
            paths = _GlobShim(r).glob(d + "/trip_point*")
            orders.append(trip_set_order(paths))
        return orders

    def _rows(self, d, plat):
        rows = []
        for unit, vals in d.items():
            for v in vals:
                label, cur, high, crit = v
                rows.append({"unit": _hx(unit), "label": _hx(label), "current": cur, "high": high, "crit": crit})
        return rows

    def run_temps(self, case):
        orders = self.build_temps(case)
        out = {"orders": orders}
        with Patched(self.red, self.ps, [self.pl]):
            try:
                out["plat"] = {"kind": "ok", "value": self._rows(self.pl.sensors_temperatures(), True)}
            except Exception as e:  # noqa: BLE001
                out["plat"] = _exc(e)
            try:
                out["front"] = {"kind": "ok", "value": self._rows(
                    self.ps.sensors_temperatures(fahrenheit=bool(case.get("fahrenheit"))), False)}
            except Exception as e:  # noqa: BLE001
                out["front"] = _exc(e)
        return out

    def run_fans(self, case):
        self.red.clear()
        self.red.unread_mode = case.get("unread", "open_eacces")
        self.build_hwmon(case.get("chips", []))
        with Patched(self.red, self.ps, [self.pl]):
            try:
                d = self.ps.sensors_fans()
                rows = [{"unit": _hx(u), "label": _hx(f.label), "current": f.current} for u, fl in d.items() for f in fl]
                return {"kind": "ok", "value": rows}
            except Exception as e:  # noqa: BLE001
                return _exc(e)

    # ---- battery
    BAT_FILES = ("energy_now", "charge_now", "power_now", "current_now", "energy_full", "charge_full",
                 "time_to_empty_now", "capacity", "status", "online",
                 "type", "scope")          # the last two are not modelled: psutil must not look at them

    def run_battery(self, case):
        r = self.red
        r.clear()
        r.unread_mode = case.get("unread", "open_eacces")
        if case.get("dir", True):
            r.mkdir("/sys/class/power_supply")
            for s in case.get("supplies", []):
                d = "/sys/class/power_supply/" + bytes.fromhex(s["name"]).decode("ascii")
                r.mkdir(d)
                for k in self.BAT_FILES:
                    r.put(d + "/" + k, fs_of(s.get(k)))
        with Patched(self.red, self.ps, [self.pl]):
            try:
                b = self.ps.sensors_battery()
                if b is None:
                    return {"kind": "ok", "value": None}
                return {"kind": "ok", "value": {"percent": b.percent, "secsleft": int(b.secsleft),
                                                "secsleft_repr": repr(b.secsleft), "plugged": b.power_plugged}}
            except Exception as e:  # noqa: BLE001
                return _exc(e)

    # ---- cpu_freq
    POLICY_FILES = ("scaling_cur_freq", "cpuinfo_cur_freq", "scaling_max_freq", "scaling_min_freq")

    def run_cpufreq(self, case, cpuinfo_bytes):
        r = self.red
        r.clear()
        r.unread_mode = case.get("unread", "open_eacces")
        r.mkdir("/sys/devices/system/cpu/cpufreq")
        for p in case.get("policies", []):
            d = "/sys/devices/system/cpu/cpufreq/policy%d" % p["n"]
            r.mkdir(d)
            for k in self.POLICY_FILES:
                r.put(d + "/" + k, fs_of(p.get(k)))
        for p in case.get("percpu_dirs", []):
            d = "/sys/devices/system/cpu/cpu%d/cpufreq" % p["n"]
            r.mkdir(d)
            for k in self.POLICY_FILES:
                r.put(d + "/" + k, fs_of(p.get(k)))
        for i, f in case.get("online", []):
            r.put("/sys/devices/system/cpu/cpu%d/online" % i, fs_of(f))
        self.put_proc("cpuinfo", cpuinfo_bytes)
        mod = self.variant(bool(case["variant"]))
        saved = self.pl.cpu_freq
        self.pl.cpu_freq = mod.cpu_freq
        try:
            with Patched(self.red, self.ps, [self.pl] + ([mod] if mod is not self.pl else [])):
                try:
                    v = self.ps.cpu_freq(percpu=bool(case["percpu"]))
                except Exception as e:  # noqa: BLE001
                    return _exc(e)
        finally:
            self.pl.cpu_freq = saved

        def t(f):
            return [f.current, f.min, f.max]
        if v is None:
            return {"kind": "ok", "value": None}
        if isinstance(v, list):
            return {"kind": "ok", "value": {"list": [t(f) for f in v]}}
        return {"kind": "ok", "value": {"one": t(v)}}

    # ---- cpu_count / cpu_stats / boot_time
    def run_cpucount(self, case, cpuinfo_bytes, stat_bytes):
        r = self.red
        r.clear()
        r.unread_mode = case.get("unread", "open_eacces")
        r.mkdir("/sys/devices/system/cpu")
        for name, key in (("core_cpus_list", "core"), ("thread_siblings_list", "sib")):
            for i, f in enumerate(case.get(key, [])):
                r.put("/sys/devices/system/cpu/cpu%d/topology/%s" % (i, name), fs_of(f))
        self.put_proc("cpuinfo", cpuinfo_bytes)
        self.put_proc("stat", stat_bytes)
        sc = case.get("sysconf")
        r.sysconf_override = ("raise", None) if sc is None else ("value", sc)
        with Patched(self.red, self.ps, [self.pl]):
            try:
                return {"kind": "ok", "value": self.ps.cpu_count(logical=bool(case["logical"]))}
            except Exception as e:  # noqa: BLE001
                return _exc(e)

    def run_cpustats(self, stat_bytes, unread="open_eacces"):
        self.red.clear()
        self.red.unread_mode = unread
        self.put_proc("stat", stat_bytes)
        with Patched(self.red, self.ps, [self.pl]):
            try:
                s = self.ps.cpu_stats()
                return {"kind": "ok", "value": [s.ctx_switches, s.interrupts, s.soft_interrupts], "syscalls": s.syscalls}
            except Exception as e:  # noqa: BLE001
                return _exc(e)

    def run_boottime(self, stat_bytes, unread="open_eacces"):
        self.red.clear()
        self.red.unread_mode = unread
        self.put_proc("stat", stat_bytes)
        with Patched(self.red, self.ps, [self.pl]):
            try:
                return {"kind": "ok", "value": self.ps.boot_time()}
            except Exception as e:  # noqa: BLE001
                return _exc(e)
            finally:
                self.pl.BOOT_TIME = None

    def run_boottime_seq(self, stats, unread="open_eacces"):
        """a HISTORY of boot_time() calls, each on the /proc/stat of its moment, WITHOUT touching the module global
        BOOT_TIME in between (it starts unset, as in a fresh interpreter): a function that served a remembered value
        would show here. → one result per call + whether the global kept the FIRST value (what create_time() relies on)."""
        self.red.clear()
        self.red.unread_mode = unread
        outs = []
        self.pl.BOOT_TIME = None
        with Patched(self.red, self.ps, [self.pl]):
            try:
                for st in stats:
                    self.put_proc("stat", st)
                    try:
                        outs.append({"kind": "ok", "value": self.ps.boot_time()})
                    except Exception as e:  # noqa: BLE001
                        outs.append(_exc(e))
                g = self.pl.BOOT_TIME
            finally:
                self.pl.BOOT_TIME = None
        return {"calls": outs, "global": g}


def main(argv):
    """Subprocess mode: argv[0] = snapshot dir holding `psutil/`; stdin: one temps case per line;
    stdout: one result per line. Used to run thermal-zone cases under other PYTHONHASHSEED values."""
    snap = argv[0]
    sys.path.insert(0, snap)
    import psutil
    assert _real_os.path.abspath(psutil.__file__).startswith(_real_os.path.abspath(snap)), psutil.__file__
    impl = Impl(psutil)
    try:
        for line in sys.stdin:
            line = line.strip()
            if not line:
                continue
            case = json.loads(line)
            out = impl.run_temps(case)
            sys.stdout.write(json.dumps(out) + "\n")
            sys.stdout.flush()
    finally:
        impl.close()
    return 0


if __name__ == "__main__":
    sys.exit(main(sys.argv[1:]))
