"""C04 — a fake /proc/<pid> complete enough for EVERY getter behind `as_dict` (attrs=[] = all names).

Files are rendered from the kernel's documented formats (proc(5)): stat, status, statm, cmdline, environ, io,
smaps, smaps_rollup, fd/ + fdinfo/, task/<tid>/stat, cwd and exe links; the procfs root gets meminfo and the
net/ tables. The three getters that are system calls on the real PID (nice → getpriority, ionice →
ioprio_get, cpu_affinity → sched_getaffinity) are answered from the simulated table (ESRCH once the PID is gone).
EACCES on one file / link / directory of one PID is injected at the functions psutil opens them with
(`_pslinux.open_binary`, `_pslinux.open_text`, `os.readlink`, `os.listdir`) — the harness runs as root, file
modes would not deny anything.
"""
import os

SMAPS = (
    "00400000-00452000 r-xp 00000000 08:02 173521      /usr/bin/p\n"
    "Size:                328 kB\nKernelPageSize:        4 kB\nMMUPageSize:           4 kB\nRss:                 100 kB\n"
    "Pss:                  50 kB\nShared_Clean:         40 kB\nShared_Dirty:          0 kB\nPrivate_Clean:        60 kB\n"
    "Private_Dirty:         0 kB\nReferenced:          100 kB\nAnonymous:             0 kB\nLazyFree:              0 kB\n"
    "AnonHugePages:         0 kB\nShmemPmdMapped:        0 kB\nFilePmdMapped:         0 kB\nShared_Hugetlb:        0 kB\n"
    "Private_Hugetlb:       0 kB\nSwap:                  0 kB\nSwapPss:               0 kB\nLocked:                0 kB\n"
    "THPeligible:    0\nVmFlags: rd ex mr mw me dw\n"
)
ROLLUP = (
    "00400000-7ffd1a5b9000 ---p 00000000 00:00 0      [rollup]\n"
    "Rss:                 100 kB\nPss:                  50 kB\nPss_Anon:              0 kB\nPss_File:             50 kB\n"
    "Pss_Shmem:             0 kB\nShared_Clean:         40 kB\nShared_Dirty:          0 kB\nPrivate_Clean:        60 kB\n"
    "Private_Dirty:         0 kB\nReferenced:          100 kB\nAnonymous:             0 kB\nSwap:                  0 kB\n"
    "SwapPss:               0 kB\nLocked:                0 kB\n"
)
MEMINFO = ("MemTotal:       16000000 kB\nMemFree:         8000000 kB\nMemAvailable:   12000000 kB\nBuffers:          100000 kB\n"
           "Cached:          2000000 kB\nSwapCached:            0 kB\nActive:          3000000 kB\nInactive:        1000000 kB\n"
           "SwapTotal:             0 kB\nSwapFree:              0 kB\nShmem:             10000 kB\nSlab:             200000 kB\n"
           "SReclaimable:     100000 kB\n")
NET_HEADERS = {
    "net/tcp": "  sl  local_address rem_address   st tx_queue rx_queue tr tm->when retrnsmt   uid  timeout inode\n",
    "net/tcp6": "  sl  local_address                         remote_address                        st tx_queue rx_queue tr tm->when retrnsmt   uid  timeout inode\n",
    "net/udp": "  sl  local_address rem_address   st tx_queue rx_queue tr tm->when retrnsmt   uid  timeout inode ref pointer drops\n",
    "net/udp6": "  sl  local_address                         remote_address                        st tx_queue rx_queue tr tm->when retrnsmt   uid  timeout inode ref pointer drops\n",
    "net/unix": "Num       RefCount Protocol Flags    Type St Inode Path\n",
}


def status_full(pid, state="S (sleeping)"):
    return ("Name:\tp\nUmask:\t0022\nState:\t%s\nTgid:\t%d\nNgid:\t0\nPid:\t%d\nPPid:\t1\nTracerPid:\t0\n"
            "Uid:\t0\t0\t0\t0\nGid:\t0\t0\t0\t0\nFDSize:\t64\nGroups:\t0\nVmPeak:\t  1000 kB\nVmSize:\t  1000 kB\n"
            "VmRSS:\t   100 kB\nThreads:\t1\nSigQ:\t0/1000\nCpus_allowed:\t1\nCpus_allowed_list:\t0\n"
            "voluntary_ctxt_switches:\t10\nnonvoluntary_ctxt_switches:\t2\n" % (state, pid, pid)).encode()


LIGHT = ("stat", "status", "statm", "cmdline", "environ", "io", "cwd")


def files_for(pid, stat_bytes, zombie, keep_content=False, light=False):
    """relative name -> bytes (regular file) | ("link", target) | ("dir", {…}); `keep_content`: a zombie keeps the
    content of a live process in every entry but stat / status (what its entries GIVE is then decided per access by
    the hook of harness/props/c04_scan.py); `light`: only the regular files and the cwd link"""
    state = "Z (zombie)" if zombie else "S (sleeping)"
    if keep_content:
        zombie = False
    f = {
        "stat": stat_bytes,
        "status": status_full(pid, state),
        "statm": b"250 25 10 1 0 20 0\n",
        "cmdline": b"" if zombie else b"/usr/bin/p\x00--flag\x00",
        "environ": b"" if zombie else b"A=1\x00B=two\x00",
        "io": b"rchar: 1\nwchar: 2\nsyscr: 3\nsyscw: 4\nread_bytes: 5\nwrite_bytes: 6\ncancelled_write_bytes: 0\n",
        "smaps": b"" if zombie else SMAPS.encode(),
        "smaps_rollup": b"" if zombie else ROLLUP.encode(),
        "cwd": ("link", "/"),
        "exe": ("link", "/usr/bin/p"),
        "fd": ("dir", {"0": ("link", "/dev/null"), "3": ("link", "socket:[12345]")}),
        "fdinfo": ("dir", {"0": b"pos:\t0\nflags:\t0100002\nmnt_id:\t1\n", "3": b"pos:\t0\nflags:\t02\nmnt_id:\t1\n"}),
        "task": ("dir", {str(pid): ("dir", {"stat": stat_bytes})}),
    }
    if light:        # only the entries the getters of harness/props/c04_scan.py read
        f = {k: v for k, v in f.items() if k in LIGHT}
    return f


def write_tree(base, files):
    os.makedirs(base, exist_ok=True)
    for name, v in files.items():
        p = os.path.join(base, name)
        if isinstance(v, bytes):
            with open(p, "wb") as fh:
                fh.write(v)
        elif v[0] == "link":
            os.symlink(v[1], p)
        else:
            write_tree(p, v[1])


# which /proc/<pid> entries a denial can hit (regular files, links, directories)
DENIABLE = ["stat", "status", "statm", "cmdline", "environ", "io", "smaps", "smaps_rollup", "cwd", "exe", "fd", "task"]


class OsPatches:
    """system calls on the PID answered from the simulated table + EACCES injection; installed on `impl`"""

    def __init__(self, impl):
        self.impl = impl
        self.deny = set()            # (pid, relative name)
        self.errno = None            # errno of the injected failure (None = EACCES)
        ps = impl.ps
        linux = ps._pslinux
        self.saved = [(linux.cext, "proc_cpu_affinity_get", linux.cext.proc_cpu_affinity_get),
                      (linux.cext, "proc_ioprio_get", linux.cext.proc_ioprio_get),
                      (linux.cext_posix, "getpriority", linux.cext_posix.getpriority),
                      (linux, "open_binary", linux.open_binary),
                      (linux, "open_text", linux.open_text),
                      (os, "readlink", os.readlink)]
        real_ob, real_ot, real_rl = linux.open_binary, linux.open_text, os.readlink

        def alive(pid):
            if impl.k.find_proc(pid) is None:
                raise ProcessLookupError(3, "No such process")

        def affinity(pid):
            alive(pid)
            return [0]

        def ioprio(pid):
            alive(pid)
            return (0, 4)

        def getprio(pid):
            alive(pid)
            return 0

        def open_binary(fname, *a, **kw):
            self.check(fname)
            return real_ob(fname, *a, **kw)

        def open_text(fname, *a, **kw):
            self.check(fname)
            return real_ot(fname, *a, **kw)

        def readlink(path, *a, **kw):
            self.check(path)
            return real_rl(path, *a, **kw)
        linux.cext.proc_cpu_affinity_get = affinity
        linux.cext.proc_ioprio_get = ioprio
        linux.cext_posix.getpriority = getprio
        linux.open_binary = open_binary
        linux.open_text = open_text
        os.readlink = readlink

    def check(self, path):
        if not self.deny:
            return
        path = os.fsdecode(path)
        root = self.impl.root + "/"
        if path.startswith(root):
            parts = path[len(root):].split("/")
            if len(parts) >= 2 and parts[0].isdigit() and (int(parts[0]), parts[1]) in self.deny:
                if self.errno in (None, 13):
                    raise PermissionError(13, "Permission denied", path)
                # any other errno: OSError picks the subclass (ESRCH -> ProcessLookupError, EIO -> plain OSError)
                raise OSError(self.errno, os.strerror(self.errno), path)

    def close(self):
        for obj, name, val in reversed(self.saved):
            setattr(obj, name, val)


def getter_outcome(ps, pid, name):
    """what the getter does when called on its own on a fresh Process (the specification of the value as_dict stores)"""
    try:
        p = ps.Process(pid)
    except ps.NoSuchProcess:
        return "nsp"
    try:
        if name == "pid":
            p.pid
        else:
            getattr(p, name)()
        return "val"
    except ps.ZombieProcess:
        return "zombie"
    except ps.AccessDenied:
        return "ad"
    except ps.NoSuchProcess:
        return "nsp"
    except NotImplementedError:
        return "notimpl"
    except Exception as e:  # noqa: BLE001
        return "exc:" + type(e).__name__
